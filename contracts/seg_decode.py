"""Typed value decoding: TdmsSegmentObject.read_values, from_bytes, String.read_values (C01 O6/O8, C15, C12 (e))."""
import numpy as np
from pyvc.harness import harness
from pyvc.models import SFile, SBytes, SymStr
from pyvc.npmodel import FileArr, as_filearr
from pyvc import sym
from spec import layout as L
from spec.base import And, Or, Not, Implies, Ite, Min, Max, uint, sint
from contracts.base_segment import fromfile_contract
from contracts.seg_objects import mk_file

SIZED = [c for c in L.READABLE if L.TYPES[c][1] is not None]
VARIANTS = [("%s,%s" % (L.TYPES[c][0], o), (c, o)) for c in SIZED for o in ("<", ">")]


def type_class(vc, code):
    return vc.interp.get("types.tds_data_types")[code]


from pyvc.npmodel import TsArr


def _setup(interp):
    interp.contracts_at_calls["nptdms.base_segment:fromfile"] = fromfile_contract


def expected_dtype(code, order):
    name, width, npname = L.TYPES[code]
    if npname is None:
        return None
    return np.dtype(npname).newbyteorder(order)


@harness("read_values", ["tdms_segment.TdmsSegmentObject.read_values", "types.StructType.from_bytes",
                         "types.TimeStamp.from_bytes"], ["C01", "C15", "C12", "C06"],
         variants=VARIANTS, setup=_setup,
         note="one variant per sized data type and byte order; count, cursor and file size symbolic")
def _read_values(vc):
    code, order = vc.variant
    name, width, npname = L.TYPES[code]
    f, pos0 = mk_file(vc)
    n = vc.int("n", lo=0)
    cls = type_class(vc, code)
    obj = vc.new("tdms_segment.TdmsSegmentObject", path="p", number_values=vc.int("nv", lo=0),
                 data_size=0, has_data=True, data_type=cls)
    out = vc.call_method(obj, "read_values", f, n, order)
    avail = Max(f.size - pos0, 0)
    if out.kind == "exc":
        # only a 16-byte-record reshape of a cut file may fail (timestamp data cut inside a record)
        vc.ensure("raises-only-for-timestamp-data-cut-inside-a-record",
                  And(code == 0x44, out.exc is ValueError, avail < n * 16))
        return
    r = out.value
    if code == 0x44:
        vc.ensure("timestamp/is-a-timestamp-array", isinstance(r, TsArr))
        a = r.arr
        exp_names = ("second_fractions", "seconds") if order == "<" else ("seconds", "second_fractions")
        vc.ensure("timestamp/field-order-follows-byte-order", r.names == exp_names)
        dt = a.dtype_
        vc.ensure("timestamp/fields-are-u8-and-i8-in-segment-order",
                  dt.fields["seconds"][0] == np.dtype(order + "i8") and
                  dt.fields["second_fractions"][0] == np.dtype(order + "u8"))
        vc.ensure("timestamp/field-offsets", dt.fields[exp_names[0]][1] == 0 and dt.fields[exp_names[1]][1] == 8)
    else:
        a = as_filearr(r)
        vc.ensure("dtype-is-the-type's-numpy-dtype-in-segment-order", a.dtype_ == expected_dtype(code, order))
        vc.ensure("is-typed-array", not a.as_bytes)
    m = Min(n * width, avail)
    vc.ensure("values-start-at-cursor", Or(a.count == 0, And(a.base == pos0, a.content is f.content)))
    vc.ensure("values-are-consecutive", And(a.stride == width, a.itemsize == width))
    vc.ensure("count-is-whole-values-available", And(a.count * width <= m, m < (a.count + 1) * width))
    vc.ensure("all-values-when-data-complete", Implies(n * width <= avail, a.count == n))
    vc.ensure("cursor-advanced", f.pos == pos0 + m)
    for (p, k) in f.reads:
        vc.ensure("reads-only-this-object's-bytes", And(p >= pos0, p + k <= pos0 + n * width), kind="read-set")


STR_VARIANTS = [("n=%d,%s" % (n, o), (n, o)) for n in (0, 1, 2, 3) for o in ("<", ">")]


def _replay_strings(md, vparam, model, st):
    """the counter-model's bytes given to the real String.read_values; expected strings decoded independently"""
    n, order = vparam
    from pyvc.vc import eval_array
    from pyvc.models import content_array
    pos = md.get("pos0", 0)
    size = md.get("size_f", 0)
    if pos < 0 or size < 0 or pos > 1 << 12:
        return None
    body = eval_array(model, content_array("content_f"), 0, min(max(size, 0), pos + 4096))   # a prefix suffices
    script = """
import io, struct, sys
from nptdms.types import String
content = %r
pos0, n, order = %d, %d, %r
offs = struct.unpack(order + "%%dL" %% n, content[pos0:pos0 + 4 * n]) if n else ()
start = pos0 + 4 * n
want, prev = [], 0
for o in offs:
    want.append(content[start + prev:start + o].decode("utf-8", errors="replace"))
    prev = o
if start + prev > len(content):
    print("the model's strings lie beyond the 4 KiB prefix replayed: not realised"); sys.exit(0)
f = io.BytesIO(content); f.seek(pos0)
got = String.read_values(f, n, order)
print("offsets", offs, "expected", want, "read", got, "cursor", f.tell(), "expected cursor", start + prev)
sys.exit(0 if list(got) == want and f.tell() == start + prev else 1)
""" % (body, pos, n, order)
    return {"script": script, "function": "types.String.read_values"}


@harness("string_read_values", ["types.String.read_values", "types.String.read", "types.String._decode"],
         ["C01", "C15"], variants=STR_VARIANTS, setup=_setup, level="shape-bounded", replay=_replay_strings,
         bound="number of strings in the chunk <= 3 (lengths, contents and positions symbolic)")
def _string_read_values(vc):
    n, order = vc.variant
    big = order == ">"
    f, pos0 = mk_file(vc)
    cls = vc.interp.get("types.String")
    # well-formed: offsets table and string bytes present, offsets nondecreasing
    offs = [uint(SBytes(f.content, pos0 + 4 * i, 4), 0, 4, big) for i in range(n)]
    prev = 0
    for i, o in enumerate(offs):
        vc.assume(o >= prev)
        prev = o
        named = vc.int("end_offset%d" % i)          # named leaf: counter-models are minimised over it
        vc.assume(named == o)
    vc.assume(f.size - pos0 >= 4 * n + prev)
    out = vc.call(vc.interp.getattr_value(cls, "read_values"), f, n, order)
    vc.ensure("no-exception", out.kind == "ret")
    if out.kind != "ret":
        return
    vals = out.value
    vc.ensure("one-string-per-value", len(vals) == n)
    start = pos0 + 4 * n
    prev = 0
    for i in range(n):
        s = vals[i]
        vc.ensure("string[%d]-bytes" % i, And(s.src.off == start + prev, s.src.length == offs[i] - prev))
        prev = offs[i]
    vc.ensure("cursor-after-strings", f.pos == start + prev)


# ---------------------------------------------------------------------------- one segment object, two byte orders

CROSS_VARIANTS = [("%s,index%s,values%s" % (L.TYPES[c][0], a, b), (c, a, b))
                  for c in (2, 3, 10, 0x08000C) for a in "<>" for b in "<>" if a != b]


@harness("read_values_after_index_of_other_byte_order",
         ["tdms_segment.TdmsSegmentObject.__init__", "tdms_segment.TdmsSegmentObject.read_raw_data_index",
          "tdms_segment.TdmsSegmentObject.read_values"], ["C15", "C01"], variants=CROSS_VARIANTS, setup=_setup,
         note="a segment object is shared by later segments ('same as before', carried-over list, metadata-less "
              "segment) whose ToC byte order may differ from the segment its index was parsed in: built by the real "
              "__init__, index parsed in one byte order, values read in the other, the values follow the byte order "
              "of the read")
def _read_values_cross(vc):
    code, idx_order, val_order = vc.variant
    name, width, npname = L.TYPES[code]
    it = vc.interp
    fi = SFile("idx")
    pi = vc.int("idxpos", lo=0)
    fi.pos = pi
    vc.assume(fi.size - pi >= 24)
    big = idx_order == ">"
    b = SBytes(fi.content, pi, 24)
    vc.assume(And(uint(b, 0, 4, big) == code, uint(b, 4, 4, big) == 1))
    obj = it.instantiate(it.get("tdms_segment.TdmsSegmentObject"), ["/'g'/'c'"], {})
    out = vc.call_method(obj, "read_raw_data_index", fi, 20, idx_order)
    vc.ensure("index/no-exception", out.kind == "ret")
    if out.kind != "ret":
        return
    f, pos0 = mk_file(vc)
    n = vc.int("n", lo=0)
    out = vc.call_method(obj, "read_values", f, n, val_order)
    vc.ensure("values/no-exception", out.kind == "ret")
    if out.kind != "ret":
        return
    a = as_filearr(out.value)
    vc.ensure("values-are-decoded-in-the-byte-order-of-the-segment-being-read",
              a.dtype_ == expected_dtype(code, val_order))
    vc.ensure("values-start-at-cursor", Or(a.count == 0, And(a.base == pos0, a.content is f.content)))
