"""reader.TdmsReader._read_lead_in against spec.layout (C01 O1, C06 (a), C09, C15)."""
from pyvc.harness import harness
from pyvc.models import SFile, SBytes
from pyvc.sym import sym_and, sym_or, sym_not, sym_implies, sym_ite
from spec import layout as L
from spec.base import And, Or, Not, Implies, Ite


def mk_reader(vc, data_file_size, tdms_version=None, **over):
    f = dict(_file_path=None, _index_file_path=None, _file=None, _index_file=None, _segments=None,
             _prev_segment_objects={}, object_metadata={}, _segment_channel_offsets={},
             tdms_version=tdms_version, _data_file_size=data_file_size)
    f.update(over)
    return vc.new("reader.TdmsReader", **f)


VARIANTS = [("%s,%s,%s" % (("index" if idx else "data"), ("size" if has_size else "nosize"),
                           ("ver" if ver else "nover")), (idx, has_size, ver))
            for idx in (False, True) for has_size in (True, False) for ver in (False, True)
            if not (not idx and not has_size)]   # a data file always has a size


def _replay(md, vparam, model, st):
    (idx, has_size, ver) = vparam
    from pyvc.vc import eval_array
    from pyvc.models import content_array
    pos = md.get("pos0", 0)
    size = md.get("size_f", 0)
    if pos < 0 or size < 0 or size > 1 << 16:
        return None
    body = eval_array(model, content_array("content_f"), 0, max(size, 0))
    script = """
import io, sys
from nptdms.reader import TdmsReader
import nptdms.reader as R
content = %r
pos0 = %d; seg_pos = %d; is_index = %r; S = %r; ver = %r
r = TdmsReader.__new__(TdmsReader)
r.tdms_version = ver; r._data_file_size = S
f = io.BytesIO(content); f.seek(pos0)
from spec import layout as L
try:
    res = r._read_lead_in(f, seg_pos, is_index)
    print("returned", res)
except Exception as e:
    res = e
    print("raised", type(e).__name__)
b = content[pos0:pos0+28]
def expect():
    if len(b) < 28: return EOFError
    if b[:4] != (b'TDSh' if is_index else b'TDSm'): return ValueError
    toc = L.lead_in_fields(b); big = bool(toc & 64)
    v, no, ro = L.lead_in_rest(b, big)
    d, n, inc = L.segment_extent(seg_pos, no, ro, S)
    if inc and S is None: return ("undefined",)
    if inc and n < d: return EOFError
    return (seg_pos, toc, d, n, inc)
e = expect()
print("expected", e)
if e == ("undefined",):
    ok = not isinstance(res, Exception) or isinstance(res, (EOFError,))
elif isinstance(e, type):
    ok = isinstance(res, e)
else:
    ok = (not isinstance(res, Exception)) and tuple(res) == e and f.tell() == pos0 + 28
sys.exit(0 if ok else 1)
""" % (body, pos, md.get("seg_pos", 0), idx, (md.get("S") if has_size else None),
       (md.get("ver0") if ver else None))
    return {"script": script, "function": "reader.TdmsReader._read_lead_in"}


@harness("read_lead_in", "reader.TdmsReader._read_lead_in", ["C01", "C06", "C09", "C15"], variants=VARIANTS,
         replay=_replay,
         note="variants enumerate {index/data stream} x {data file size known} x {version already set}; "
              "all byte contents, positions and sizes are symbolic")
def _read_lead_in(vc):
    (idx, has_size, ver) = vc.variant
    S = vc.int("S", lo=0) if has_size else None
    ver0 = vc.int("ver0") if ver else None
    rd = mk_reader(vc, S, ver0)
    f = SFile("f")
    p0 = vc.int("pos0", lo=0)
    f.pos = p0
    vc.assume(f.size >= 0)
    seg_pos = vc.int("seg_pos", lo=0)
    b = SBytes(f.content, p0, 28)
    avail = f.size - p0
    out = vc.call_method(rd, "_read_lead_in", f, seg_pos, idx)
    short = avail < 28
    tag_ok = SBytes(f.content, p0, 4).eq_concrete(b"TDSh" if idx else b"TDSm")
    toc = L.lead_in_fields(b)
    if out.kind == "exc" and out.exc is EOFError and vc.interp.truth(short):
        vc.ensure("EOFError-on-short-lead-in", True)
        return
    if out.kind == "exc" and out.exc is ValueError:
        vc.ensure("ValueError-only-on-bad-tag", And(Not(short), Not(tag_ok)))
        return
    vc.ensure("no-result-from-short-lead-in", Not(short))
    vc.ensure("tag-checked", tag_ok)
    big = vc.interp.truth((toc & L.TOC_BIG_ENDIAN) != 0)
    version, next_off, raw_off = L.lead_in_rest(b, big)
    data_pos, nxt, incomplete = L.segment_extent(seg_pos, next_off, raw_off, S)
    if S is None:
        # index-only: an unknown-length marker leaves the end undefined; the statement (C09) asks that the
        # index opens with the same objects -> must not crash
        vc.observe("next_off", next_off)
        if out.kind == "exc":
            vc.ensure("index-only-lead-in-never-TypeError", out.exc is EOFError,
                      known=[("KF-C09-unknown-length-index-only", next_off == L.UNKNOWN_LENGTH)])
            vc.ensure("index-only-EOFError-only-if-unknown-length", next_off == L.UNKNOWN_LENGTH)
            return
    metadata_cut = And(incomplete, nxt < data_pos)
    if out.kind == "exc":
        vc.ensure("raises-only-EOFError-here", out.exc is EOFError)
        vc.ensure("EOFError-only-if-metadata-cut", metadata_cut)
        return
    vc.ensure("metadata-cut-segment-dropped", Not(metadata_cut))
    (r_pos, r_toc, r_data, r_next, r_inc) = out.value
    vc.ensure("position", r_pos == seg_pos)
    vc.ensure("toc-mask-little-endian", r_toc == toc)
    vc.ensure("data-position", r_data == data_pos)
    vc.ensure("next-segment-pos-clamped", r_next == nxt)
    vc.ensure("incomplete-flag", r_inc == incomplete)
    vc.ensure("cursor-after-lead-in", f.pos == p0 + 28)
    vc.ensure("version-recorded", rd.tdms_version == (ver0 if ver else version))
