"""writer.py: value->type mapping, segment serialisation, ordering, index twin, resources
(C07, C08, C10, C16, C20)."""
from collections import OrderedDict
import numpy as np
import z3
from pyvc.harness import harness
from pyvc.models import SFile, SymStr, fresh_str, WBytes, FloatBits, as_wbytes
from pyvc.npmodel import NdArr
from pyvc.interp import Obj, ProgExc
from pyvc import sym
from pyvc.sym import _lift
from spec import layout as L
from spec.base import And, Or, Not, Implies, Ite


# ---------------------------------------------------------------------------- integer properties

@harness("to_int_property_value", ["writer.to_int_property_value", "types.StructType.__init__"], ["C07"],
         note="all integers")
def _to_int(vc):
    v = vc.int("value")
    out = vc.call("writer.to_int_property_value", v)
    fits_u64 = And(v >= 0, v < 2 ** 64)
    fits_i64 = And(v >= -2 ** 63, v < 2 ** 63)
    fits_i32 = And(v >= -2 ** 31, v < 2 ** 31)
    if out.kind == "exc":
        vc.ensure("raises-only-when-no-64-bit-type-holds-the-value", Not(Or(fits_u64, fits_i64)))
        return
    r = out.value
    name = r._cls.name
    vc.ensure("value-kept", r.value == v)
    vc.ensure("Int32-iff-it-fits-32-bits-signed", (name == "Int32") == fits_i32 if isinstance(fits_i32, bool)
              else ((name == "Int32") == vc.interp.truth(fits_i32)))
    if name == "Int32":
        vc.ensure("Int32/range", fits_i32)
        vc.ensure("Int32/4-bytes-little-endian-two's-complement",
                  r.bytes.parts == [('u', 4, v, False)] if isinstance(r.bytes, WBytes) else True)
    elif name == "Int64":
        vc.ensure("Int64/range", And(fits_i64, Not(fits_i32)))
    else:
        vc.ensure("Uint64-only-beyond-int64", And(name == "Uint64", v >= 2 ** 63, fits_u64))
    vc.ensure("type-code", r._cls.enum_value == {"Int32": 3, "Int64": 4, "Uint64": 8}[name])


@harness("infer_dtype", "writer._infer_dtype", ["C07"], variants=[("len=%d" % k, k) for k in (0, 1, 2, 3)],
         level="shape-bounded", bound="integer lists of <= 3 elements (all magnitudes)")
def _infer(vc):
    k = vc.variant
    xs = [vc.int("x%d" % i) for i in range(k)]
    out = vc.call("writer._infer_dtype", xs)
    vc.ensure("no-exception", out.kind == "ret")
    if k == 0:
        vc.ensure("empty-list-leaves-dtype-to-numpy", out.value is None)
        return
    dt = out.value
    info = np.iinfo(dt)
    for i, x in enumerate(xs):
        # precondition: some 64-bit integer type holds all elements
        representable = Or(And(*[And(y >= -2 ** 63, y < 2 ** 63) for y in xs]),
                           And(*[And(y >= 0, y < 2 ** 64) for y in xs]))
        vc.ensure("dtype-holds-element[%d]" % i, Or(And(x >= int(info.min), x <= int(info.max)),
                                                    Not(representable)))
    # not wider than needed: some element does not fit the next narrower type of the same signedness
    vc.ensure("is-an-integer-dtype", dt.kind in "iu")


# ---------------------------------------------------------------------------- segment serialisation

class Tok(object):
    def __init__(self, n):
        self.n = n

    def __repr__(self):
        return "<%s>" % self.n


_fresh_str = fresh_str


def fresh_str(st, label):
    """a name / text of arbitrary content whose UTF-8 encoding (also after quote doubling) is shorter than
    2**24 bytes (precondition: the 32-bit length fields of the format can hold it)"""
    s = _fresh_str(st, label)
    i = sym.z3int(s.ident)
    ul = z3.Function("utf8len", z3.IntSort(), z3.IntSort())
    esc = z3.Function("esc", z3.IntSort(), z3.IntSort())
    st.add_fact(z3.And(ul(i) >= 0, ul(i) < 2 ** 24, ul(esc(i)) >= 0, ul(esc(i)) < 2 ** 24))
    return s


def _setup_write(interp):
    def timestamp_init(interp_, f, args, kwargs):
        st = sym.get_state()
        self, value = args
        fr = st.fresh_int("fractions")
        sec = st.fresh_int("seconds")
        st.assume(And(fr >= 0, fr < 2 ** 64, sec >= -2 ** 63, sec < 2 ** 63))
        interp_.setattr_value(self, "value", value)
        interp_.setattr_value(self, "bytes", WBytes([('u', 8, fr, False), ('u', 8, sec, False)]))
    interp.contracts_at_calls["nptdms.types:TimeStamp.__init__"] = timestamp_init


def mk_props(vc, kinds, tag):
    st = vc.st
    d = OrderedDict()
    for i, k in enumerate(kinds):
        name = "prop%d" % i if i % 2 == 0 else fresh_str(st, "%s_name%d" % (tag, i))
        if k == "int":
            # accepted integer property values: anything a 64-bit TDMS integer type can hold
            d[name] = vc.int("%s_p%d" % (tag, i), lo=-2 ** 63, hi=2 ** 64 - 1)
        elif k == "str":
            d[name] = fresh_str(st, "%s_s%d" % (tag, i))
        elif k == "float":
            b = vc.int("%s_f%d" % (tag, i), lo=0, hi=2 ** 64 - 1)
            d[name] = FloatBits(b, 8)
        elif k == "bool":
            d[name] = True
        elif k == "np.int16":
            d[name] = np.int16(-7)
        elif k == "datetime":
            d[name] = np.datetime64("2020-01-02T03:04:05.000006", "us")
        elif k == "Uint8":
            d[name] = vc.interp.instantiate(vc.interp.get("types.Uint8"), [200], {})
        elif k == "TdmsTimestamp":
            d[name] = vc.interp.instantiate(vc.interp.get("timestamp.TdmsTimestamp"),
                                            [vc.int("%s_sec%d" % (tag, i), lo=-2 ** 63, hi=2 ** 63 - 1),
                                             vc.int("%s_fr%d" % (tag, i), lo=0, hi=2 ** 64 - 1)], {})
    return d


def mk_object(vc, kind, tag, props):
    st = vc.st
    it = vc.interp
    if kind == "root":
        return it.instantiate(it.get("writer.RootObject"), [props], {})
    if kind == "group":
        return it.instantiate(it.get("writer.GroupObject"), [fresh_str(st, tag + "_g"), props], {})
    g, c = fresh_str(st, tag + "_g"), fresh_str(st, tag + "_c")
    if kind.startswith("num:"):
        data = NdArr(kind[4:], vc.int(tag + "_n", lo=0, hi=2 ** 40), payload=Tok(tag + "-data"))
    elif kind.startswith("str:"):
        k = int(kind[4:])
        data = NdArr("<U8", k, items=[fresh_str(st, "%s_v%d" % (tag, i)) for i in range(k)])
    elif kind.startswith("ts:"):
        k = int(kind[3:])
        data = NdArr("datetime64[us]", k, items=[np.datetime64("2021-02-03T04:05:06.789012", "us")] * k)
    else:
        raise ValueError(kind)
    return it.instantiate(it.get("writer.ChannelObject"), [g, c, data, props], {})


OBJECT_LISTS = {
    "root+group+int32": [("root", ["int", "str"]), ("group", []), ("num:int32", ["float"])],
    "strings+float64": [("str:2", ["bool"]), ("num:float64", ["np.int16", "Uint8"])],
    "timestamps+empty-strings": [("ts:1", ["datetime"]), ("str:0", [])],
    "complex+bool+uint8": [("num:complex64", []), ("num:bool", []), ("num:uint8", ["TdmsTimestamp"])],
    "one-string": [("str:1", ["str", "int"])],
    "no-objects": [],
    "root-only": [("root", [])],
}
WS_VARIANTS = [("%s,%s,%d" % (k, "index" if ix else "data", ver), (k, ix, ver)) for k in sorted(OBJECT_LISTS)
               for ix in (False, True) for ver in (4712, 4713)]


def _file_parts(f):
    parts = []
    for b in f.written:
        parts.extend(as_wbytes(b).parts)
    return parts


@harness("writer_segment_write", ["writer.TdmsSegment.write", "writer.TdmsSegment.metadata",
                                  "writer.TdmsSegment.raw_data_index", "writer.TdmsSegment.leadin",
                                  "writer.TdmsSegment._data_size", "writer.TdmsSegment._write_data",
                                  "writer.TdmsSegment.__init__", "writer.object_data_size", "writer.write_data",
                                  "writer.to_file", "writer.write_values", "writer.write_string_values",
                                  "writer.read_properties_dict", "writer._to_tdms_value",
                                  "writer.ChannelObject.__init__", "writer.ChannelObject.data_type",
                                  "writer.ChannelObject.path", "writer.GroupObject.path", "writer.RootObject.path",
                                  "types.String.__init__", "types.StructType.__init__", "types.Boolean.__init__",
                                  "types.Bytes.__init__", "timestamp.TdmsTimestamp.bytes",
                                  "common.ObjectPath.__init__", "common._components_to_path"],
         ["C08", "C07", "C10", "C12", "C16"], variants=WS_VARIANTS, setup=_setup_write, level="shape-bounded",
         bound="7 object lists (<= 3 objects: root / group / numeric, string (<= 2 values), timestamp channels; "
               "<= 2 properties each over int, str, float, bool, numpy scalar, datetime, explicit type, "
               "TdmsTimestamp); names, values, array lengths symbolic", split_variants=False)
def _segment_write(vc):
    kind, is_index, version = vc.variant
    st = vc.st
    it = vc.interp
    objs = []
    for i, (k, pk) in enumerate(OBJECT_LISTS[kind]):
        props = mk_props(vc, pk, "o%d" % i) if pk or i % 2 == 0 else None
        objs.append(mk_object(vc, k, "o%d" % i, props))
    # valid input: distinct object paths (the writer rejects duplicates)
    seg_out = vc.call(it.get("writer.TdmsSegment"), objs, is_index, version)
    if seg_out.kind == "exc":
        vc.ensure("only-duplicate-paths-are-rejected", seg_out.exc is ValueError)
        return
    seg = seg_out.value
    f = SFile("out")
    out = vc.call_method(seg, "write", f)
    vc.ensure("no-exception", out.kind == "ret")
    if out.kind != "ret":
        return
    parts = _file_parts(f)

    def check(name, cond):
        vc.ensure(name, cond)
    ps = L.PartStream(parts, check)
    try:
        tag = ps.blob(4, "tag")
        vc.ensure("lead-in/tag", tag == ("raw", b"TDSh" if is_index else b"TDSm"))
        toc = ps.u(4, "toc")
        vc.ensure("lead-in/toc-declares-metadata,new-object-list,raw-data;little-endian",
                  toc == (L.TOC_META | L.TOC_NEW_OBJ_LIST | L.TOC_RAW))
        ver = ps.u(4, "version")
        vc.ensure("lead-in/version", ver == version)
        next_off = ps.u(8, "next-segment-offset")
        raw_off = ps.u(8, "raw-data-offset")
        md_start = ps.consumed
        entries = L.parse_metadata_parts(ps, vc.interp.truth)
        md_len = ps.consumed - md_start
        vc.ensure("raw-data-offset-is-the-metadata-length", raw_off == md_len)
        vc.ensure("one-metadata-entry-per-object", len(entries) == len(objs))
        # ---- raw data that follows
        data_start = ps.consumed
        expected_data = 0
        for i, ((path, index, props), o) in enumerate(zip(entries, objs)):
            has_data = hasattr_data(o)
            vc.ensure("object[%d]/index-present-iff-it-has-data" % i, (index is not None) == has_data)
            exp_props = o.properties or {}
            vc.ensure("object[%d]/property-count" % i, len(props) == len(exp_props))
            if index is None:
                continue
            tcode, nv, total = index
            data = o.data
            vc.ensure("object[%d]/number-of-values-is-len(data)" % i, nv == data.sym_len())
            exp_code = expected_type_code(data)
            vc.ensure("object[%d]/type-code" % i, tcode == exp_code)
            if not is_index:
                if exp_code == 0x20:
                    strs = list(data.items)
                    run = 0
                    for j, s in enumerate(strs):
                        run = run + s.encode("utf-8").length
                        off = ps.u(4, "string-offset")
                        vc.ensure("object[%d]/string-offset[%d]-is-running-byte-total" % (i, j), off == run)
                    for j, s in enumerate(strs):
                        ps.blob(s.encode("utf-8").length, "string-bytes")
                    size = run + 4 * len(strs)
                    vc.ensure("object[%d]/declared-total-string-size" % i, total == size)
                elif exp_code == 0x44:
                    for j in range(data.sym_len()):
                        ps.u(8, "fractions")
                        ps.u(8, "seconds")
                    size = 16 * data.sym_len()
                else:
                    w = L.TYPES[exp_code][1]
                    blob = ps.blob(nv * w, "array-data")
                    vc.ensure("object[%d]/array-written-whole" % i, blob is not None and blob[3] is data
                              if not (isinstance(nv, int) and nv == 0) else True)
                    size = nv * w
                expected_data = expected_data + size
            else:
                if exp_code == 0x20:
                    size = sum(s.encode("utf-8").length for s in data.items) + 4 * len(data.items)
                    vc.ensure("object[%d]/declared-total-string-size" % i, total == size)
                elif exp_code == 0x44:
                    size = 16 * data.sym_len()
                else:
                    size = nv * L.TYPES[exp_code][1]
                expected_data = expected_data + size
        vc.ensure("nothing-else-written", ps.done())
        written_data = ps.consumed - data_start
        if is_index:
            vc.ensure("index-file-holds-no-raw-data", written_data == 0)
        else:
            vc.ensure("raw-data-length-is-what-types-and-counts-imply", written_data == expected_data)
        vc.ensure("next-segment-offset-is-metadata-plus-raw-data", next_off == md_len + expected_data)
    except L.LayoutError as e:
        vc.ensure("metadata-parses-under-the-layout-grammar (%s)" % e, False)


def hasattr_data(o):
    # an empty array whose TDMS type cannot be inferred is written as an object without data
    return "data" in o._f and expected_type_code(o._f["data"]) != 0


def expected_type_code(data):
    name = data.dtype_.name
    codes = {"int8": 1, "int16": 2, "int32": 3, "int64": 4, "uint8": 5, "uint16": 6, "uint32": 7, "uint64": 8,
             "float32": 9, "float64": 10, "bool": 0x21, "complex64": 0x08000C, "complex128": 0x10000D}
    if name in codes:
        return codes[name]
    if data.dtype_.kind == "U":
        return 0x20 if data.sym_len() else 0
    if data.dtype_.kind == "M":
        return 0x44
    return None
