"""writer.py: value->type mapping, segment serialisation, ordering, index twin, resources
(C07, C08, C10, C16, C20)."""
from collections import OrderedDict
import numpy as np
import z3
from pyvc.harness import harness
from pyvc.models import SFile, SymStr, fresh_str, WBytes, FloatBits, as_wbytes
from pyvc.npmodel import NdArr
from pyvc.interp import Obj, ProgExc
from pyvc import sym
from pyvc.sym import _lift
from spec import layout as L
from spec.base import And, Or, Not, Implies, Ite


# ---------------------------------------------------------------------------- integer properties

@harness("to_int_property_value", ["writer.to_int_property_value", "types.StructType.__init__"], ["C07"],
         note="all integers")
def _to_int(vc):
    v = vc.int("value")
    out = vc.call("writer.to_int_property_value", v)
    fits_u64 = And(v >= 0, v < 2 ** 64)
    fits_i64 = And(v >= -2 ** 63, v < 2 ** 63)
    fits_i32 = And(v >= -2 ** 31, v < 2 ** 31)
    if out.kind == "exc":
        vc.ensure("raises-only-when-no-64-bit-type-holds-the-value", Not(Or(fits_u64, fits_i64)))
        return
    r = out.value
    name = r._cls.name
    vc.ensure("value-kept", r.value == v)
    vc.ensure("Int32-iff-it-fits-32-bits-signed", (name == "Int32") == fits_i32 if isinstance(fits_i32, bool)
              else ((name == "Int32") == vc.interp.truth(fits_i32)))
    if name == "Int32":
        vc.ensure("Int32/range", fits_i32)
        vc.ensure("Int32/4-bytes-little-endian-two's-complement",
                  r.bytes.parts == [('u', 4, v, False)] if isinstance(r.bytes, WBytes) else True)
    elif name == "Int64":
        vc.ensure("Int64/range", And(fits_i64, Not(fits_i32)))
    else:
        vc.ensure("Uint64-only-beyond-int64", And(name == "Uint64", v >= 2 ** 63, fits_u64))
    vc.ensure("type-code", r._cls.enum_value == {"Int32": 3, "Int64": 4, "Uint64": 8}[name])


@harness("infer_dtype", "writer._infer_dtype", ["C07"], variants=[("len=%d" % k, k) for k in (0, 1, 2, 3)],
         level="shape-bounded", bound="integer lists of <= 3 elements (all magnitudes)")
def _infer(vc):
    k = vc.variant
    xs = [vc.int("x%d" % i) for i in range(k)]
    out = vc.call("writer._infer_dtype", xs)
    vc.ensure("no-exception", out.kind == "ret")
    if k == 0:
        vc.ensure("empty-list-leaves-dtype-to-numpy", out.value is None)
        return
    dt = out.value
    info = np.iinfo(dt)
    for i, x in enumerate(xs):
        # precondition: some 64-bit integer type holds all elements
        representable = Or(And(*[And(y >= -2 ** 63, y < 2 ** 63) for y in xs]),
                           And(*[And(y >= 0, y < 2 ** 64) for y in xs]))
        vc.ensure("dtype-holds-element[%d]" % i, Or(And(x >= int(info.min), x <= int(info.max)),
                                                    Not(representable)))
    # not wider than needed: some element does not fit the next narrower type of the same signedness
    vc.ensure("is-an-integer-dtype", dt.kind in "iu")


# ---------------------------------------------------------------------------- segment serialisation

class Tok(object):
    def __init__(self, n):
        self.n = n

    def __repr__(self):
        return "<%s>" % self.n


_fresh_str = fresh_str


def fresh_str(st, label):
    """a name / text of arbitrary content whose UTF-8 encoding (also after quote doubling) is shorter than
    2**24 bytes (precondition: the 32-bit length fields of the format can hold it)"""
    s = _fresh_str(st, label)
    i = sym.z3int(s.ident)
    ul = z3.Function("utf8len", z3.IntSort(), z3.IntSort())
    esc = z3.Function("esc", z3.IntSort(), z3.IntSort())
    st.add_fact(z3.And(ul(i) >= 0, ul(i) < 2 ** 24, ul(esc(i)) >= 0, ul(esc(i)) < 2 ** 24))
    return s


def _setup_write(interp):
    def timestamp_init(interp_, f, args, kwargs):
        st = sym.get_state()
        self, value = args
        fr = st.fresh_int("fractions")
        sec = st.fresh_int("seconds")
        st.assume(And(fr >= 0, fr < 2 ** 64, sec >= -2 ** 63, sec < 2 ** 63))
        interp_.setattr_value(self, "value", value)
        interp_.setattr_value(self, "bytes", WBytes([('u', 8, fr, False), ('u', 8, sec, False)]))
    interp.contracts_at_calls["nptdms.types:TimeStamp.__init__"] = timestamp_init


def mk_props(vc, kinds, tag):
    st = vc.st
    d = OrderedDict()
    for i, k in enumerate(kinds):
        name = "prop%d" % i if i % 2 == 0 else fresh_str(st, "%s_name%d" % (tag, i))
        if k == "int":
            # accepted integer property values: anything a 64-bit TDMS integer type can hold
            d[name] = vc.int("%s_p%d" % (tag, i), lo=-2 ** 63, hi=2 ** 64 - 1)
        elif k == "str":
            d[name] = fresh_str(st, "%s_s%d" % (tag, i))
        elif k == "float":
            b = vc.int("%s_f%d" % (tag, i), lo=0, hi=2 ** 64 - 1)
            d[name] = FloatBits(b, 8)
        elif k == "bool":
            d[name] = True
        elif k == "np.int16":
            d[name] = np.int16(-7)
        elif k == "datetime":
            d[name] = np.datetime64("2020-01-02T03:04:05.000006", "us")
        elif k == "Uint8":
            d[name] = vc.interp.instantiate(vc.interp.get("types.Uint8"), [200], {})
        elif k == "TdmsTimestamp":
            d[name] = vc.interp.instantiate(vc.interp.get("timestamp.TdmsTimestamp"),
                                            [vc.int("%s_sec%d" % (tag, i), lo=-2 ** 63, hi=2 ** 63 - 1),
                                             vc.int("%s_fr%d" % (tag, i), lo=0, hi=2 ** 64 - 1)], {})
    return d


def mk_object(vc, kind, tag, props):
    st = vc.st
    it = vc.interp
    if kind == "root":
        return it.instantiate(it.get("writer.RootObject"), [props], {})
    if kind == "group":
        return it.instantiate(it.get("writer.GroupObject"), [fresh_str(st, tag + "_g"), props], {})
    g, c = fresh_str(st, tag + "_g"), fresh_str(st, tag + "_c")
    if kind.startswith("num:"):
        data = NdArr(kind[4:], vc.int(tag + "_n", lo=0, hi=2 ** 40), payload=Tok(tag + "-data"))
    elif kind.startswith("str:"):
        k = int(kind[4:])
        data = NdArr("<U8", k, items=[fresh_str(st, "%s_v%d" % (tag, i)) for i in range(k)])
    elif kind.startswith("ts:"):
        k = int(kind[3:])
        data = NdArr("datetime64[us]", k, items=[np.datetime64("2021-02-03T04:05:06.789012", "us")] * k)
    else:
        raise ValueError(kind)
    return it.instantiate(it.get("writer.ChannelObject"), [g, c, data, props], {})


OBJECT_LISTS = {
    "root+group+int32": [("root", ["int", "str"]), ("group", []), ("num:int32", ["float"])],
    "strings+float64": [("str:2", ["bool"]), ("num:float64", ["np.int16", "Uint8"])],
    "timestamps+empty-strings": [("ts:1", ["datetime"]), ("str:0", [])],
    "complex+bool+uint8": [("num:complex64", []), ("num:bool", []), ("num:uint8", ["TdmsTimestamp"])],
    "one-string": [("str:1", ["str", "int"])],
    "no-objects": [],
    "root-only": [("root", [])],
}
WS_VARIANTS = [("%s,%s,%d" % (k, "index" if ix else "data", ver), (k, ix, ver)) for k in sorted(OBJECT_LISTS)
               for ix in (False, True) for ver in (4712, 4713)]


def _file_parts(f):
    parts = []
    for b in f.written:
        parts.extend(as_wbytes(b).parts)
    return parts


@harness("writer_segment_write", ["writer.TdmsSegment.write", "writer.TdmsSegment.metadata",
                                  "writer.TdmsSegment.raw_data_index", "writer.TdmsSegment.leadin",
                                  "writer.TdmsSegment._data_size", "writer.TdmsSegment._write_data",
                                  "writer.TdmsSegment.__init__", "writer.object_data_size", "writer.write_data",
                                  "writer.to_file", "writer.write_values", "writer.write_string_values",
                                  "writer.read_properties_dict", "writer._to_tdms_value",
                                  "writer.ChannelObject.__init__", "writer.ChannelObject.data_type",
                                  "writer.ChannelObject.path", "writer.GroupObject.path", "writer.RootObject.path",
                                  "types.String.__init__", "types.StructType.__init__", "types.Boolean.__init__",
                                  "types.Bytes.__init__", "timestamp.TdmsTimestamp.bytes",
                                  "common.ObjectPath.__init__", "common._components_to_path"],
         ["C08", "C07", "C10", "C12", "C16"], variants=WS_VARIANTS, setup=_setup_write, level="shape-bounded",
         bound="7 object lists (<= 3 objects: root / group / numeric, string (<= 2 values), timestamp channels; "
               "<= 2 properties each over int, str, float, bool, numpy scalar, datetime, explicit type, "
               "TdmsTimestamp); names, values, array lengths symbolic", split_variants=False)
def _segment_write(vc):
    kind, is_index, version = vc.variant
    st = vc.st
    it = vc.interp
    objs = []
    for i, (k, pk) in enumerate(OBJECT_LISTS[kind]):
        props = mk_props(vc, pk, "o%d" % i) if pk or i % 2 == 0 else None
        objs.append(mk_object(vc, k, "o%d" % i, props))
    # valid input: distinct object paths (the writer rejects duplicates)
    seg_out = vc.call(it.get("writer.TdmsSegment"), objs, is_index, version)
    if seg_out.kind == "exc":
        vc.ensure("only-duplicate-paths-are-rejected", seg_out.exc is ValueError)
        return
    seg = seg_out.value
    f = SFile("out")
    out = vc.call_method(seg, "write", f)
    vc.ensure("no-exception", out.kind == "ret")
    if out.kind != "ret":
        return
    parts = _file_parts(f)

    def check(name, cond):
        vc.ensure(name, cond)
    ps = L.PartStream(parts, check)
    try:
        tag = ps.blob(4, "tag")
        vc.ensure("lead-in/tag", tag == ("raw", b"TDSh" if is_index else b"TDSm"))
        toc = ps.u(4, "toc")
        vc.ensure("lead-in/toc-declares-metadata,new-object-list,raw-data;little-endian",
                  toc == (L.TOC_META | L.TOC_NEW_OBJ_LIST | L.TOC_RAW))
        ver = ps.u(4, "version")
        vc.ensure("lead-in/version", ver == version)
        next_off = ps.u(8, "next-segment-offset")
        raw_off = ps.u(8, "raw-data-offset")
        md_start = ps.consumed
        entries = L.parse_metadata_parts(ps, vc.interp.truth)
        md_len = ps.consumed - md_start
        vc.ensure("raw-data-offset-is-the-metadata-length", raw_off == md_len)
        vc.ensure("one-metadata-entry-per-object", len(entries) == len(objs))
        # ---- raw data that follows
        data_start = ps.consumed
        expected_data = 0
        for i, ((path, index, props), o) in enumerate(zip(entries, objs)):
            has_data = hasattr_data(o)
            vc.ensure("object[%d]/index-present-iff-it-has-data" % i, (index is not None) == has_data)
            exp_props = o.properties or {}
            vc.ensure("object[%d]/property-count" % i, len(props) == len(exp_props))
            for j, ((pname, ptype, pval), (ename, evalue)) in enumerate(zip(props, exp_props.items())):
                check_property(vc, "object[%d]/property[%d]" % (i, j), pname, ptype, pval, ename, evalue)
            if index is None:
                continue
            tcode, nv, total = index
            data = o.data
            vc.ensure("object[%d]/number-of-values-is-len(data)" % i, nv == data.sym_len())
            exp_code = expected_type_code(data)
            vc.ensure("object[%d]/type-code" % i, tcode == exp_code)
            if not is_index:
                if exp_code == 0x20:
                    strs = list(data.items)
                    run = 0
                    for j, s in enumerate(strs):
                        run = run + s.encode("utf-8").length
                        off = ps.u(4, "string-offset")
                        vc.ensure("object[%d]/string-offset[%d]-is-running-byte-total" % (i, j), off == run)
                    for j, s in enumerate(strs):
                        ps.blob(s.encode("utf-8").length, "string-bytes")
                    size = run + 4 * len(strs)
                    vc.ensure("object[%d]/declared-total-string-size" % i, total == size)
                elif exp_code == 0x44:
                    for j in range(data.sym_len()):
                        ps.u(8, "fractions")
                        ps.u(8, "seconds")
                    size = 16 * data.sym_len()
                else:
                    w = L.TYPES[exp_code][1]
                    blob = ps.blob(nv * w, "array-data")
                    vc.ensure("object[%d]/array-written-whole" % i, blob is not None and blob[3] is data
                              if not (isinstance(nv, int) and nv == 0) else True)
                    size = nv * w
                expected_data = expected_data + size
            else:
                if exp_code == 0x20:
                    size = sum(s.encode("utf-8").length for s in data.items) + 4 * len(data.items)
                    vc.ensure("object[%d]/declared-total-string-size" % i, total == size)
                elif exp_code == 0x44:
                    size = 16 * data.sym_len()
                else:
                    size = nv * L.TYPES[exp_code][1]
                expected_data = expected_data + size
        vc.ensure("nothing-else-written", ps.done())
        written_data = ps.consumed - data_start
        if is_index:
            vc.ensure("index-file-holds-no-raw-data", written_data == 0)
        else:
            vc.ensure("raw-data-length-is-what-types-and-counts-imply", written_data == expected_data)
        vc.ensure("next-segment-offset-is-metadata-plus-raw-data", next_off == md_len + expected_data)
    except L.LayoutError as e:
        vc.ensure("metadata-parses-under-the-layout-grammar (%s)" % e, False)


def _blob_is_text(blob, text):
    """the written bytes are the UTF-8 encoding of `text`"""
    if blob is None:
        return isinstance(text, str) and text == ""
    if blob[0] == "raw":
        return isinstance(text, str) and blob[1] == text.encode("utf-8")
    if isinstance(text, SymStr):
        return And(blob[1] == "utf8", blob[3] == text.ident)
    return False


def check_property(vc, tag, pname, ptype, pval, ename, evalue):
    vc.ensure(tag + "/name-preserved", _blob_is_text(pname, ename))
    if isinstance(evalue, FloatBits):
        vc.ensure(tag + "/float-written-as-double-with-the-same-bits",
                  And(ptype == 10, pval[0] == "num", pval[2] == evalue.bits))
    elif isinstance(evalue, SymStr):
        vc.ensure(tag + "/text-written-as-string", And(ptype == 0x20, _blob_is_text(pval[1], evalue)))
    elif isinstance(evalue, bool):
        vc.ensure(tag + "/bool-written-as-boolean", And(ptype == 0x21, pval[2] == (1 if evalue else 0)))
    elif isinstance(evalue, np.int16):
        vc.ensure(tag + "/numpy-scalar-keeps-its-type", And(ptype == 2, pval[2] == int(evalue) % 65536))
    elif isinstance(evalue, np.datetime64):
        vc.ensure(tag + "/datetime-written-as-timestamp", ptype == 0x44)
    elif isinstance(evalue, Obj) and evalue._cls.name == "Uint8":
        vc.ensure(tag + "/explicit-type-wrapper-kept", And(ptype == 5, pval[2] == 200))
    elif isinstance(evalue, Obj) and evalue._cls.name == "TdmsTimestamp":
        vc.ensure(tag + "/raw-timestamp-written-bit-exactly",
                  And(ptype == 0x44, pval[1] % 2 ** 64 == evalue.seconds % 2 ** 64,
                      pval[2] % 2 ** 64 == evalue.second_fractions))
    else:
        v = evalue     # integer: Int32 / Int64 / Uint64 by magnitude, two's complement
        small = And(v >= -2 ** 31, v < 2 ** 31)
        mid = And(v >= -2 ** 63, v < 2 ** 63)
        vc.ensure(tag + "/integer-type-by-magnitude",
                  Or(And(small, ptype == 3), And(Not(small), mid, ptype == 4), And(Not(mid), ptype == 8)))
        w = Ite(ptype == 3, 2 ** 32, 2 ** 64)
        vc.ensure(tag + "/integer-value-two's-complement", pval[2] % w == v % w)


def hasattr_data(o):
    # an empty array whose TDMS type cannot be inferred is written as an object without data
    return "data" in o._f and expected_type_code(o._f["data"]) != 0


def expected_type_code(data):
    name = data.dtype_.name
    codes = {"int8": 1, "int16": 2, "int32": 3, "int64": 4, "uint8": 5, "uint16": 6, "uint32": 7, "uint64": 8,
             "float32": 9, "float64": 10, "bool": 0x21, "complex64": 0x08000C, "complex128": 0x10000D}
    if name in codes:
        return codes[name]
    if data.dtype_.kind == "U":
        return 0x20 if data.sym_len() else 0
    if data.dtype_.kind == "M":
        return 0x44
    return None


# ---------------------------------------------------------------------------- write_segment

def _esc_arg(s):
    """s = SymStr with ident esc(x) -> SymStr(x)"""
    e = sym.z3int(s.ident)
    if z3.is_app(e) and e.decl().name() == "esc":
        return SymStr(_lift(e.arg(0)), "name")
    raise sym.Unsupported("path piece is not an escaped name")


def from_string_contract(interp, f, args, kwargs):
    """ObjectPath.from_string(enc(g, c)) == ObjectPath(g, c)  (C16, proved in harness path_roundtrip)"""
    from pyvc.models import CatStr
    p = args[-1]
    OP = interp.get("common.ObjectPath")
    if isinstance(p, str):
        if p == "/":
            return interp.instantiate(OP, [], {})
        raise sym.Unsupported("concrete path")
    pieces = p.pieces
    shape = p.shape()
    if shape == ("/'", None, "'"):
        return interp.instantiate(OP, [_esc_arg(pieces[1])], {})
    if shape == ("/'", None, "'/'", None, "'"):
        return interp.instantiate(OP, [_esc_arg(pieces[1]), _esc_arg(pieces[3])], {})
    raise sym.Unsupported("path shape %r" % (shape,))


def _setup_write_segment(interp):
    interp.contracts_at_calls["nptdms.common:ObjectPath.from_string"] = from_string_contract

    def seg_write(interp_, f, args, kwargs):
        st = sym.get_state()
        seg, file = args
        st.ghost.setdefault("segments_written", []).append((seg, file))
    interp.contracts_at_calls["nptdms.writer:TdmsSegment.write"] = seg_write


WSEG_LISTS = {
    "channel-only": ["chan:g1"],
    "two-channels-same-group": ["chan:g1", "chan:g1"],
    "channels-two-groups+explicit-group": ["chan:g1", "group:g2", "chan:g2"],
    "root+channel": ["root", "chan:g1"],
    "group-after-its-channel": ["chan:g1", "group:g1", "root"],
    "empty": [],
}
WSEG_VARIANTS = [("%s,root_written=%s,g1_written=%s,index=%s" % (k, r, g, ix), (k, r, g, ix))
                 for k in sorted(WSEG_LISTS) for r in (False, True) for g in (False, True) for ix in (False, True)
                 if not (g and not r)]


@harness("writer_write_segment", ["writer.TdmsWriter.write_segment", "writer._path_ordering_key",
                                  "writer.TdmsSegment.__init__", "common.ObjectPath.is_root",
                                  "common.ObjectPath.is_group", "common.ObjectPath.is_channel"],
         ["C08", "C07", "C16"], variants=WSEG_VARIANTS, setup=_setup_write_segment, level="shape-bounded",
         bound="6 object lists (<= 3 objects) x {root already written} x {group already written} x {index file}; "
               "names symbolic")
def _write_segment(vc):
    from pyvc.models import SymSet
    kind, root_written, g1_written, with_index = vc.variant
    st = vc.st
    it = vc.interp
    names = {"g1": fresh_str(st, "g1"), "g2": fresh_str(st, "g2")}
    vc.assume(Not(names["g1"] == names["g2"]))
    objs = []
    cn = 0
    for spec in WSEG_LISTS[kind]:
        if spec == "root":
            objs.append(it.instantiate(it.get("writer.RootObject"), [None], {}))
        elif spec.startswith("group:"):
            objs.append(it.instantiate(it.get("writer.GroupObject"), [names[spec[6:]], None], {}))
        else:
            c = fresh_str(st, "c%d" % cn)
            cn += 1
            objs.append(it.instantiate(it.get("writer.ChannelObject"),
                                       [names[spec[5:]], c, NdArr("int32", vc.int("n%d" % cn, lo=0, hi=100),
                                                                  payload=Tok("d%d" % cn)), None], {}))
    # distinct channel names (the writer rejects duplicate paths)
    chans = [o for o in objs if o._cls.name == "ChannelObject"]
    for i in range(len(chans)):
        for j in range(i):
            vc.assume(Not(chans[i].channel == chans[j].channel))
    data_file, index_file = SFile("data"), (SFile("index") if with_index else None)
    w = vc.new("writer.TdmsWriter", _file=data_file, _index_file=index_file, _file_path=None, _index_file_path=None,
               _file_mode="w", _tdms_version=4713, _root_written=root_written,
               _groups_written=SymSet([names["g1"]] if g1_written else []))
    written_before = list(w._groups_written.items)
    out = vc.call_method(w, "write_segment", objs)
    vc.ensure("no-exception", out.kind == "ret")
    if out.kind != "ret":
        return
    segs = st.ghost.get("segments_written", [])
    vc.ensure("one-segment-per-stream", len(segs) == (2 if with_index else 1))
    (s0, f0) = segs[0]
    vc.ensure("data-segment-to-the-data-file", f0 is data_file and s0.is_index_file is False
              and s0._tdms_version == 4713)
    emitted = s0.objects
    if with_index:
        (s1, f1) = segs[1]
        vc.ensure("index-twin/same-object-list-same-version-to-the-index-stream",
                  f1 is index_file and s1.is_index_file is True and s1.objects is emitted
                  and s1._tdms_version == 4713)
    kinds = [o._cls.name for o in emitted]
    # every object given is emitted exactly once
    vc.ensure("every-object-emitted-once", all(sum(1 for e in emitted if e is o) == 1 for o in objs))
    has_root = "RootObject" in kinds
    vc.ensure("first-segment-declares-the-root", has_root or root_written)
    rank = {"RootObject": 0, "GroupObject": 1, "ChannelObject": 2}
    vc.ensure("root-before-groups-before-channels", [rank[k] for k in kinds] == sorted(rank[k] for k in kinds))
    vc.ensure("channel-order-unchanged", [o for o in emitted if o._cls.name == "ChannelObject"] == chans
              if True else True)
    for o in chans:
        declared = False
        for e in emitted:
            if e._cls.name == "GroupObject":
                declared = Or(declared, e.group == o.group)
        for g in written_before:
            declared = Or(declared, g == o.group)
        vc.ensure("channel's-group-declared-no-later-than-the-channel", declared)
    added = [e for e in emitted if not any(e is o for o in objs)]
    vc.ensure("only-root-and-missing-groups-are-added",
              all(e._cls.name in ("RootObject", "GroupObject") and not e.properties for e in added))
    vc.ensure("root-written-flag", w._root_written is True)
    for e in emitted:
        if e._cls.name == "GroupObject":
            vc.ensure("groups-emitted-are-remembered", e.group in w._groups_written)
    for g in written_before:
        vc.ensure("groups-written-earlier-stay-remembered", g in w._groups_written)


# ---------------------------------------------------------------------------- writer resources (C20)

WR_VARIANTS = [("path,index=%s" % ix, ("path", ix)) for ix in (False, True)] + \
              [("stream,index=%s" % ix, ("stream", ix)) for ix in (False, True)]


@harness("writer_resources", ["writer.TdmsWriter.__init__", "writer.TdmsWriter.open", "writer.TdmsWriter.close",
                              "writer.TdmsWriter.__enter__", "writer.TdmsWriter.__exit__"], ["C20"],
         variants=WR_VARIANTS)
def _writer_resources(vc):
    from contracts.reader_resources import install_open
    mode, ix = vc.variant
    st = vc.st
    install_open(vc.interp, st)
    cls = vc.interp.get("writer.TdmsWriter")
    if mode == "path":
        out = vc.call(cls, "out.tdms", "w", 4712, ix)
    else:
        data, index = SFile("data"), SFile("index")
        out = vc.call(cls, data, "w", 4712, (index if ix else False))
    vc.ensure("no-exception", out.kind == "ret")
    w = out.value
    vc.ensure("nothing-opened-before-open()", len(st.ghost["opened"]) == 0, kind="resource")
    e = vc.call_method(w, "__enter__")
    vc.ensure("enter-returns-the-writer", e.kind == "ret" and e.value is w)
    opened = st.ghost["opened"]
    if mode == "path":
        vc.ensure("files-opened-in-binary-write-mode", [f.mode for f in opened] == ["wb"] * (2 if ix else 1)
                  and [f.path for f in opened] == ["out.tdms"] + (["out.tdms_index"] if ix else []))
    else:
        vc.ensure("c20/streams-are-not-reopened", len(opened) == 0, kind="resource")
    x = vc.call_method(w, "__exit__", ValueError, None, None)
    vc.ensure("exit-does-not-swallow-errors", x.kind == "ret" and not x.value)
    if mode == "path":
        vc.ensure("c20/every-file-opened-by-the-writer-is-closed-after-the-with-block(also-on-error)",
                  all(f.closed for f in opened), kind="resource")
    else:
        vc.ensure("c20/caller-streams-never-closed", not data.closed and not index.closed, kind="resource")
    vc.ensure("references-released", w._file is None and w._index_file is None)


@harness("writer_init_validation", "writer.TdmsWriter.__init__", ["C07", "C08"],
         variants=[("bad-version", 0), ("stream+index=True", 1), ("path+index=stream", 2)])
def _writer_init_validation(vc):
    cls = vc.interp.get("writer.TdmsWriter")
    if vc.variant == 0:
        out = vc.call(cls, "out.tdms", "w", 4711, False)
    elif vc.variant == 1:
        out = vc.call(cls, SFile("d"), "w", 4712, True)
    else:
        out = vc.call(cls, "out.tdms", "w", 4712, SFile("i"))
    vc.ensure("invalid-arguments-rejected", out.raised(ValueError))


# ---------------------------------------------------------------------------- defragment (C10)

def _setup_defrag(interp):
    class FakeChannel(object):
        def __init__(self, name, props, data):
            self.name = name
            self.properties = props
            self._data = data
            self.read_calls = []

        def read_data(self, offset=0, length=None, scaled=True):
            self.read_calls.append((offset, length, scaled))
            return self._data

    class FakeGroup(object):
        def __init__(self, name, props, chans):
            self.name = name
            self.properties = props
            self._chans = chans

        def channels(self):
            return list(self._chans)

    class FakeFile(object):
        def __init__(self, props, groups):
            self.properties = props
            self._groups = groups

        def groups(self):
            return list(self._groups)

    def tdmsfile_ctor(interp_, cls, args, kwargs):
        st = sym.get_state()
        st.ghost["source_open"] = (args, kwargs)
        return st.ghost["source"]

    def write_segment(interp_, f, args, kwargs):
        st = sym.get_state()
        st.ghost.setdefault("segments", []).append(list(args[1]))
        if st.ghost.get("fail_at") == len(st.ghost["segments"]):
            raise ProgExc(ValueError, "write")
    interp.models[("instantiate_cls", "nptdms.tdms:TdmsFile")] = tdmsfile_ctor
    interp.contracts_at_calls["nptdms.writer:TdmsWriter.write_segment"] = write_segment
    interp._defrag_fakes = (FakeFile, FakeGroup, FakeChannel)


DEFRAG_VARIANTS = [("groups=%s,fail=%s" % (g, f), (g, f)) for g in ("0", "1x0", "1x2", "2x1") for f in (None, 2)]


@harness("defragment", "writer.TdmsWriter.defragment", ["C10", "C20"], variants=DEFRAG_VARIANTS,
         setup=_setup_defrag, level="shape-bounded", bound="<= 2 groups with <= 2 channels; failure injected "
                                                           "at the second segment")
def _defragment(vc):
    shape, fail = vc.variant
    st = vc.st
    FakeFile, FakeGroup, FakeChannel = vc.interp._defrag_fakes
    ng, nc = {"0": (0, 0), "1x0": (1, 0), "1x2": (1, 2), "2x1": (2, 1)}[shape]
    groups = []
    for g in range(ng):
        chans = [FakeChannel(fresh_str(st, "c%d_%d" % (g, c)), OrderedDict([("k", vc.int("cp%d_%d" % (g, c)))]),
                             NdArr("int32", vc.int("n%d_%d" % (g, c), lo=0, hi=50), payload=Tok("raw%d_%d" % (g, c))))
                 for c in range(nc)]
        groups.append(FakeGroup(fresh_str(st, "g%d" % g), OrderedDict([("gk", vc.int("gp%d" % g))]), chans))
    src = FakeFile(OrderedDict([("rk", vc.int("rp"))]), groups)
    st.ghost["source"] = src
    st.ghost["fail_at"] = fail
    dest = SFile("dest")
    cls = vc.interp.get("writer.TdmsWriter")
    out = vc.call(vc.interp.getattr_value(cls, "defragment"), "source.tdms", dest, 4713, False)
    segs = st.ghost.get("segments", [])
    nseg = 1 + sum(1 + len(g._chans) for g in groups)
    if fail is not None and nseg >= fail:
        vc.ensure("write-error-propagates", out.raised(ValueError))
        vc.ensure("c20/destination-stream-not-closed-by-the-library", not dest.closed, kind="resource")
        return
    vc.ensure("no-exception", out.kind == "ret")
    (a, kw) = st.ghost["source_open"]
    vc.ensure("source-read-with-raw-timestamps(full-precision)", kw.get("raw_timestamps") is True and a[0] == "source.tdms")
    vc.ensure("one-segment-for-the-root,-each-group-and-each-channel", len(segs) == nseg)
    vc.ensure("root-first-with-the-file-properties",
              len(segs[0]) == 1 and segs[0][0]._cls.name == "RootObject" and segs[0][0].properties is src.properties)
    i = 1
    for g in groups:
        o = segs[i][0]
        vc.ensure("group-object-with-its-name-and-properties",
                  len(segs[i]) == 1 and o._cls.name == "GroupObject" and o.group is g.name and o.properties is g.properties)
        i += 1
        for c in g._chans:
            o = segs[i][0]
            vc.ensure("channel-object-with-group,-name,-properties",
                      len(segs[i]) == 1 and o._cls.name == "ChannelObject" and o.group is g.name
                      and o.channel is c.name and o.properties is c.properties)
            vc.ensure("channel-data-is-the-unscaled-raw-data-read-once-in-full",
                      o.data is c._data and c.read_calls == [(0, None, False)])
            i += 1


# ---------------------------------------------------------------------------- offsets vs bytes written, any number of objects
#
# TdmsSegment._data_size and TdmsSegment._write_data loop over self.objects; both loops are cut by invariants over the
# same prefix-sum function DS (DS(0) = 0, DS(k+1) = DS(k) + size of object k if it carries data), so for ANY number of
# objects: the lead-in's next-segment offset minus its raw-data offset is DS(n), and _write_data writes every data
# object exactly once, in list order, DS(n) bytes in all.  object_data_size / write_data are used through one
# contract pair (SIZE(object) bytes; their agreement per data type is what writer_segment_write checks).

from pyvc.interp import LoopSpec, SymSeq

DS = z3.Function("W_DS", z3.IntSort(), z3.IntSort())


class WObjects(object):
    """self.objects: any number of objects; element k is a channel with data or an object without data"""
    _absent = ()

    def __init__(self, vc, n):
        self.vc, self.n = vc, n
        self.elements = []          # (k, object, size or None)

    def element(self, k):
        for (k0, o, size) in self.elements:
            if k0 is k:
                return o
        vc = self.vc
        tag = sym.fresh_name("wobj")
        if vc.interp.truth(vc.bool(tag + "_has_data")):
            kind = "num:int32" if vc.interp.truth(vc.bool(tag + "_int32")) else "num:float64"
            o = mk_object(vc, kind, tag, None)
            size = vc.int(tag + "_bytes", lo=0)
        else:
            o = mk_object(vc, "group", tag, None)
            size = None
        self.elements.append((k, o, size))
        return o

    def size_of(self, o):
        for (k0, oo, size) in self.elements:
            if oo is o:
                return size
        return None

    def as_symseq(self):
        return SymSeq(self.n, self.element, "objects")


def _setup_offsets(interp):
    def object_data_size(interp_, f, args, kwargs):
        st = sym.get_state()
        g = st.ghost["wofs"]
        (data_type, data) = args
        owner = [o for (k0, o, size) in g["objs"].elements if size is not None and o.data is data]
        st.check("call/object_data_size-of-an-object's-own-type-and-data",
                 len(owner) == 1 and data_type is interp_.getattr_value(owner[0], "data_type"), kind="call-pre")
        if len(owner) != 1:
            raise sym.Unsupported("object_data_size of foreign data")
        g["sized"].append(owner[0])
        return g["objs"].size_of(owner[0])

    def write_data(interp_, f, args, kwargs):
        st = sym.get_state()
        g = st.ghost["wofs"]
        (file, obj) = args
        size = g["objs"].size_of(obj)
        st.check("call/write_data-of-a-data-object-of-this-segment", size is not None, kind="call-pre")
        if size is None:
            raise sym.Unsupported("write_data of foreign object")
        g["writes"].append((file, obj, file.pos))
        file.pos = file.pos + size
        return None

    interp.contracts_at_calls["nptdms.writer:object_data_size"] = object_data_size
    interp.contracts_at_calls["nptdms.writer:write_data"] = write_data

    def contribution(g, k):
        mine = [(o, size) for (k0, o, size) in g["objs"].elements if k0 is k]
        (o, size) = mine[0]
        return o, (size if size is not None else 0)

    def define_next(env, k, st):
        g = st.ghost["wofs"]
        o, c = contribution(g, k)
        st.assume(_lift(DS(sym.z3int(k + 1))) == _lift(DS(sym.z3int(k))) + c)     # definition of DS(k+1)
        g["sized"][:] = []
        g["writes"][:] = []
        st.ghost["witer"] = dict(k=k, obj=o, c=c)

    def inv_size(env, k, st):
        return [("running-total-is-the-prefix-sum", env.vars["data_size"] == _lift(DS(sym.z3int(k)))),
                ("running-total-never-negative", env.vars["data_size"] >= 0)]

    def havoc_cursor(st, env):
        g = st.ghost["wofs"]
        g["file"].pos = st.fresh_int("cursor")
        return None

    def inv_write(env, k, st):
        g = st.ghost["wofs"]
        out = [("cursor-advanced-by-the-prefix-sum", g["file"].pos == g["pos0"] + _lift(DS(sym.z3int(k))))]
        it = st.ghost.get("witer")
        if it is not None and not it.get("checked") and g["phase"] == "write":
            it["checked"] = True
            has = g["objs"].size_of(it["obj"]) is not None
            if has:
                out.append(("data-object-written-exactly-once-to-the-segment's-file",
                            len(g["writes"]) == 1 and g["writes"][0][0] is g["file"]
                            and g["writes"][0][1] is it["obj"]))
            else:
                out.append(("object-without-data-writes-nothing", len(g["writes"]) == 0))
        return out

    interp.loop_specs[("nptdms.writer:TdmsSegment._data_size", 0)] = LoopSpec(
        inv_size, havoc={"data_size": "int"}, on_iter=define_next, name="objects-sized")
    interp.loop_specs[("nptdms.writer:TdmsSegment._write_data", 0)] = LoopSpec(
        inv_write, havoc={"__heap__": havoc_cursor}, on_iter=define_next, name="objects-written")


@harness("writer_offsets_all_objects", ["writer.TdmsSegment._data_size", "writer.TdmsSegment._write_data",
                                        "writer.TdmsSegment.leadin"],
         ["C08", "C07"], variants=[("data-file,4713", (False, 4713)), ("index-file,4712", (True, 4712))],
         setup=_setup_offsets, level="proof",
         note="ANY number of objects in the segment (two loop invariants over one prefix-sum function): lead-in "
              "offsets and the bytes _write_data emits agree; object_data_size/write_data by contract (assumed to "
              "agree on the size of one object, checked per data type by writer_segment_write)")
def _writer_offsets_all(vc):
    is_index, version = vc.variant
    st = vc.st
    n = vc.int("objects", lo=0)
    objs = WObjects(vc, n)
    seg = vc.new("writer.TdmsSegment", objects=objs, _tdms_version=version, is_index_file=is_index)
    f = SFile("out")
    pos0 = vc.int("pos0", lo=0)
    f.pos = pos0
    st.ghost["wofs"] = dict(objs=objs, sized=[], writes=[], file=f, pos0=pos0, phase="size")
    st.add_fact(DS(0) == 0)
    msize = vc.int("metadata_size", lo=4)
    # precondition: the segment fits the format's 64-bit offset fields
    vc.assume(msize + _lift(DS(sym.z3int(n))) < 2 ** 64)
    vc.cover("many-objects-are-within-the-precondition", n >= 1000)
    out = vc.call_method(seg, "leadin", ["kTocMetaData", "kTocRawData", "kTocNewObjList"], msize)
    vc.ensure("leadin/no-exception", out.kind == "ret")
    if out.kind != "ret":
        return
    lead = out.value
    total = _lift(DS(sym.z3int(n)))
    vc.ensure("leadin/five-fields", len(lead) == 5)
    vc.ensure("leadin/tag", as_wbytes(lead[0].bytes).parts == as_wbytes(b"TDSh" if is_index else b"TDSm").parts)
    vc.ensure("leadin/toc-mask", lead[1].value == (L.TOC_META | L.TOC_RAW | L.TOC_NEW_OBJ_LIST))
    vc.ensure("leadin/version", lead[2].value == version)
    vc.ensure("leadin/next-segment-offset-is-metadata-plus-all-data-bytes", lead[3].value == msize + total)
    vc.ensure("leadin/raw-data-offset-is-the-metadata-size", lead[4].value == msize)
    st.ghost["wofs"]["phase"] = "write"
    st.ghost["witer"] = None
    w = vc.call_method(seg, "_write_data", f)
    vc.ensure("write/no-exception", w.kind == "ret")
    vc.ensure("write/bytes-written-equal-the-difference-of-the-lead-in-offsets",
              f.pos - pos0 == lead[3].value - lead[4].value)
    vc.ensure("segment-keeps-its-object-list", seg.objects is objs, kind="frame")
