"""tdms.TdmsChannel slice / index normalisation against Python's slice semantics (C04 (c),(d); C14 (3); C19)."""
from pyvc.harness import harness
from pyvc.absarr import Window, Prog, Empty, Elem
from pyvc import sym
from pyvc.sym import sym_and, sym_or, sym_not, sym_implies
from spec import pyslice as PS
from spec.base import And, Or, Not, Implies, Ite


class Tok(object):
    def __init__(self, n):
        self.n = n

    def __repr__(self):
        return "<%s>" % self.n


DT = Tok("declared-dtype")
RAW_DT = Tok("raw-dtype")


def mk_channel(vc, n, raw_data=None, **over):
    f = dict(_path=None, properties={}, _length=n, data_type=Tok("type"), scaler_data_types=None,
             _group_properties={}, _file_properties={}, _reader=Tok("reader"), _raw_timestamps=False,
             _memmap_dir=None, _raw_data=raw_data, _cached_chunk=None, _cached_chunk_bounds=None,
             _cached_prop_dtype=DT)
    f.update(over)
    return vc.new("tdms.TdmsChannel", **f)


def _setup_slice(interp):
    def read_data(interp, f, args, kwargs):
        st = sym.get_state()
        self = args[0]
        offset = args[1] if len(args) > 1 else kwargs.get("offset", 0)
        length = args[2] if len(args) > 2 else kwargs.get("length", None)
        n = self._length
        # contract of read_data on a lazily opened channel (verified in harness read_channel_data):
        #   requires offset >= 0 and (length is None or length >= 0)   [else ValueError]
        #   ensures  result == full[offset : offset+length]
        st.check("call-pre/read_data/offset>=0", offset >= 0, kind="call-pre")
        if length is not None:
            st.check("call-pre/read_data/length>=0", length >= 0, kind="call-pre")
        lo, hi = PS.window(offset, length, n)
        st.ghost.setdefault("read_data_calls", []).append((offset, length))
        return Window(lo, hi, "values", DT)
    interp.contracts_at_calls["nptdms.tdms:TdmsChannel.read_data"] = read_data
    # the raw dtype is a different dtype token than the declared one (contract of _raw_data_dtype, harness
    # raw_data_dtype): a slice built from it is not "of channel.dtype"
    interp.contracts_at_calls["nptdms.tdms:TdmsChannel._raw_data_dtype"] = lambda i, f, a, k: RAW_DT


def _opt(vc, name, present):
    return vc.int(name) if present else None


SLICE_VARIANTS = [("start=%s,stop=%s,step=%s" % (a, b, c), (a, b, c))
                  for a in ("int", "None") for b in ("int", "None") for c in ("int", "None")]


def _replay_slice(md, vparam, model, st):
    a, b, c = vparam
    n = md.get("n", 0)
    if n < 0 or n > 64:
        return None
    start = md.get("start") if a == "int" else None
    stop = md.get("stop") if b == "int" else None
    step = md.get("step") if c == "int" else None
    script = """
import sys, io
import numpy as np
sys.path.insert(0, %r)
from bounded.tdmsbuild import simple_file
from nptdms import TdmsFile
n = %d; sl = slice(%r, %r, %r)
full = np.arange(n, dtype=np.int32)
data = simple_file([("/'g'/'c'", full)])
try:
    expected = full[sl]
except Exception as e:
    expected = type(e)
with TdmsFile.open(io.BytesIO(data)) as f:
    ch = f['g']['c']
    try:
        got = ch[sl]
    except Exception as e:
        got = type(e)
print("slice", sl, "n", n, "expected", expected, "got", got)
if isinstance(expected, type) or isinstance(got, type):
    ok = expected is got or (isinstance(expected, type) and isinstance(got, type) and issubclass(got, expected))
else:
    ok = got.dtype == expected.dtype and np.array_equal(got, expected)
sys.exit(0 if ok else 1)
""" % ("/verif", n, start, stop, step)
    return {"script": script, "function": "tdms.TdmsChannel._read_slice"}


@harness("read_slice", "tdms.TdmsChannel._read_slice", ["C04", "C14"], variants=SLICE_VARIANTS,
         setup=_setup_slice, replay=_replay_slice,
         note="variants = which of start/stop/step are None; all integers unbounded")
def _read_slice(vc):
    a, b, c = vc.variant
    n = vc.int("n", lo=0)
    ch = mk_channel(vc, n)
    start = _opt(vc, "start", a == "int")
    stop = _opt(vc, "stop", b == "int")
    step = _opt(vc, "step", c == "int")
    out = vc.call_method(ch, "_read_slice", start, stop, step)
    zero_step = (step == 0) if step is not None else False
    if out.kind == "exc":
        vc.ensure("raises-only-ValueError", out.exc is ValueError)
        vc.ensure("ValueError-only-for-step-0", zero_step)
        return
    vc.ensure("step-0-raises", Not(zero_step))
    s, e, stp = PS.adjust(start, stop, step, n)
    empty = PS.is_empty(s, e, stp)
    r = out.value
    if isinstance(r, Empty):
        vc.ensure("empty-result-iff-python-slice-empty", empty)
        vc.ensure("empty-result-has-declared-dtype", r.dtype is DT)
        return
    if isinstance(r, Window):
        # step 1
        vc.ensure("window/step-is-1", stp == 1)
        vc.ensure("window/same-elements", Or(And(empty, r.lo >= r.hi),
                                            And(Not(empty), r.lo == s, r.hi == e)))
        return
    if isinstance(r, Prog):
        vc.ensure("strided/same-step", r.step == stp)
        r_empty = PS.is_empty(r.first, r.bound, r.step)
        vc.ensure("strided/empty-iff", r_empty == empty)
        vc.ensure("strided/same-first-and-bound", Implies(Not(empty), And(r.first == s, r.bound == e)))
        vc.ensure("strided/within-channel", Implies(Not(r_empty), And(0 <= r.first, r.first < n)))
        return
    vc.unreachable("unexpected-result-kind")


# ---------------------------------------------------------------------------- _read_at_index

def _setup_index(interp):
    def chunk_for_index(interp, f, args, kwargs):
        st = sym.get_state()
        self, index = args[0], args[1]
        n = self._length
        st.check("call-pre/_read_channel_data_chunk_for_index/0<=index<n", And(index >= 0, index < n),
                 kind="call-pre")
        off = st.fresh_int("chunk_off")
        ln = st.fresh_int("chunk_len")
        # contract of reader.read_channel_chunk_for_index (harness chunk_for_index): the chunk returned
        # contains the index
        st.assume(And(off >= 0, off <= index, index < off + ln, off + ln <= n))
        st.ghost["reader_calls"] = st.ghost.get("reader_calls", 0) + 1
        return (Window(off, off + ln, "raw"), off)

    def scale_data(interp, f, args, kwargs):
        w = args[1]
        # elementwise (C13): same index set
        return Window(w.lo, w.hi, "values")
    interp.contracts_at_calls["nptdms.tdms:TdmsChannel._read_channel_data_chunk_for_index"] = chunk_for_index
    interp.contracts_at_calls["nptdms.tdms:TdmsChannel._scale_data"] = scale_data


def _replay_index(md, vparam, model, st):
    n = md.get("n", 0)
    if n < 0 or n > 64:
        return None
    script = """
import sys, io
import numpy as np
sys.path.insert(0, "/verif")
from bounded.tdmsbuild import simple_file
from nptdms import TdmsFile
n = %d; i = %d
full = np.arange(n, dtype=np.int32) * 3 + 1
data = simple_file([("/'g'/'c'", full)], chunks=2 if n %% 2 == 0 and n else 1)
try:
    expected = full[i]
except Exception as e:
    expected = type(e)
with TdmsFile.open(io.BytesIO(data)) as f:
    ch = f['g']['c']
    try:
        got = ch[i]
    except Exception as e:
        got = type(e)
print("index", i, "n", n, "expected", expected, "got", got)
ok = (expected is got) if isinstance(expected, type) or isinstance(got, type) else (got == expected)
sys.exit(0 if ok else 1)
""" % (n, md.get("index", 0))
    return {"script": script, "function": "tdms.TdmsChannel._read_at_index"}


@harness("read_at_index", "tdms.TdmsChannel._read_at_index", ["C04", "C19", "C05"],
         variants=[("no-cache", False), ("cached", True)], setup=_setup_index, replay=_replay_index)
def _read_at_index(vc):
    cached = vc.variant
    n = vc.int("n", lo=0)
    ch = mk_channel(vc, n)
    if cached:
        b0 = vc.int("b0", lo=0)
        b1 = vc.int("b1")
        vc.assume(And(b0 <= b1, b1 <= n))          # Channel.cache_inv()
        ch._cached_chunk = Window(b0, b1, "values")
        ch._cached_chunk_bounds = (b0, b1)
    index = vc.int("index")
    out = vc.call_method(ch, "_read_at_index", index)
    p, in_range = PS.index(index, n)
    if out.kind == "exc":
        vc.ensure("raises-only-IndexError", out.exc is IndexError)
        vc.ensure("IndexError-only-out-of-range", Not(in_range))
        return
    vc.ensure("out-of-range-raises", in_range)
    r = out.value
    vc.ensure("returns-one-element", isinstance(r, Elem))
    vc.ensure("element-is-full[index]", And(r.i == p, r.tag == "values"))
    calls = vc.st.ghost.get("reader_calls", 0)
    if cached and vc.interp.truth(And(b0 <= p, p < b1)):
        vc.ensure("cache-hit-reads-nothing", calls == 0)                     # C19
    else:
        vc.ensure("one-chunk-fetched", calls == 1)
    # cache invariant re-established (C05)
    cc, cb = ch._cached_chunk, ch._cached_chunk_bounds
    vc.ensure("cache-inv/bounds-match-chunk", And(isinstance(cc, Window), cb[0] == cc.lo, cb[1] == cc.hi))
    vc.ensure("cache-inv/holds-scaled-values", cc.tag == "values")
