"""channel_data.py: receivers and in-memory windows (C01 O12, C03, C04 (e), C12 (e), C14, C15)."""
import numpy as np
from pyvc.harness import harness
from pyvc.absarr import Window
from pyvc.npmodel import AbsArr, TsArr, Converted, FieldView
from pyvc import sym
from spec import layout as L
from spec import pyslice as PS
from spec.base import And, Or, Not, Implies, Ite, Min, Max


class Tok(object):
    def __init__(self, n):
        self.n = n

    def __repr__(self):
        return "<%s>" % self.n


def tclass(vc, code):
    return vc.interp.get("types.tds_data_types")[code]


GDR_VARIANTS = [("%s,raw_ts=%s,memmap=%s" % (k, r, m), (k, r, m))
                for k in ("none", "daqmx", "timestamp", "string", "int32", "complex128", "bool")
                for r in (False, True) for m in (False,)]


@harness("get_data_receiver", ["channel_data.get_data_receiver", "channel_data.NumpyDataReceiver.__init__",
                               "channel_data.ListDataReceiver.__init__", "channel_data.TimestampDataReceiver.__init__",
                               "channel_data.DaqmxDataReceiver.__init__", "channel_data._new_numpy_array"],
         ["C01", "C03", "C12", "C14", "C11"], variants=GDR_VARIANTS)
def _gdr(vc):
    kind, raw_ts, memmap = vc.variant
    n = vc.int("n", lo=0)
    codes = {"timestamp": 0x44, "string": 0x20, "int32": 3, "complex128": 0x10000D, "bool": 0x21,
             "daqmx": 0xFFFFFFFF}
    dt = None if kind == "none" else tclass(vc, codes[kind])
    sdt = {0: tclass(vc, 2), 3: tclass(vc, 10)} if kind == "daqmx" else None
    obj = vc.new("tdms.TdmsChannel", path="/'g'/'c'", data_type=dt, scaler_data_types=sdt, _length=n)
    obj._f["path"] = "/'g'/'c'"
    out = vc.call("channel_data.get_data_receiver", obj, n, raw_ts, None)
    vc.ensure("no-exception", out.kind == "ret")
    if out.kind != "ret":
        return
    r = out.value
    if kind == "none":
        vc.ensure("typeless-object-has-no-receiver", r is None)
        return
    cname = r._cls.name
    if kind == "daqmx":
        vc.ensure("daqmx-receiver", cname == "DaqmxDataReceiver" and r.data is None)
        vc.ensure("one-array-per-scaler", sorted(r.scaler_data.keys()) == [0, 3])
        for sid, code in ((0, 2), (3, 10)):
            a = r.scaler_data[sid]
            vc.ensure("scaler[%d]-capacity-and-dtype" % sid,
                      And(a.sym_len() == n, a.dtype_ == np.dtype(L.TYPES[code][2])))
        return
    if kind == "timestamp":
        vc.ensure("timestamp-receiver", cname == "TimestampDataReceiver")
        if raw_ts:
            vc.ensure("raw-timestamps-kept-as-(fractions,seconds)-records",
                      isinstance(r.data, TsArr) and r.data.names == ("second_fractions", "seconds"))
            vc.ensure("raw-capacity", r.data.sym_len() == n)
        else:
            vc.ensure("datetime64[us]-array", isinstance(r.data, AbsArr) and r.data.dtype_ == np.dtype("datetime64[us]"))
            vc.ensure("capacity", r.data.sym_len() == n)
        return
    if kind == "string":
        vc.ensure("list-receiver-with-object-dtype", cname == "ListDataReceiver" and r._dtype == np.dtype("O"))
        return
    vc.ensure("numpy-receiver", cname == "NumpyDataReceiver")
    vc.ensure("capacity-is-len(channel)", r.data.sym_len() == n)
    vc.ensure("dtype-is-the-type's", r.data.dtype_ == np.dtype(L.TYPES[codes[kind]][2]))
    vc.ensure("starts-all-zero", r.data.tag == ("zeros",))


APPEND_VARIANTS = [("chunks=%d" % k, k) for k in (1, 2, 3)]


@harness("numpy_receiver_append", "channel_data.NumpyDataReceiver.append_data", ["C01", "C03", "C04"],
         variants=APPEND_VARIANTS, level="shape-bounded", bound="<= 3 appended chunks of symbolic lengths")
def _append(vc):
    k = vc.variant
    n = vc.int("capacity", lo=0)
    arr = AbsArr(n, "int32", ("zeros",))
    r = vc.new("channel_data.NumpyDataReceiver", path="p", data=arr, scaler_data={}, _data_insert_position=0)
    lens = [vc.int("len%d" % i, lo=0) for i in range(k)]
    total = sum(lens)
    vc.assume(total <= n)                      # capacity = len(channel) = sum of the chunk lengths (C01 O9)
    cur = 0
    for i in range(k):
        src = Window(cur, cur + lens[i], "chunk%d" % i)
        out = vc.call_method(r, "append_data", src)
        vc.ensure("append[%d]/accepted" % i, out.kind == "ret")
        cur = cur + lens[i]
    pos = 0
    vc.ensure("one-store-per-chunk", len(arr.writes) == k)
    for i, (lo, hi, src, field) in enumerate(arr.writes[:k]):
        vc.ensure("chunk[%d]-stored-right-after-the-previous-one" % i, And(lo == pos, hi == pos + lens[i]))
        vc.ensure("chunk[%d]-stored-whole" % i, src.tag == "chunk%d" % i)
        pos = pos + lens[i]
    vc.ensure("insert-position-is-values-so-far", r._data_insert_position == total)


TS_VARIANTS = [("raw=%s,%s" % (r, o), (r, o)) for r in (False, True) for o in ("<", ">")]


@harness("timestamp_receiver_append", "channel_data.TimestampDataReceiver.append_data", ["C12", "C15", "C03"],
         variants=TS_VARIANTS, level="shape-bounded", bound="2 appended chunks of symbolic lengths")
def _ts_append(vc):
    raw, order = vc.variant
    n = vc.int("capacity", lo=0)
    if raw:
        base = AbsArr(n, np.dtype([("second_fractions", "uint64"), ("seconds", "int64")]), ("zeros",))
        data = TsArr(base, ("second_fractions", "seconds"))
    else:
        base = AbsArr(n, "datetime64[us]", ("zeros",))
        data = base
    r = vc.new("channel_data.TimestampDataReceiver", path="p", data=data, scaler_data={},
               _data_insert_position=0, _raw_timestamps=raw)
    names = ("second_fractions", "seconds") if order == "<" else ("seconds", "second_fractions")
    lens = [vc.int("len%d" % i, lo=0) for i in range(2)]
    vc.assume(lens[0] + lens[1] <= n)
    srcs = []
    for i in range(2):
        src = TsArr(AbsArr(lens[i], np.dtype([(names[0], order + ("u8" if names[0] == "second_fractions" else "i8")),
                                              (names[1], order + ("u8" if names[1] == "second_fractions" else "i8"))]),
                           ("chunk", i)), names)
        srcs.append(src)
        out = vc.call_method(r, "append_data", src)
        vc.ensure("append[%d]/accepted" % i, out.kind == "ret")
    pos = 0
    if raw:
        vc.ensure("two-field-stores-per-chunk", len(base.writes) == 4)
        for i in range(2):
            ws = base.writes[2 * i:2 * i + 2]
            fields = sorted(w[3] for w in ws)
            vc.ensure("chunk[%d]/copied-field-by-field(seconds,second_fractions)" % i,
                      fields == ["second_fractions", "seconds"])
            for (lo, hi, src, field) in ws:
                vc.ensure("chunk[%d]/%s-to-%s-of-the-same-rows" % (i, field, field),
                          And(lo == pos, hi == pos + lens[i], isinstance(src, FieldView), src.field == field,
                              src.arr is srcs[i]))
            pos = pos + lens[i]
    else:
        vc.ensure("one-store-per-chunk", len(base.writes) == 2)
        for i, (lo, hi, src, field) in enumerate(base.writes[:2]):
            vc.ensure("chunk[%d]/stored-in-order" % i, And(lo == pos, hi == pos + lens[i]))
            vc.ensure("chunk[%d]/converted-with-as_datetime64(us)" % i,
                      isinstance(src, Converted) and src.src is srcs[i] and src.resolution == "us")
            pos = pos + lens[i]


SRD_VARIANTS = [("length=%s" % l, l) for l in ("None", "int")]


@harness("slice_raw_data", "channel_data.slice_raw_data", ["C04", "C03", "C11"], variants=SRD_VARIANTS)
def _slice_raw_data(vc):
    n = vc.int("n", lo=0)
    offset = vc.int("offset", lo=0)
    length = vc.int("length", lo=0) if vc.variant == "int" else None
    raw = vc.new("channel_data.NumpyDataReceiver", path="p", data=Window(0, n, "values"),
                 scaler_data={5: Window(0, n, "scaler5")}, _data_insert_position=n)
    out = vc.call("channel_data.slice_raw_data", raw, offset, length)
    vc.ensure("no-exception", out.kind == "ret")
    if out.kind != "ret":
        return
    lo, hi = PS.window(offset, length, n)
    d = out.value.data
    vc.ensure("data-is-full[offset:offset+length]", Or(And(d.lo == lo, d.hi == hi), And(d.lo >= d.hi, lo >= hi)))
    s = out.value.scaler_data[5]
    vc.ensure("every-scaler-array-sliced-alike", Or(And(s.lo == lo, s.hi == hi), And(s.lo >= s.hi, lo >= hi)))
    vc.ensure("source-not-modified", And(raw.data.lo == 0, raw.data.hi == n))
