"""Contracts for the integer kernels of tdms_segment / reader (C01, C04, C06)."""
from pyvc.harness import harness
from pyvc.sym import sym_and, sym_or, sym_not, sym_implies, sym_ite


def mk_segment(vc, prefix="seg", **over):
    f = dict(
        position=vc.int(prefix + "_position"),
        toc_mask=vc.int(prefix + "_toc"),
        next_segment_pos=vc.int(prefix + "_next"),
        data_position=vc.int(prefix + "_data"),
        num_chunks=0,
        final_chunk_lengths_override=None,
        ordered_objects=None,
        object_index=None,
        segment_incomplete=vc.bool(prefix + "_incomplete"),
        has_daqmx_objects_cached=None,
        chunk_size_cached=None,
        data_objects_cached=None)
    f.update(over)
    return vc.new("tdms_segment.TdmsSegment", **f)


class Token(object):
    def __init__(self, name):
        self.name = name

    def __repr__(self):
        return "<%s>" % self.name


def _setup_calc(interp):
    def get_chunk_size(interp, f, args, kwargs):
        return args[0]._f["__cs"]

    def final_lengths(interp, f, args, kwargs):
        import pyvc.sym as S
        st = S.get_state()
        (self, cs, rem) = args
        st.check("call-pre/_compute_final_chunk_lengths/0<rem<cs", sym_and(0 < rem, rem < cs), kind="call-pre")
        self._f["__fcl_args"] = (cs, rem)
        return FCL

    interp.contracts_at_calls["nptdms.tdms_segment:TdmsSegment._get_chunk_size"] = get_chunk_size
    interp.contracts_at_calls["nptdms.tdms_segment:TdmsSegment._compute_final_chunk_lengths"] = final_lengths


FCL = Token("final_chunk_lengths")


@harness("calculate_chunks", "tdms_segment.TdmsSegment._calculate_chunks", ["C01", "C06"], setup=_setup_calc)
def _calculate_chunks(vc):
    seg = mk_segment(vc)
    cs = vc.int("cs")
    seg._f["__cs"] = cs
    total = seg.next_segment_pos - seg.data_position
    out = vc.call_method(seg, "_calculate_chunks")
    bad = sym_or(cs < 0, total < 0, sym_and(cs == 0, total != 0))
    if out.kind == "exc":
        vc.ensure("raises-only-ValueError", out.exc is ValueError)
        vc.ensure("ValueError-only-if-negative-or-zero-size-with-data", bad)
        return
    vc.ensure("no-error-implies-valid", sym_not(bad))
    n = seg.num_chunks
    ov = seg.final_chunk_lengths_override
    if vc.interp.truth(cs == 0):
        vc.ensure("zero-chunk-size-zero-chunks", sym_and(n == 0, ov is None))
        return
    if vc.interp.truth(total % cs == 0):
        vc.ensure("whole-chunks", sym_and(n * cs == total, ov is None))
    else:
        vc.ensure("partial-final-chunk-count", sym_and((n - 1) * cs < total, total < n * cs))
        vc.ensure("override-from-final-lengths", ov is FCL)
        (a_cs, a_rem) = seg._f["__fcl_args"]
        vc.ensure("override-args", sym_and(a_cs == cs, a_rem == total - (n - 1) * cs))
