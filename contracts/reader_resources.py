"""reader.TdmsReader: ownership of file handles and guards after close (C20, C09)."""
import os
from pyvc.harness import harness
from pyvc.models import SFile, SBytes
from pyvc.interp import Obj, ProgExc
from pyvc import sym
from spec.base import And, Or, Not, Implies, Ite
from contracts.reader_leadin import mk_reader


def install_open(interp, st, isfile_answers=None, fail_open=None):
    """model of builtins.open / os.path.isfile: every open() creates an owned handle logged in ghost"""
    opened = st.ghost.setdefault("opened", [])

    def m_open(interp_, path, mode="r", *a, **k):
        if fail_open is not None and len(opened) == fail_open:
            raise ProgExc(OSError, "open")
        f = SFile("h%d" % len(opened))
        f.owned = True
        f.path = path
        f.mode = mode
        opened.append(f)
        return f

    def m_isfile(interp_, path):
        st.ghost.setdefault("isfile_queries", []).append(path)
        return bool(isfile_answers)
    interp.models[open] = m_open
    interp.models[os.path.isfile] = m_isfile


INIT_VARIANTS = [("stream-TDSm", ("stream", b"TDSm")), ("stream-TDSh", ("stream", b"TDSh")),
                 ("stream-other", ("stream", None)),
                 ("path-data-with-index", ("path", "a.tdms", True)), ("path-data-no-index", ("path", "a.tdms", False)),
                 ("path-index", ("path", "a.tdms_index", False))]


@harness("reader_init", ["reader.TdmsReader.__init__", "reader._get_file_size"], ["C20", "C09"],
         variants=INIT_VARIANTS)
def _reader_init(vc):
    st = vc.st
    v = vc.variant
    cls = vc.interp.get("reader.TdmsReader")
    if v[0] == "stream":
        f = SFile("s")
        f.pos = 0
        vc.assume(f.size >= 4)
        tag = SBytes(f.content, 0, 4)
        if v[1] is not None:
            vc.assume(tag.eq_concrete(v[1]))
        else:
            vc.assume(Not(tag.eq_concrete(b"TDSm")))
            vc.assume(Not(tag.eq_concrete(b"TDSh")))
        install_open(vc.interp, st)
        out = vc.call(cls, f)
        if v[1] is None:
            vc.ensure("unknown-tag-rejected", out.raised(ValueError))
            vc.ensure("c20/caller-stream-not-closed", not f.closed, kind="resource")
            return
        vc.ensure("no-exception", out.kind == "ret")
        rd = out.value
        vc.ensure("stream-rewound", f.pos == 0)
        vc.ensure("c20/borrowed: no path recorded", rd._file_path is None and rd._index_file_path is None,
                  kind="resource")
        vc.ensure("c20/nothing-opened", len(st.ghost["opened"]) == 0, kind="resource")
        if v[1] == b"TDSm":
            vc.ensure("data-stream-recognised", rd._file is f and rd._index_file is None)
            vc.ensure("data-file-size-measured", rd._data_file_size == f.size)
        else:
            vc.ensure("index-stream-recognised", rd._index_file is f and rd._file is None)
            vc.ensure("c09/index-only: no data file size", rd._data_file_size is None)
        return
    (_, path, has_index) = v
    install_open(vc.interp, st, isfile_answers=has_index)
    out = vc.call(cls, path)
    vc.ensure("no-exception", out.kind == "ret")
    rd = out.value
    opened = st.ghost["opened"]
    if path.endswith(".tdms_index"):
        vc.ensure("c09/index-only-open", rd._file is None and rd._index_file is opened[0] and len(opened) == 1)
        vc.ensure("c20/owned-index-recorded", rd._index_file_path == path and rd._file_path is None,
                  kind="resource")
        vc.ensure("binary-mode", opened[0].mode == "rb")
        return
    vc.ensure("data-file-opened", rd._file is opened[0] and opened[0].path == path and opened[0].mode == "rb")
    vc.ensure("c20/owned-data-file-recorded", rd._file_path == path, kind="resource")
    vc.ensure("c09/index-looked-up-beside-the-data-file", st.ghost["isfile_queries"] == [path + "_index"])
    if has_index:
        vc.ensure("c09/index-opened", len(opened) == 2 and rd._index_file is opened[1]
                  and opened[1].path == path + "_index")
        vc.ensure("c20/owned-index-recorded", rd._index_file_path == path + "_index", kind="resource")
    else:
        vc.ensure("c09/no-index-used", len(opened) == 1 and rd._index_file is None and rd._index_file_path is None)
    vc.ensure("data-file-size-measured", rd._data_file_size == opened[0].size)
    vc.ensure("cursor-restored-after-measuring", opened[0].pos == 0)


CLOSE_VARIANTS = [("%s,%s,%s" % (d, i, o), (d, i, o)) for d in ("data", "nodata") for i in ("index", "noindex")
                  for o in ("owned", "borrowed")]


@harness("reader_close", ["reader.TdmsReader.close", "reader.TdmsReader._ensure_open"], ["C20"],
         variants=CLOSE_VARIANTS)
def _reader_close(vc):
    d, i, o = vc.variant
    data = SFile("data") if d == "data" else None
    index = SFile("index") if i == "index" else None
    rd = mk_reader(vc, 10)
    rd._file, rd._index_file = data, index
    if o == "owned":
        rd._file_path = "a.tdms" if data else None
        rd._index_file_path = "a.tdms_index" if index else None
    out = vc.call_method(rd, "close")
    vc.ensure("no-exception", out.kind == "ret")
    for f, nm in ((data, "data"), (index, "index")):
        if f is not None:
            vc.ensure("c20/%s-closed-iff-opened-by-the-library" % nm, f.closed == (o == "owned"), kind="resource")
    vc.ensure("references-released", rd._file is None and rd._index_file is None)
    out2 = vc.call_method(rd, "close")
    vc.ensure("c20/close-is-idempotent", out2.kind == "ret" and rd._file is None and rd._index_file is None,
              kind="resource")
    out3 = vc.call_method(rd, "_ensure_open")
    vc.ensure("c20/reads-after-close-raise", out3.raised(RuntimeError), kind="resource")


@harness("reader_guards", ["reader.TdmsReader.read_raw_data", "reader.TdmsReader.read_raw_data_for_channel",
                           "reader.TdmsReader.read_channel_chunk_for_index", "reader.TdmsReader.is_index_file_only"],
         ["C20", "C09"], variants=[("closed", "closed"), ("no-metadata", "nometa")])
def _reader_guards(vc):
    rd = mk_reader(vc, 10)
    if vc.variant == "closed":
        rd._segments = []
    else:
        rd._file = SFile("data")
    for name, args in (("read_raw_data", []), ("read_raw_data_for_channel", ["/'g'/'c'"]),
                       ("read_channel_chunk_for_index", ["/'g'/'c'", 0])):
        out = vc.call_method(rd, name, *args)
        if out.kind == "ret" and hasattr(out.value, "__next__"):
            out = vc.drain(out.value)
        vc.ensure("%s-raises-RuntimeError" % name, out.raised(RuntimeError), kind="resource")
    r = vc.call_method(rd, "is_index_file_only")
    vc.ensure("not-index-only", r.kind == "ret" and r.value is False)


@harness("verify_segment_start", "reader.TdmsReader._verify_segment_start", ["C09", "C19", "C05"],
         variants=[("data-file", True), ("index-only", False)])
def _verify(vc):
    rd = mk_reader(vc, 10)
    seg = vc.new("tdms_segment.TdmsSegment", position=vc.int("position", lo=0))
    if not vc.variant:
        rd._index_file = SFile("index")
        out = vc.call_method(rd, "_verify_segment_start", seg)
        vc.ensure("c09/index-only-data-read-is-an-error", out.kind == "exc")
        return
    f = SFile("data")
    f.pos = vc.int("pos0", lo=0)             # C05: whatever the cursor was
    vc.assume(f.size >= 0)
    rd._file = f
    out = vc.call_method(rd, "_verify_segment_start", seg)
    tag_ok = And(f.size - seg.position >= 4, SBytes(f.content, seg.position, 4).eq_concrete(b"TDSm"))
    if out.kind == "exc":
        vc.ensure("raises-only-ValueError", out.exc is ValueError)
        vc.ensure("ValueError-only-if-no-tag-at-segment-start", Not(tag_ok))
        return
    vc.ensure("tag-present", tag_ok)
    vc.ensure("c19/reads-exactly-the-4-tag-bytes", len(f.reads) == 1 and
              vc.interp.truth(And(f.reads[0][0] == seg.position, f.reads[0][1] == 4)), kind="read-set")
