"""tdms_segment: raw data index, property parse, typed reads (C01 O2/O3/O13, C15)."""
import numpy as np
from pyvc.harness import harness
from pyvc.models import SFile, SBytes, SymStr, FloatBits
from pyvc import sym
from pyvc.sym import sym_and, sym_or, sym_not
from spec import layout as L
from spec.base import And, Or, Not, Implies, Ite, Min, Max, uint, sint

ORDERS = [("little", "<"), ("big", ">")]


def mk_file(vc, name="f", min_avail=None):
    f = SFile(name)
    pos0 = vc.int("pos0", lo=0)
    f.pos = pos0
    vc.assume(f.size >= 0)
    if min_avail is not None:
        vc.assume(f.size - pos0 >= min_avail)
    return f, pos0


@harness("read_raw_data_index", "tdms_segment.TdmsSegmentObject.read_raw_data_index", ["C01", "C15"],
         variants=ORDERS, note="file bytes, position and header fully symbolic; one path per type code")
def _read_raw_data_index(vc):
    order = vc.variant
    big = order == ">"
    f, pos0 = mk_file(vc, min_avail=24)          # well-formed: the index structure is present
    obj = vc.new("tdms_segment.TdmsSegmentObject", path="p", number_values=0, data_size=0, has_data=True,
                 data_type=None)
    header = vc.int("header", lo=0)
    b = SBytes(f.content, pos0, 24)
    code = uint(b, 0, 4, big)
    dim = uint(b, 4, 4, big)
    nv = uint(b, 8, 8, big)
    total = uint(b, 16, 8, big)
    out = vc.call_method(obj, "read_raw_data_index", f, header, order)
    known_codes = sorted(L.TYPES)
    is_known = Or(*[code == c for c in known_codes])
    if out.kind == "exc":
        if out.exc is KeyError:
            vc.ensure("KeyError-only-for-unknown-type-code", Not(is_known))
            return
        vc.ensure("raises-only-ValueError-or-KeyError", out.exc is ValueError)
        unsupported = Or(*[code == c for c in known_codes if L.TYPES[c][1] is None and c != 0x20])
        vc.ensure("ValueError-only-for-unsized-type-or-dimension", Or(unsupported, dim != 1))
        return
    vc.ensure("type-code-known", is_known)
    vc.ensure("dimension-is-1", dim == 1)
    for c in known_codes:
        if vc.interp.truth(code == c):
            name, width, npname = L.TYPES[c]
            dt = obj.data_type
            vc.ensure("type/class-has-the-code[%s]" % name, dt.enum_value == c)
            vc.ensure("type/width-matches-layout[%s]" % name, dt.size == width)
            vc.ensure("type/supported[%s]" % name, width is not None or c == 0x20)
            if npname is not None:
                vc.ensure("type/numpy-dtype[%s]" % name, dt.nptype == np.dtype(npname))
                vc.ensure("type/itemsize-is-width[%s]" % name, dt.nptype.itemsize == width)
            vc.ensure("number-of-values-in-segment-order", obj.number_values == nv)
            if c == 0x20:
                vc.ensure("string/data-size-is-declared-total-in-segment-order", obj.data_size == total)
                vc.ensure("string/cursor-after-24-bytes", f.pos == pos0 + 24)
            else:
                vc.ensure("data-size-is-count-times-width", obj.data_size == nv * width)
                vc.ensure("cursor-after-16-bytes", f.pos == pos0 + 16)
            return
    vc.unreachable("type-code-case-analysis-complete")


# ---------------------------------------------------------------------------- properties

# property value types: every sized scalar type and strings; complex values have no scalar codec in TDMS
# property practice (TdmsType.read raises NotImplementedError) and are outside the statement
PROP_TYPES = [c for c in sorted(L.TYPES) if (L.TYPES[c][1] is not None or c == 0x20)
              and c not in (0x08000C, 0x10000D)]


@harness("read_property", ["tdms_segment.read_property", "types.String.read", "types.StructType.read",
                           "types.Boolean.read", "types.TimeStamp.read"], ["C01", "C15", "C12"],
         variants=ORDERS, note="name and value strings of symbolic length; one path per property type")
def _read_property(vc):
    order = vc.variant
    big = order == ">"
    f, pos0 = mk_file(vc)
    nlen = vc.int("name_len", lo=0)
    # well-formed: name, type code and value are present
    name_len_f = uint(SBytes(f.content, pos0, 4), 0, 4, big)
    vc.assume(name_len_f == nlen)
    tpos = pos0 + 4 + nlen
    code = uint(SBytes(f.content, tpos, 4), 0, 4, big)
    vpos = tpos + 4
    vc.assume(f.size - pos0 >= 4 + nlen + 4 + 16 + 4)
    out = vc.call("tdms_segment.read_property", f, order)
    if out.kind == "exc":
        known = Or(*[code == c for c in sorted(L.TYPES)])
        readable = Or(*[code == c for c in PROP_TYPES])
        vc.ensure("raises-only-for-unknown-or-unreadable-type", Not(readable))
        return
    (name, value) = out.value
    vc.ensure("name-is-the-text-at-the-cursor", And(isinstance(name, SymStr), name.src.off == pos0 + 4,
                                                   name.src.length == nlen))
    for c in PROP_TYPES:
        if vc.interp.truth(code == c):
            tname, width, npname = L.TYPES[c]
            vb = SBytes(f.content, vpos, 16)
            if c == 0x20:
                sl = uint(SBytes(f.content, vpos, 4), 0, 4, big)
                if vc.interp.truth(vpos + 4 + sl <= f.size):
                    vc.ensure("string-value-at-cursor", And(isinstance(value, SymStr), value.src.off == vpos + 4,
                                                            value.src.length == sl))
                    vc.ensure("cursor-after-string", f.pos == vpos + 4 + sl)
                return
            if c == 0x44:
                # timestamp: little-endian (fractions u64, seconds i64); big-endian (seconds i64, fractions u64)
                if big:
                    secs, fr = sint(vb, 0, 8, True), uint(vb, 8, 8, True)
                else:
                    fr, secs = uint(vb, 0, 8, False), sint(vb, 8, 8, False)
                vc.ensure("timestamp/seconds", value.seconds == secs)
                vc.ensure("timestamp/second_fractions", value.second_fractions == fr)
                vc.ensure("cursor-after-16", f.pos == vpos + 16)
                return
            if c == 0x21:
                raw = sint(vb, 0, 1, big)
                vc.ensure("boolean-is-nonzero-byte", value == (raw != 0))
                vc.ensure("cursor", f.pos == vpos + 1)
                return
            if npname in ("float32", "float64"):
                vc.ensure("float-bits-in-segment-order",
                          And(isinstance(value, FloatBits), value.bits == uint(vb, 0, width, big)))
                vc.ensure("cursor", f.pos == vpos + width)
                return
            signed = npname.startswith("int")
            exp = sint(vb, 0, width, big) if signed else uint(vb, 0, width, big)
            vc.ensure("integer-value-in-segment-order[%s]" % tname, value == exp)
            vc.ensure("cursor", f.pos == vpos + width)
            return
    vc.unreachable("type-code-case-analysis-complete")
