"""types.TimeStamp / timestamp.py / TdmsChannel.time_track (C12, C07)."""
import numpy as np
import z3
from pyvc.harness import harness
from pyvc.models import WBytes
from pyvc.timemodel import DT64, TD64
from pyvc import sym
from pyvc.sym import _lift, SymReal
from spec.base import And, Or, Not, Implies, Ite

EPOCH_US = int(np.datetime64("1904-01-01T00:00:00", "us").astype("int64"))


def _replay_encode(md, vparam, model, st):
    """the counter-model's instant, encoded by the real TimeStamp and checked with exact integers"""
    t = md.get("t_us")
    if t is None or abs(t) > 2 ** 60:
        return None
    script = """
import sys, struct
import numpy as np
from nptdms.types import TimeStamp
t_us, unit = %r, %r
k = {"us": 1, "ns": 1, "ms": 10**3, "s": 10**6}[unit]
v = np.datetime64(t_us * 1000, "ns") if unit == "ns" else np.datetime64(t_us // k, unit)
(f, s) = struct.unpack("<Qq", TimeStamp(v).bytes)
total = t_us - int(np.datetime64("1904-01-01T00:00:00", "us").astype("int64"))
us = total - s * 10**6
ok = (0 <= us < 10**6 and us * 2**64 <= f * 10**6 < (us + 1) * 2**64
      and f * 10**6 - us * 2**64 >= (2**23) * 10**6)
print("value", v, "seconds", s, "fractions", f, "microsecond part", us, "ok" if ok else "VIOLATES the encoding contract")
# and through the library's own decoder
from nptdms.timestamp import TdmsTimestamp
back = TdmsTimestamp(s, f).as_datetime64("us")
print("decoded", back)
sys.exit(0 if ok and back == np.datetime64(t_us, "us") else 1)
""" % (t, vparam)
    return {"script": script, "function": "types.TimeStamp.__init__"}


@harness("timestamp_encode", "types.TimeStamp.__init__", ["C12", "C07"], replay=_replay_encode,
         variants=[("datetime64[%s]" % u, u) for u in ("us", "ms", "s", "ns")],
         note="all microsecond-resolution datetimes (symbolic count, also before 1904) given as datetime64 of unit "
              "us, ms, s, or ns (a whole number of microseconds): integer obligations")
def _encode(vc):
    unit = vc.variant
    t = vc.int("t_us", lo=-2 ** 50, hi=2 ** 50)           # microseconds since 1970 (A-INT: no int64 overflow)
    if unit == "us":
        v = DT64(t, "us")
    elif unit == "ns":
        v = DT64(t * 1000, "ns")
    else:
        k = {"ms": 10 ** 3, "s": 10 ** 6}[unit]
        c = vc.int("count_" + unit, lo=-2 ** 40, hi=2 ** 40)
        vc.assume(t == c * k)
        v = DT64(c, unit)
    cls = vc.interp.get("types.TimeStamp")
    out = vc.call(cls, v)
    vc.ensure("no-exception", out.kind == "ret")
    if out.kind != "ret":
        return
    ts = out.value
    b = ts.bytes
    vc.ensure("16-bytes: fractions-u64-then-seconds-i64-little-endian",
              isinstance(b, WBytes) and [p[:2] + (p[3],) for p in b.parts] == [('u', 8, False), ('u', 8, False)])
    f, s = b.parts[0][2], b.parts[1][2]
    total = t - EPOCH_US
    vc.ensure("seconds-and-microseconds-are-the-floor-decomposition-of-the-time-since-1904",
              And(s * 10 ** 6 <= total, total < (s + 1) * 10 ** 6))
    us = total - s * 10 ** 6
    vc.ensure("fractions-fit-u64", And(f >= 0, f < 2 ** 64))
    # exact rational meaning of (s, f): s + f / 2**64 seconds.  It lies in [t, t + 1us): conversion to
    # microseconds by exact floor gives back the value written
    vc.ensure("exact-time-is-within-the-microsecond-written", And(us * 2 ** 64 <= f * 10 ** 6,
                                                                  f * 10 ** 6 < (us + 1) * 2 ** 64))
    vc.ensure("exact-time-is-within-the-nanosecond-written", And(us * 1000 * 2 ** 64 <= f * 10 ** 9,
                                                                 f * 10 ** 9 < (us * 1000 + 1) * 2 ** 64))
    # guard for truncating floating-point conversions: at least 2**23 fraction units above the boundary
    vc.ensure("guard-above-the-microsecond-boundary", f * 10 ** 6 - us * 2 ** 64 >= (2 ** 23) * 10 ** 6)
    vc.ensure("value-kept", ts.value is v)


@harness("timestamp_encode_python_datetime", "types.TimeStamp.__init__", ["C12", "C07"],
         note="concrete spot values through the np.datetime64(value, 'us') conversion branch")
def _encode_dt(vc):
    from datetime import datetime
    cls = vc.interp.get("types.TimeStamp")
    for d in (datetime(2020, 1, 2, 3, 4, 5, 517325), datetime(1850, 6, 7, 8, 9, 10, 1), datetime(1904, 1, 1)):
        out = vc.call(cls, d)
        vc.ensure("no-exception", out.kind == "ret")
        (f, s) = __import__("struct").unpack("<Qq", out.value.bytes)
        exp_total = int((np.datetime64(d, "us") - np.datetime64("1904-01-01", "us")).astype("int64"))
        vc.ensure("decomposition[%s]" % d.isoformat(), s == exp_total // 10 ** 6 and
                  (f * 10 ** 6) >> 64 == exp_total % 10 ** 6)


RES = ["s", "ms", "us", "ns"]


def _decode_post(vc, res, seconds, f, result, tag):
    """C12 (c) over the reals: the conversion is trunc(f / K) steps after the whole seconds, K the constant
    of the source; it is within one step of the exact rational time and monotone"""
    steps = 10 ** {"s": 0, "ms": 3, "us": 6, "ns": 9}[res]
    vc.ensure(tag + "unit", result.unit == res)
    epoch = int(np.datetime64("1904-01-01T00:00:00", res).astype("int64"))
    r = result.value - epoch - seconds * steps              # steps after the whole seconds
    # exact: f * steps / 2**64 ; compare in integers scaled by 2**64 with slack 2**-30 step
    vc.ensure(tag + "within-one-step-below-the-exact-time", (r - 1) * 2 ** 64 <= f * steps + 2 ** 34)
    vc.ensure(tag + "not-above-the-exact-time(up-to-2**-30-step)", r * 2 ** 64 <= f * steps + 2 ** 34)
    vc.ensure(tag + "sub-second-part-in-range", And(r >= 0, r <= steps))
    return r


@harness("timestamp_decode", ["timestamp.TdmsTimestamp.as_datetime64"], ["C12"],
         variants=[(r, r) for r in RES],
         note="floating point modelled as real arithmetic (A-REAL) with the exact value of the double constant "
              "_fractions_per_step[res]; IEEE rounding of the one division is decided by the bounded stand-in")
def _decode(vc):
    res = vc.variant
    vc.st.real_floats = True
    s = vc.int("seconds", lo=-2 ** 40, hi=2 ** 40)
    f = vc.int("fractions", lo=0, hi=2 ** 64 - 1)
    ts = vc.interp.instantiate(vc.interp.get("timestamp.TdmsTimestamp"), [s, f], {})
    out = vc.call_method(ts, "as_datetime64", res)
    vc.ensure("no-exception", out.kind == "ret")
    if out.kind != "ret":
        return
    r1 = _decode_post(vc, res, s, f, out.value, "")
    # monotone in the fractions (same seconds)
    f2 = vc.int("fractions2", lo=0, hi=2 ** 64 - 1)
    vc.assume(f2 >= f)
    ts2 = vc.interp.instantiate(vc.interp.get("timestamp.TdmsTimestamp"), [s, f2], {})
    out2 = vc.call_method(ts2, "as_datetime64", res)
    vc.ensure("monotone-in-the-fractions", out2.value.value >= out.value.value)


@harness("timestamp_decode_bad_resolution", ["timestamp.TdmsTimestamp.as_datetime64"], ["C12"])
def _decode_bad(vc):
    ts = vc.interp.instantiate(vc.interp.get("timestamp.TdmsTimestamp"), [1, 2], {})
    out = vc.call_method(ts, "as_datetime64", "h")
    vc.ensure("unsupported-resolution-is-a-ValueError", out.raised(ValueError))


class ElemTs(object):
    """elementwise abstraction of a TimestampArray: indexing by field name gives the field of one
    arbitrary element (every NumPy operation used by as_datetime64 is elementwise)"""

    def __init__(self, seconds, fractions):
        self.f = {"seconds": seconds, "second_fractions": fractions}


@harness("timestamp_array_agrees_with_scalar", ["timestamp.TimestampArray.as_datetime64",
                                                "timestamp.TdmsTimestamp.as_datetime64"], ["C12"],
         variants=[(r, r) for r in RES],
         note="the array conversion is executed on one arbitrary element (elementwise abstraction); its "
              "symbolic result term is compared with the scalar conversion's")
def _array_vs_scalar(vc):
    res = vc.variant
    vc.st.real_floats = True
    s = vc.int("seconds", lo=-2 ** 40, hi=2 ** 40)
    f = vc.int("fractions", lo=0, hi=2 ** 64 - 1)
    vc.interp.models[("getitem", ElemTs)] = lambda interp, a, k: a.f[k]
    arr_fn = vc.interp.get("timestamp.TimestampArray").ns["as_datetime64"]
    out_a = vc.call(arr_fn, ElemTs(s, f), res)
    ts = vc.interp.instantiate(vc.interp.get("timestamp.TdmsTimestamp"), [s, f], {})
    out_s = vc.call_method(ts, "as_datetime64", res)
    vc.ensure("no-exception", out_a.kind == "ret" and out_s.kind == "ret")
    if out_a.kind == "ret" and out_s.kind == "ret":
        vc.ensure("same-unit", out_a.value.unit == out_s.value.unit)
        vc.ensure("same-value", out_a.value.value == out_s.value.value)


TT_VARIANTS = [("relative", (False, None)), ("absolute-ns", (True, "ns")), ("absolute-us", (True, "us")),
               ("absolute-raw-start", (True, "raw")), ("missing-properties", ("missing", None)),
               ("bad-accuracy", (True, "h"))]


@harness("time_track", "tdms.TdmsChannel.time_track", ["C12"], variants=TT_VARIANTS,
         note="offset, increment: arbitrary reals (A-REAL); channel length: any n >= 0; element i of the result "
              "is characterised for an arbitrary index i")
def _time_track(vc):
    from collections import OrderedDict
    from pyvc.npmodel import ElemArr
    from contracts.tdms_index import mk_channel
    absolute, acc = vc.variant
    st = vc.st
    st.real_floats = True
    n = vc.int("n", lo=0)
    off = vc.real("offset")
    inc = vc.real("increment")
    props = OrderedDict([("wf_increment", inc), ("wf_start_offset", off)])
    t0 = vc.int("t0_us", lo=-2 ** 60, hi=2 ** 60)
    if absolute == "missing":
        ch = mk_channel(vc, n, properties=OrderedDict([("wf_increment", inc)]))
        out = vc.call_method(ch, "time_track")
        vc.ensure("missing-waveform-properties-is-a-KeyError", out.raised(KeyError))
        return
    if absolute:
        if acc == "raw":
            s0 = vc.int("s0", lo=-2 ** 40, hi=2 ** 40)
            f0 = vc.int("f0", lo=0, hi=2 ** 64 - 1)
            props["wf_start_time"] = vc.interp.instantiate(vc.interp.get("timestamp.TdmsTimestamp"), [s0, f0], {})
        else:
            props["wf_start_time"] = DT64(t0, "us")
    ch = mk_channel(vc, n, properties=props)
    accuracy = "ns" if acc in (None, "raw") else acc
    out = vc.call_method(ch, "time_track", bool(absolute), accuracy)
    if acc == "h":
        vc.ensure("invalid-accuracy-is-a-KeyError", out.raised(KeyError))
        return
    vc.ensure("no-exception", out.kind == "ret")
    if out.kind != "ret":
        return
    r = out.value
    vc.ensure("one-point-per-value", r.sym_len() == n)
    i = vc.int("i", lo=0)
    vc.assume(i < n)
    e = r.fn(i)
    exact = off + SymReal(z3.ToReal(sym.z3int(i))) * inc
    if not absolute:
        vc.ensure("point-i-is-start_offset+i*increment", e == exact)
        return
    steps = {"ns": 10 ** 9, "us": 10 ** 6}[accuracy]
    vc.ensure("absolute/unit-is-the-requested-accuracy", e.unit == accuracy)
    if acc == "raw":
        return
    start = t0 * (steps // 10 ** 6)
    d = e.value - start
    # d = trunc(exact * steps): within one step of exact*steps, toward zero
    x = exact * steps
    vc.ensure("absolute/offset-is-the-relative-time-truncated-to-the-accuracy",
              Or(And(x >= 0, d <= x, x < d + 1), And(x < 0, d >= x, x > d - 1)))
