"""tdms.TdmsChannel access paths: every way of obtaining the data is the same window of the same values
(C03), allocation of windows (C04 (b)), chunk streams and offsets (C03, C05), empty results (C14)."""
import numpy as np
from pyvc.harness import harness
from pyvc.absarr import Window, Prog, Empty, Elem
from pyvc.npmodel import AbsArr, TsArr, Converted
from pyvc.interp import Obj, SymSeq, LoopSpec, ProgExc
from pyvc.models import SFile
from pyvc import sym
from spec import pyslice as PS
from spec.base import And, Or, Not, Implies, Ite, Min, Max
from contracts.tdms_index import mk_channel, DT, Tok

RAWDT = Tok("raw-dtype")
SCALE = Tok("scaling")


class Scaled(object):
    """scale(raw window): elementwise image of a window of raw values (C13)"""

    def __init__(self, lo, hi, dtype=None):
        self.lo = lo
        self.hi = hi
        self.dtype = dtype

    def sym_len(self):
        return self.hi - self.lo


def _scaled_getitem(interp, s, k):
    from pyvc.absarr import window_getitem
    w = window_getitem(interp, Window(s.lo, s.hi, "scaled"), k)
    return w


def mk_raw(vc, n, daqmx=False):
    """receiver object holding the eagerly read data of a channel with n values"""
    if daqmx:
        return vc.new("channel_data.DaqmxDataReceiver", path="p", data=None,
                      scaler_data={0: Window(0, n, "scaler0"), 1: Window(0, n, "scaler1")})
    return vc.new("channel_data.NumpyDataReceiver", path="p", data=Window(0, n, "values"), scaler_data={},
                  _data_insert_position=n)


def _install_common(interp, scaling):
    interp.models[("getitem", Scaled)] = _scaled_getitem

    def scale_data(interp_, f, args, kwargs):
        ch, raw = args
        st = sym.get_state()
        st.ghost.setdefault("scaled", []).append(raw)
        d = raw.data
        if scaling:
            if d is None:
                d = list(raw.scaler_data.values())[0]
            return Scaled(d.lo, d.hi, DT)
        if raw.scaler_data:
            raise ProgExc(ValueError, "Missing scaling information for DAQmx data")
        return d
    interp.contracts_at_calls["nptdms.tdms:TdmsChannel._scale_data"] = scale_data
    interp.contracts_at_calls["nptdms.tdms:TdmsChannel._raw_data_dtype"] = lambda i, f, a, k: RAWDT


def same_window(r, lo, hi, tag=None):
    ok = Or(And(r.lo == lo, r.hi == hi), And(r.lo >= r.hi, lo >= hi))
    return ok


# ---------------------------------------------------------------------------- read_data

def _setup_read_data(interp):
    _install_common(interp, scaling=False)

    def read_channel_data(interp_, f, args, kwargs):
        """contract of _read_channel_data (harness read_channel_data)"""
        st = sym.get_state()
        ch = args[0]
        offset = args[1] if len(args) > 1 else kwargs.get("offset", 0)
        length = args[2] if len(args) > 2 else kwargs.get("length", None)
        if interp_.truth(offset < 0):
            raise ProgExc(ValueError, "offset")
        if length is not None and interp_.truth(length < 0):
            raise ProgExc(ValueError, "length")
        st.ghost["lazy_calls"] = st.ghost.get("lazy_calls", 0) + 1
        if ch.data_type is None:
            return None
        lo, hi = PS.window(offset, length, ch._length)
        r = Obj(interp_.get("channel_data.NumpyDataReceiver"))
        r._f.update(data=Window(lo, hi, "values"), scaler_data={})
        return r
    interp.contracts_at_calls["nptdms.tdms:TdmsChannel._read_channel_data"] = read_channel_data


RD_VARIANTS = [("%s,length=%s,scaled=%s,%s" % (m, l, s, t), (m, l, s, t))
               for m in ("eager", "lazy") for l in ("None", "int") for s in (True, False)
               for t in ("typed", "typeless", "daqmx") if not (t == "daqmx" and m == "lazy")]


@harness("read_data", ["tdms.TdmsChannel.read_data", "channel_data.slice_raw_data"], ["C03", "C04", "C14", "C10"],
         variants=RD_VARIANTS, setup=_setup_read_data,
         note="eager (data already in memory) and lazy (reader contract) branches; typed, typeless and DAQmx "
              "channels; offset/length/len symbolic")
def _read_data(vc):
    mode, lv, scaled, typ = vc.variant
    n = vc.int("n", lo=0)
    offset = vc.int("offset", lo=0)
    length = vc.int("length", lo=0) if lv == "int" else None
    if typ == "typeless":
        vc.assume(n == 0)                      # an object without a data type has no values (C01 O9)
    raw = None
    if mode == "eager" and typ != "typeless":
        raw = mk_raw(vc, n, daqmx=(typ == "daqmx"))
    ch = mk_channel(vc, n, raw_data=raw)
    if typ == "typeless":
        ch.data_type = None
    out = vc.call_method(ch, "read_data", offset, length, scaled)
    lo, hi = PS.window(offset, length, n)
    if typ == "daqmx" and scaled:
        vc.ensure("daqmx-without-scaling-is-an-error", out.raised(ValueError))
        return
    vc.ensure("no-exception", out.kind == "ret")
    if out.kind != "ret":
        return
    r = out.value
    if typ == "typeless":
        vc.ensure("typeless-channel-reads-as-empty", isinstance(r, Empty))
        vc.ensure("empty-result-carries-the-declared-dtype", r.dtype is (DT if scaled else RAWDT))
        return
    if typ == "daqmx":
        vc.ensure("unscaled-daqmx-gives-the-scaler-dictionary", sorted(r.keys()) == [0, 1])
        for k in (0, 1):
            vc.ensure("scaler[%d]-window" % k, And(same_window(r[k], lo, hi), r[k].tag == "scaler%d" % k))
        return
    vc.ensure("is-the-window-full[offset:offset+length]", And(isinstance(r, Window), same_window(r, lo, hi)))
    vc.ensure("of-this-channel's-values", r.tag == "values")
    if mode == "eager":
        vc.ensure("eager-read-does-not-touch-the-reader", vc.st.ghost.get("lazy_calls", 0) == 0)


# ---------------------------------------------------------------------------- __getitem__ / data / raw_data

def _setup_getitem(interp):
    _install_common(interp, scaling=True)
    interp.contracts_at_calls["nptdms.tdms:TdmsChannel.read_data"] = \
        lambda i, f, a, k: ("read_data", a[1:], k)
    interp.contracts_at_calls["nptdms.tdms:TdmsChannel._read_slice"] = \
        lambda i, f, a, k: ("_read_slice", a[1:])
    interp.contracts_at_calls["nptdms.tdms:TdmsChannel._read_at_index"] = \
        lambda i, f, a, k: ("_read_at_index", a[1:])


GI_VARIANTS = [("%s,%s" % (m, k), (m, k)) for m in ("eager", "lazy") for k in ("int", "slice", "ellipsis", "str")
               if not (m == "eager" and k in ("ellipsis", "str"))]


@harness("channel_getitem", ["tdms.TdmsChannel.__getitem__", "tdms.TdmsChannel.data", "tdms.TdmsChannel.__len__"],
         ["C03", "C04"], variants=GI_VARIANTS, setup=_setup_getitem)
def _getitem(vc):
    mode, kind = vc.variant
    n = vc.int("n", lo=0)
    raw = mk_raw(vc, n) if mode == "eager" else None
    ch = mk_channel(vc, n, raw_data=raw)
    a, b = vc.int("a"), vc.int("b")
    idx = {"int": a, "slice": vc.interp.eval_slice(__import__("ast").parse("x[a:b]").body[0].value.slice,
                                                    _env(vc, a=a, b=b), None),
           "ellipsis": Ellipsis, "str": "name"}[kind]
    out = vc.call_method(ch, "__getitem__", idx)
    if mode == "lazy":
        if kind == "str":
            vc.ensure("bad-index-type-raises-TypeError", out.raised(TypeError))
            return
        vc.ensure("no-exception", out.kind == "ret")
        r = out.value
        if kind == "int":
            vc.ensure("integer-goes-to-_read_at_index", r == ("_read_at_index", [a]))
        elif kind == "slice":
            vc.ensure("slice-goes-to-_read_slice(start,stop,step)", r[0] == "_read_slice" and len(r[1]) == 3
                      and vc.interp.truth(And(r[1][0] == a, r[1][1] == b)) and r[1][2] is None)
        else:
            vc.ensure("ellipsis-reads-everything", r[0] == "read_data" and r[1] == [] and r[2] == {})
        return
    # eager: index the scaled full array with numpy semantics
    if kind == "str":
        return
    if kind == "ellipsis":
        return
    if kind == "int":
        p, ok = PS.index(a, n)
        if out.kind == "exc":
            vc.ensure("IndexError-iff-out-of-range", And(out.exc is IndexError, Not(ok)))
            return
        vc.ensure("in-range", ok)
        vc.ensure("element-of-the-scaled-full-array", And(isinstance(out.value, Elem), out.value.i == p,
                                                          out.value.tag == "scaled"))
        return
    vc.ensure("no-exception", out.kind == "ret")
    s, e, stp = PS.adjust(a, b, None, n)
    r = out.value
    vc.ensure("slice-of-the-scaled-full-array", And(r.tag == "scaled", Or(And(r.lo == s, r.hi == e),
                                                                        And(r.lo >= r.hi, s >= e))))


def _env(vc, **vals):
    from pyvc.interp import Env
    e = Env({})
    e.vars.update(vals)
    return e


DATA_VARIANTS = [("%s,%s" % (p, s), (p, s)) for p in ("data", "raw_data", "raw_scaler_data")
                 for s in ("read", "not-read", "typeless", "daqmx1", "daqmx2")]


@harness("channel_data_properties", ["tdms.TdmsChannel.data", "tdms.TdmsChannel.raw_data",
                                     "tdms.TdmsChannel.raw_scaler_data"], ["C03", "C14", "C11"],
         variants=DATA_VARIANTS, setup=lambda interp: _install_common(interp, scaling=True))
def _data_props(vc):
    prop, state = vc.variant
    n = vc.int("n", lo=0)
    if state == "not-read":
        vc.assume(n > 0)
        raw = None
    elif state == "typeless":
        vc.assume(n == 0)
        raw = None
    elif state.startswith("daqmx"):
        raw = vc.new("channel_data.DaqmxDataReceiver", path="p", data=None,
                     scaler_data=({0: Window(0, n, "scaler0")} if state == "daqmx1" else
                                  {0: Window(0, n, "scaler0"), 1: Window(0, n, "scaler1")}))
    else:
        raw = mk_raw(vc, n)
    ch = mk_channel(vc, n, raw_data=raw)
    ch._f.pop("_cached_prop_data", None)
    out = vc.call(lambda: vc.interp.getattr_value(ch, prop))
    if state == "not-read":
        vc.ensure("data-not-read-is-a-RuntimeError", out.raised(RuntimeError))
        return
    if state == "typeless":
        if prop == "raw_scaler_data":
            vc.ensure("typeless-channel/raw_scaler_data-agrees-with-raw_data(no-data)",
                      out.kind == "ret" and not out.value)
            return
        vc.ensure("typeless-channel-gives-empty-array", out.kind == "ret" and isinstance(out.value, Empty))
        if out.kind == "ret":
            vc.ensure("empty-array-has-declared-dtype", out.value.dtype is (DT if prop == "data" else RAWDT))
        return
    if prop == "data":
        vc.ensure("no-exception", out.kind == "ret")
        r = out.value
        vc.ensure("scaled-full-array", And(isinstance(r, Scaled), r.lo == 0, r.hi == n))
        return
    if prop == "raw_data":
        if state == "daqmx2":
            vc.ensure("several-scalers: ambiguous raw_data raises", out.kind == "exc")
            return
        vc.ensure("no-exception", out.kind == "ret")
        r = out.value
        vc.ensure("unscaled-full-array", And(r.lo == 0, r.hi == n,
                                             r.tag == ("scaler0" if state == "daqmx1" else "values")))
        return
    vc.ensure("no-exception", out.kind == "ret")
    vc.ensure("scaler-dictionary-of-the-receiver", out.value is raw.scaler_data)


# ---------------------------------------------------------------------------- _read_channel_data

def _setup_rcd(interp):
    def get_data_receiver(interp_, f, args, kwargs):
        st = sym.get_state()
        ch, nvals = args[0], args[1]
        st.ghost["capacity"] = nvals
        if ch.data_type is None:
            return None
        arr = AbsArr(nvals, "int32", ("zeros",))
        r = Obj(interp_.get("channel_data.NumpyDataReceiver"))
        r._f.update(path="p", data=arr, scaler_data={}, _data_insert_position=0)
        st.ghost["receiver"] = r
        return r

    def read_raw_data_for_channel(interp_, f, args, kwargs):
        """contract of TdmsReader.read_raw_data_for_channel (harness read_window): consecutive windows
        whose concatenation is values[offset:end]"""
        st = sym.get_state()
        rd, path = args[0], args[1]
        offset = args[2] if len(args) > 2 else kwargs.get("offset", 0)
        length = args[3] if len(args) > 3 else kwargs.get("length", None)
        n = st.ghost["n"]
        lo, hi = PS.window(offset, length, n)
        st.ghost["reader_request"] = (path, offset, length)
        k = st.ghost["nchunks"]
        if k == 0:
            st.assume(lo >= hi)          # the reader yields no chunk only for an empty window
            return iter([])
        cuts = [lo] + [st.fresh_int("cut") for _ in range(k - 1)] + [hi]
        for a, b in zip(cuts, cuts[1:]):
            st.assume(a <= b)
        RC = interp_.get("base_segment.RawChannelDataChunk")
        out = []
        for a, b in zip(cuts, cuts[1:]):
            c = Obj(RC)
            c._f.update(data=Window(a, b, "values"), scaler_data=None)
            out.append(c)
        return iter(out) if k else iter([])

    interp.contracts_at_calls["nptdms.channel_data:get_data_receiver"] = get_data_receiver
    interp.contracts_at_calls["nptdms.reader:TdmsReader.read_raw_data_for_channel"] = read_raw_data_for_channel
    interp.contracts_at_calls["nptdms.reader:TdmsReader.is_index_file_only"] = \
        lambda i, f, a, k: sym.get_state().ghost["index_only"]


RCD_VARIANTS = [("chunks=%d,length=%s,%s" % (k, l, t), (k, l, t)) for k in (0, 1, 2, 3) for l in ("None", "int")
                for t in ("typed", "typeless", "index-only") if not (t != "typed" and k != 1)]


@harness("read_channel_data", ["tdms.TdmsChannel._read_channel_data", "channel_data.NumpyDataReceiver.append_data"],
         ["C04", "C03", "C09", "C10", "C14"], variants=RCD_VARIANTS, setup=_setup_rcd, level="shape-bounded",
         bound="the reader delivers the window in <= 3 chunks with symbolic boundaries")
def _rcd(vc):
    k, lv, typ = vc.variant
    st = vc.st
    n = vc.int("n", lo=0)
    st.ghost["n"] = n
    st.ghost["nchunks"] = k
    st.ghost["index_only"] = (typ == "index-only")
    if typ == "typeless":
        vc.assume(n == 0)
    rd = vc.new("reader.TdmsReader", _file=SFile("d"), _index_file=None)
    ch = mk_channel(vc, n, _reader=rd)
    ch._f["_path"] = "/'g'/'c'"
    vc.interp.contracts_at_calls["nptdms.tdms:TdmsChannel.path"] = lambda i, f, a, kw: "/'g'/'c'"
    if typ == "typeless":
        ch.data_type = None
    offset = vc.int("offset")
    length = vc.int("length") if lv == "int" else None
    out = vc.call_method(ch, "_read_channel_data", offset, length)
    bad = Or(offset < 0, (length < 0) if length is not None else False)
    if out.kind == "exc" and out.exc is ValueError:
        vc.ensure("ValueError-only-for-negative-offset-or-length", bad)
        return
    vc.ensure("negative-arguments-rejected", Not(bad))
    if typ == "index-only":
        vc.ensure("c09/index-only-refuses-data-reads", out.raised(RuntimeError))
        return
    vc.ensure("no-exception", out.kind == "ret")
    if out.kind != "ret":
        return
    lo, hi = PS.window(offset, length, n)
    vc.ensure("allocates-exactly-the-window", st.ghost["capacity"] == hi - lo)
    if typ == "typeless":
        vc.ensure("typeless-channel-has-no-data", out.value is None)
        return
    vc.ensure("asks-the-reader-for-this-channel-and-window",
              st.ghost["reader_request"][0] == "/'g'/'c'" and
              vc.interp.truth(st.ghost["reader_request"][1] == offset) and
              (st.ghost["reader_request"][2] is length or vc.interp.truth(st.ghost["reader_request"][2] == length)))
    r = out.value
    arr = r.data
    vc.ensure("one-store-per-chunk", len(arr.writes) == k)
    pos = 0
    cur = lo
    for i, (a, b, src, field) in enumerate(arr.writes[:k]):
        vc.ensure("chunk[%d]-appended-in-order" % i, And(a == pos, src.lo == cur, b - a == src.hi - src.lo))
        pos = b
        cur = src.hi
    vc.ensure("filled-to-capacity", pos == hi - lo)


# ---------------------------------------------------------------------------- chunk streams

def _setup_streams(interp):
    _install_common(interp, scaling=True)

    def read_channel_data_chunks(interp_, f, args, kwargs):
        st = sym.get_state()
        k = st.ghost["nchunks"]
        n = st.ghost["n"]
        if k == 0:
            st.ghost["raw_chunks"] = []
            return iter([])
        cuts = [0] + [st.fresh_int("cut") for _ in range(k - 1)] + [n]
        for a, b in zip(cuts, cuts[1:]):
            st.assume(a <= b)
        RC = interp_.get("base_segment.RawChannelDataChunk")
        out = []
        for a, b in zip(cuts, cuts[1:]):
            c = Obj(RC)
            c._f.update(data=Window(a, b, "values"), scaler_data=None)
            out.append(c)
        st.ghost["raw_chunks"] = out
        return iter(out)
    interp.contracts_at_calls["nptdms.tdms:TdmsChannel._read_channel_data_chunks"] = read_channel_data_chunks


@harness("channel_data_chunks", ["tdms.TdmsChannel.data_chunks", "tdms.ChannelDataChunk.__init__",
                                 "tdms.ChannelDataChunk.__len__", "tdms.ChannelDataChunk._data",
                                 "tdms.ChannelDataChunk.__getitem__", "base_segment.RawChannelDataChunk.__len__"],
         ["C03", "C05", "C14"], variants=[("chunks=%d" % k, k) for k in (0, 1, 2, 3)], setup=_setup_streams,
         level="shape-bounded", bound="<= 3 chunks with symbolic boundaries")
def _channel_chunks(vc):
    k = vc.variant
    st = vc.st
    n = vc.int("n", lo=0)
    st.ghost["n"] = n
    st.ghost["nchunks"] = k
    if k == 0:
        vc.assume(n == 0)
    ch = mk_channel(vc, n)
    ch._f["_cached_prop__scaling"] = SCALE
    vc.interp.contracts_at_calls["nptdms.tdms:TdmsChannel.name"] = lambda i, f, a, kw: "c"
    g = vc.call_method(ch, "data_chunks")
    out = vc.drain(g.value)
    vc.ensure("no-exception", out.kind == "ret")
    chunks = out.value
    vc.ensure("one-chunk-object-per-raw-chunk", len(chunks) == k)
    run = 0
    for i, c in enumerate(chunks):
        vc.ensure("chunk[%d]/offset-is-values-delivered-so-far" % i, c.offset == run)
        raw = st.ghost["raw_chunks"][i]
        ln = vc.interp.models[len](vc.interp, c)
        vc.ensure("chunk[%d]/length" % i, ln == raw.data.hi - raw.data.lo)
        run = run + ln
    vc.ensure("offsets-end-at-len(channel)", run == n)


# ---------------------------------------------------------------------------- _read_channel_data for ANY number of chunks

import z3
from pyvc.sym import _lift


class PrefixArr(object):
    """the receiver's array: `filled` leading entries hold values[base : base+filled] of the channel (ghost view);
    a store must append to that prefix, in channel order"""

    def __init__(self, capacity, base):
        self.capacity = capacity
        self.base = base
        self.filled = 0

    def sym_len(self):
        return self.capacity


def _prefix_setitem(interp, arr, k, src):
    from pyvc.interp import SymSlice
    st = sym.get_state()
    if not isinstance(k, (slice, SymSlice)) or k.step not in (None, 1) or k.start is None or k.stop is None:
        raise sym.Unsupported("receiver store at %r" % (k,))
    if not isinstance(src, Window):
        raise sym.Unsupported("receiver store of %s" % type(src).__name__)
    from pyvc.models import trusted
    trusted("numpy: a[lo:hi] = b copies b elementwise into positions lo..hi-1 (clamped to len(a)) and raises "
            "ValueError unless len(b) == hi-lo (or b broadcasts)")
    cap = arr.capacity
    st.check("safe/receiver-store-bounds-nonnegative", And(k.start >= 0, k.stop >= 0), kind="safe")
    lo, hi = Min(k.start, cap), Min(k.stop, cap)
    ln = src.hi - src.lo
    if not interp.truth(ln == Max(hi - lo, 0)):
        raise ProgExc(ValueError, "could not broadcast")
    st.check("receiver/store-appends-to-the-filled-prefix", lo == arr.filled, kind="ensures")
    st.check("receiver/store-continues-the-channel-window", Implies(ln > 0, src.lo == arr.base + arr.filled),
             kind="ensures")
    arr.filled = Ite(ln > 0, hi, arr.filled)


def _setup_rcd_all(interp):
    interp.models[("setitem", PrefixArr)] = _prefix_setitem
    CUT = z3.Function("CUT", z3.IntSort(), z3.IntSort())

    def get_data_receiver(interp_, f, args, kwargs):
        st = sym.get_state()
        ch, nvals = args[0], args[1]
        lo, hi = st.ghost["window"]
        st.check("read_channel_data/allocates-exactly-the-window", nvals == hi - lo, kind="call-pre")
        arr = PrefixArr(nvals, lo)
        r = Obj(interp_.get("channel_data.NumpyDataReceiver"))
        r._f.update(path="p", data=arr, scaler_data={}, _data_insert_position=0)
        st.ghost["receiver"] = r
        return r

    def read_raw_data_for_channel(interp_, f, args, kwargs):
        """contract of TdmsReader.read_raw_data_for_channel (proved by harness read_window for any number of
        segments and chunks): K >= 0 windows; window i is values[CUT(i):CUT(i+1)] with CUT(0) = lo, CUT(K) = hi,
        CUT(i) <= CUT(i+1) <= hi   (yield obligations chunk-continues / not-reversed / stays-inside-the-request)"""
        st = sym.get_state()
        path = args[1]
        offset = args[2] if len(args) > 2 else kwargs.get("offset", 0)
        length = args[3] if len(args) > 3 else kwargs.get("length", None)
        lo, hi = st.ghost["window"]
        st.check("read_channel_data/asks-the-reader-for-this-channel-and-window",
                 And(path == "/'g'/'c'", offset == st.ghost["offset"],
                     (length is None) if st.ghost["length"] is None else (length == st.ghost["length"])),
                 kind="call-pre")
        K = st.fresh_int("K")
        st.assume(K >= 0)
        st.ghost["K"] = K
        zlo, zhi, zK = sym.z3int(lo), sym.z3int(hi), sym.z3int(K)
        st.add_fact(z3.And(CUT(0) == zlo, CUT(zK) == zhi))
        RC = interp_.get("base_segment.RawChannelDataChunk")

        def item(i):
            zi_ = sym.z3int(i)
            st.add_fact(z3.And(CUT(zi_) <= CUT(zi_ + 1), CUT(zi_ + 1) <= zhi, zlo <= CUT(zi_)))
            c = Obj(RC)
            c._f.update(data=Window(_lift(CUT(zi_)), _lift(CUT(zi_ + 1)), "values"), scaler_data=None)
            return c
        return SymSeq(K, item, "windows")

    interp.contracts_at_calls["nptdms.channel_data:get_data_receiver"] = get_data_receiver
    interp.contracts_at_calls["nptdms.reader:TdmsReader.read_raw_data_for_channel"] = read_raw_data_for_channel
    interp.contracts_at_calls["nptdms.reader:TdmsReader.is_index_file_only"] = lambda i, f, a, k: False

    def inv(env, k, st):
        r = env.vars["channel_data"]
        lo, hi = st.ghost["window"]
        c = _lift(CUT(sym.z3int(k)))
        return [("receiver-position-is-the-number-of-values-delivered", r._data_insert_position == c - lo),
                ("array-holds-values[lo:CUT(k)]", r.data.filled == c - lo),
                ("position-within-the-window", And(lo <= c, c <= hi))]

    def havoc_receiver(st, env):
        r = env.vars["channel_data"]
        r._f["_data_insert_position"] = st.fresh_int("pos")
        r._f["data"].filled = st.fresh_int("filled")
        return r
    interp.loop_specs[("nptdms.tdms:TdmsChannel._read_channel_data", 0)] = LoopSpec(
        inv, havoc={"channel_data": havoc_receiver, "__locals__": ("chunk", "scaler_id", "scaler_data")},
        name="chunks")


@harness("read_channel_data_all_chunks", ["tdms.TdmsChannel._read_channel_data",
                                          "channel_data.NumpyDataReceiver.append_data"],
         ["C04", "C03", "C10", "C14"], variants=[("length=None", "None"), ("length=int", "int")],
         setup=_setup_rcd_all,
         note="for ANY number of chunks delivered by the reader (loop invariant: the receiver holds "
              "values[lo:CUT(k)] and its insert position is CUT(k)-lo): the returned receiver holds exactly "
              "values[lo:hi], in order, and is filled to capacity")
def _rcd_all(vc):
    st = vc.st
    n = vc.int("n", lo=0)
    rd = vc.new("reader.TdmsReader", _file=SFile("d"), _index_file=None)
    ch = mk_channel(vc, n, _reader=rd)
    ch._f["_path"] = "/'g'/'c'"
    vc.interp.contracts_at_calls["nptdms.tdms:TdmsChannel.path"] = lambda i, f, a, kw: "/'g'/'c'"
    offset = vc.int("offset", lo=0)
    length = vc.int("length", lo=0) if vc.variant == "int" else None
    lo, hi = PS.window(offset, length, n)
    st.ghost["window"] = (lo, hi)
    st.ghost["offset"], st.ghost["length"] = offset, length
    vc.cover("non-empty-window-reachable", And(n == 10, offset == 2, hi - lo >= 3))
    out = vc.call_method(ch, "_read_channel_data", offset, length)
    vc.ensure("no-exception", out.kind == "ret")
    if out.kind != "ret":
        return
    r = out.value
    vc.ensure("returns-the-receiver", r is st.ghost.get("receiver"))
    vc.ensure("filled-to-capacity-with-values[lo:hi]", And(r.data.filled == hi - lo, r.data.base == lo,
                                                            r.data.capacity == hi - lo))
    vc.ensure("insert-position-at-the-end", r._data_insert_position == hi - lo)


# ---------------------------------------------------------------------------- channel.data_chunks() for ANY number of chunks

def _setup_streams_all(interp):
    _install_common(interp, scaling=True)
    CUT = z3.Function("CUT", z3.IntSort(), z3.IntSort())

    def read_channel_data_chunks(interp_, f, args, kwargs):
        """contract of TdmsChannel._read_channel_data_chunks (reader.read_raw_data_for_channel over the whole
        channel, harness read_window): K windows values[CUT(i):CUT(i+1)], CUT(0) = 0, CUT(K) = n, nondecreasing"""
        st = sym.get_state()
        n = st.ghost["n"]
        K = st.fresh_int("K")
        st.assume(K >= 0)
        st.ghost["K"] = K
        st.add_fact(z3.And(CUT(0) == 0, CUT(sym.z3int(K)) == sym.z3int(n)))
        RC = interp_.get("base_segment.RawChannelDataChunk")

        def item(i):
            zi_ = sym.z3int(i)
            st.add_fact(z3.And(CUT(zi_) <= CUT(zi_ + 1), CUT(zi_ + 1) <= sym.z3int(n), 0 <= CUT(zi_)))
            c = Obj(RC)
            c._f.update(data=Window(_lift(CUT(zi_)), _lift(CUT(zi_ + 1)), "values"), scaler_data=None)
            return c
        return SymSeq(K, item, "windows")
    interp.contracts_at_calls["nptdms.tdms:TdmsChannel._read_channel_data_chunks"] = read_channel_data_chunks

    def inv(env, k, st):
        return [("channel_offset-is-the-number-of-values-delivered",
                 env.vars["channel_offset"] == _lift(CUT(sym.z3int(k))))]
    interp.loop_specs[("nptdms.tdms:TdmsChannel.data_chunks", 0)] = LoopSpec(
        inv, havoc={"channel_offset": "int", "__locals__": ("raw_data_chunk",)}, name="chunks")

    def on_yield(qual, value, env):
        if qual != "nptdms.tdms:TdmsChannel.data_chunks":
            return
        st = sym.get_state()
        k = env.vars["__k__"]
        c = _lift(CUT(sym.z3int(k)))
        c1 = _lift(CUT(sym.z3int(k) + 1))
        st.check("yield/chunk-offset-is-the-running-count-of-values", value.offset == c, kind="yield")
        ln = interp.models[len](interp, value)
        st.check("yield/chunk-length-is-the-raw-chunk's", ln == c1 - c, kind="yield")
        d = interp.getitem(value, slice(None, None, None))
        st.check("yield/chunk-data-is-the-scaled-window-of-the-channel",
                 isinstance(d, Window) and d.tag == "scaled" and interp.truth(same_window(d, c, c1)), kind="yield")
        st.ghost["yields"] = st.ghost.get("yields", 0) + 1
    interp.yield_hook = on_yield


class ScalingModel(object):
    """channel._scaling: contract of MultiScaling.scale (harness multi_scaling_eval): elementwise over the window"""

    def scale(self, raw):
        d = raw.data
        return Scaled(d.lo, d.hi, DT)


@harness("channel_data_chunks_all", ["tdms.TdmsChannel.data_chunks", "tdms.ChannelDataChunk.__init__",
                                     "tdms.ChannelDataChunk.__len__", "tdms.ChannelDataChunk._data",
                                     "tdms.ChannelDataChunk.__getitem__", "base_segment.RawChannelDataChunk.__len__"],
         ["C03", "C05", "C14"], setup=_setup_streams_all,
         note="for ANY number of chunks: chunk k carries offset = values delivered before it and the scaled window "
              "values[CUT(k):CUT(k+1)] (loop invariant on channel_offset; obligations at the yield)")
def _channel_chunks_all(vc):
    st = vc.st
    n = vc.int("n", lo=0)
    st.ghost["n"] = n
    ch = mk_channel(vc, n)
    ch._f["_cached_prop__scaling"] = ScalingModel()
    vc.interp.contracts_at_calls["nptdms.tdms:TdmsChannel.name"] = lambda i, f, a, kw: "c"
    g = vc.call_method(ch, "data_chunks")
    out = vc.drain(g.value)
    vc.ensure("no-exception", out.kind == "ret")
    vc.cover("stream-end-reachable-with-data", n == 7)
