"""daqmx.py: DAQmx raw index parse, buffer dimensions, column extraction, bit masking, truncated chunks (C11)."""
import itertools
import numpy as np
import z3
from pyvc.harness import harness
from pyvc.models import SFile, SBytes
from pyvc.npmodel import FileArr, BitOf, TsArr
from pyvc.interp import Obj
from pyvc import sym
from pyvc.sym import _lift
from spec import layout as L
from spec.base import And, Or, Not, Implies, Ite, Min, Max, uint, sint
from contracts.base_segment import fromfile_contract
from contracts.seg_objects import mk_file

FCS, DLS = 0x1269, 0x126A
DAQMX_CODES = {0: 5, 1: 1, 2: 6, 3: 2, 4: 7, 5: 3, 6: 8, 7: 4, 8: 9, 9: 10, 0xFFFFFFFF: 0x44}   # -> TDMS type code

IDX_VARIANTS = [("%s,%s,scalers=%d,widths=%d" % ("format" if h == FCS else "digital", o, ns, nw), (h, o, ns, nw))
                for h in (FCS, DLS) for o in "<>" for (ns, nw) in ((1, 1), (2, 2))]


@harness("daqmx_raw_index", ["daqmx.DaqmxSegmentObject.read_raw_data_index", "daqmx.DaqMxMetadata.__init__",
                             "daqmx.DaqMxScaler.__init__", "daqmx.DigitalLineScaler.__init__",
                             "daqmx.DaqmxSegmentObject.scaler_data_types", "daqmx.DaqmxSegmentObject.__init__"],
         ["C11", "C15"], variants=IDX_VARIANTS, level="shape-bounded",
         bound="<= 2 scalers per channel, <= 2 raw buffers; channel type in {DaqMxRawData, Int16, Uint8}; the "
               "second scaler's type in {Int16, DoubleFloat, unknown}; all other field values, byte order, file "
               "position symbolic", split_variants=True, weight=10)
def _raw_index(vc):
    header, order, ns, nw = vc.variant
    big = order == ">"
    f, pos0 = mk_file(vc)
    f.assume_present = True
    obj = vc.interp.instantiate(vc.interp.get("daqmx.DaqmxSegmentObject"), ["/'g'/'c'"], {})
    b = SBytes(f.content, pos0, 4096)
    tcode = uint(b, 0, 4, big)
    dim = uint(b, 4, 4, big)
    chunk = uint(b, 8, 8, big)
    nsc = uint(b, 16, 4, big)
    vc.assume(nsc == ns)                            # shape
    rec = 20 if header == FCS else 17
    wpos = 20 + ns * rec
    nwid = uint(b, wpos, 4, big)
    vc.assume(nwid == nw)                           # shape
    vc.assume(Or(tcode == 0xFFFFFFFF, tcode == 2, tcode == 5, tcode == 12345))      # shape: channel type
    if ns == 2:
        c1 = uint(b, 20 + rec, 4, big)
        vc.assume(Or(c1 == 3, c1 == 9, c1 == 77))                                 # shape: second scaler's type
    out = vc.call_method(obj, "read_raw_data_index", f, header, order)
    known_t = Or(*[tcode == c for c in sorted(L.TYPES)])
    scalers = []
    for i in range(ns):
        o = 20 + i * rec
        if header == FCS:
            scalers.append(dict(code=uint(b, o, 4, big), buf=uint(b, o + 4, 4, big), off=uint(b, o + 8, 4, big),
                                fmt=uint(b, o + 12, 4, big), sid=uint(b, o + 16, 4, big)))
        else:
            scalers.append(dict(code=uint(b, o, 4, big), buf=uint(b, o + 4, 4, big), off=uint(b, o + 8, 4, big),
                                fmt=uint(b, o + 12, 1, big), sid=uint(b, o + 13, 4, big)))
    known_s = And(*[Or(*[s["code"] == c for c in DAQMX_CODES]) for s in scalers])
    if out.kind == "exc":
        raw = tcode == 0xFFFFFFFF
        mismatch = Or(nsc != 1, *[Not(DAQMX_CODES[c] == tcode) if False else False for c in ()])
        vc.ensure("rejected-only-for: unknown type, dimension != 1, unknown scaler type, or a typed channel whose "
                  "single scaler has another type",
                  Or(Not(known_t), dim != 1, Not(known_s),
                     And(Not(raw), Or(ns != 1, *[And(scalers[0]["code"] == c, tcode != DAQMX_CODES[c])
                                                 for c in DAQMX_CODES]))))
        return
    vc.ensure("dimension-is-1", dim == 1)
    vc.ensure("values-per-chunk-in-segment-byte-order", obj.number_values == chunk)
    md = obj.daqmx_metadata
    vc.ensure("scaler-count", len(md.scalers) == ns)
    for i, (s, e) in enumerate(zip(md.scalers, scalers)):
        vc.ensure("scaler[%d]/class" % i, s._cls.name == ("DaqMxScaler" if header == FCS else "DigitalLineScaler"))
        vc.ensure("scaler[%d]/raw-buffer-index" % i, s.raw_buffer_index == e["buf"])
        vc.ensure("scaler[%d]/offset" % i, (s.raw_byte_offset if header == FCS else s.raw_bit_offset) == e["off"])
        vc.ensure("scaler[%d]/scale-id" % i, s.scale_id == e["sid"])
        vc.ensure("scaler[%d]/sample-format" % i, s.sample_format_bitmap == e["fmt"])
        for c, t in DAQMX_CODES.items():
            vc.ensure("scaler[%d]/type[%d]" % (i, c), Implies(e["code"] == c, s.data_type.enum_value == t))
    widths = list(md.raw_data_widths.items)
    vc.ensure("width-count", len(widths) == nw)
    for j in range(nw):
        vc.ensure("raw-buffer-width[%d]" % j, widths[j] == uint(b, wpos + 4 + 4 * j, 4, big))
    vc.ensure("cursor-after-the-index", f.pos == pos0 + wpos + 4 + 4 * nw)
    sdt = obj.scaler_data_types
    vc.ensure("scaler-data-types-keyed-by-scale-id", len(sdt) <= ns)


# ---------------------------------------------------------------------------- buffer dimensions

def mk_daqmx_obj(vc, tag, nscalers, nbuf, digital=False, typed=None):
    it = vc.interp
    o = it.instantiate(it.get("daqmx.DaqmxSegmentObject"), ["/'g'/'%s'" % tag], {})
    o.has_data = True
    o.number_values = vc.int(tag + "_nv", lo=0)
    o.data_type = it.get("types.DaqMxRawData") if typed is None else it.get("types.tds_data_types")[typed]
    scalers = []
    for i in range(nscalers):
        cls = it.get("daqmx.DigitalLineScaler" if digital else "daqmx.DaqMxScaler")
        s = Obj(cls)
        bi = vc.int("%s_s%d_buf" % (tag, i), lo=0, hi=nbuf - 1)
        fields = dict(scale_id=i, data_type=it.get("types.tds_data_types")[5 if digital else 2],
                      raw_buffer_index=bi, sample_format_bitmap=0)
        if digital:
            fields["raw_bit_offset"] = vc.int("%s_s%d_bit" % (tag, i), lo=0)
        else:
            fields["raw_byte_offset"] = vc.int("%s_s%d_off" % (tag, i), lo=0)
        s._f.update(fields)
        scalers.append(s)
    md = Obj(it.get("daqmx.DaqMxMetadata"))
    md._f.update(chunk_size=o.number_values, scalers=scalers, raw_data_widths=None)
    o.daqmx_metadata = md
    return o


BD_VARIANTS = [("objects=%d,scalers=%d,buffers=%d" % (no, ns, nb), (no, ns, nb)) for no in (1, 2) for ns in (1, 2)
               for nb in (1, 2)]


@harness("daqmx_buffer_dimensions", ["daqmx.get_buffer_dimensions", "daqmx.get_daqmx_chunk_size",
                                     "daqmx._lists_are_equal"], ["C11", "C06"], variants=BD_VARIANTS,
         level="shape-bounded", bound="<= 2 channels x <= 2 scalers over <= 2 raw buffers; counts, widths and "
                                      "buffer assignment symbolic")
def _buffer_dims(vc):
    from pyvc.npmodel import ListArr
    no, ns, nb = vc.variant
    widths = [vc.int("w%d" % j, lo=1) for j in range(nb)]
    objs = [mk_daqmx_obj(vc, "c%d" % i, ns, nb) for i in range(no)]
    for o in objs:
        o.daqmx_metadata.raw_data_widths = ListArr(list(widths), "int32")
    out = vc.call("daqmx.get_buffer_dimensions", objs)
    vc.ensure("no-exception", out.kind == "ret")
    if out.kind != "ret":
        return
    dims = out.value
    vc.ensure("one-entry-per-raw-buffer", len(dims) == nb)
    total = 0
    for j, (ln, w) in enumerate(dims):
        vc.ensure("buffer[%d]/width" % j, w == widths[j])
        # length = max number_values over channels having a scaler in this buffer (0 if none)
        exp = 0
        for o in objs:
            uses = Or(*[s.raw_buffer_index == j for s in o.daqmx_metadata.scalers])
            exp = Ite(And(uses, o.number_values > exp), o.number_values, exp)
        vc.ensure("buffer[%d]/length-is-the-longest-channel-in-it" % j, ln == exp)
        total = total + ln * w
    cs = vc.call("daqmx.get_daqmx_chunk_size", objs)
    vc.ensure("chunk-size-is-sum-of-buffer-length-times-width", cs.value == total)


@harness("daqmx_width_mismatch", "daqmx.get_buffer_dimensions", ["C11"])
def _width_mismatch(vc):
    from pyvc.npmodel import ListArr
    a = mk_daqmx_obj(vc, "a", 1, 1)
    b = mk_daqmx_obj(vc, "b", 1, 1)
    a.daqmx_metadata.raw_data_widths = ListArr([4], "int32")
    b.daqmx_metadata.raw_data_widths = ListArr([8], "int32")
    out = vc.call("daqmx.get_buffer_dimensions", [a, b])
    vc.ensure("mismatching-widths-raise", out.raised(ValueError))


FCL_VARIANTS = [("buffers=%d,objects=%d" % (nb, no), (nb, no)) for nb in (1, 2) for no in (1, 2)]


@harness("daqmx_final_chunk_lengths", "daqmx.get_daqmx_final_chunk_lengths", ["C11", "C06"], variants=FCL_VARIANTS,
         level="shape-bounded", bound="<= 2 raw buffers, <= 2 channels with one scaler each")
def _daqmx_fcl(vc):
    from pyvc.npmodel import ListArr
    nb, no = vc.variant
    widths = [vc.int("w%d" % j, lo=1) for j in range(nb)]
    objs = [mk_daqmx_obj(vc, "c%d" % i, 1, nb) for i in range(no)]
    for o in objs:
        o.daqmx_metadata.raw_data_widths = ListArr(list(widths), "int32")
    dims = vc.call("daqmx.get_buffer_dimensions", objs).value
    chunk = sum(ln * w for ln, w in dims)
    rem = vc.int("remainder", lo=1)
    vc.assume(rem < chunk)
    out = vc.call("daqmx.get_daqmx_final_chunk_lengths", objs, rem)
    vc.ensure("no-exception", out.kind == "ret")
    if out.kind != "ret":
        return
    res = out.value
    # whole leading buffers, then complete rows of the cut buffer, then nothing
    left = rem
    exp = []
    stopped = False
    for (ln, w) in dims:
        if stopped:
            exp.append(0)
        elif vc.interp.truth(left > ln * w):
            exp.append(ln)
            left = left - ln * w
        else:
            exp.append(("rows", left, w))
            stopped = True
    for o in objs:
        bi = o.daqmx_metadata.scalers[0].raw_buffer_index
        got = res.get(o.path, 0)
        for j, e in enumerate(exp):
            if isinstance(e, tuple):
                (_, l, w) = e
                vc.ensure("cut-buffer: complete-rows-only", Implies(bi == j, And(got * w <= l, l < (got + 1) * w)))
            else:
                vc.ensure("whole-or-empty-buffer", Implies(bi == j, got == e))


# ---------------------------------------------------------------------------- chunk decoding

def _setup_chunk(interp):
    interp.contracts_at_calls["nptdms.base_segment:fromfile"] = fromfile_contract


CH_VARIANTS = [("%s,%s,buffers=%d" % (k, o, nb), (k, o, nb)) for k in ("format", "digital", "typed") for o in "<>"
               for nb in (1, 2)]


@harness("daqmx_read_data_chunk", ["daqmx.DaqmxDataReader._read_data_chunk", "daqmx.DaqMxScaler.byte_offset",
                                   "daqmx.DaqMxScaler.postprocess_data", "daqmx.DigitalLineScaler.byte_offset",
                                   "daqmx.DigitalLineScaler.postprocess_data",
                                   "base_segment.read_interleaved_segment_bytes"], ["C11", "C15"],
         variants=CH_VARIANTS, setup=_setup_chunk, level="shape-bounded",
         bound="2 channels (2 scalers and 1 scaler; 1 and 1 for digital lines) over <= 2 raw buffers; buffer "
               "widths, lengths, byte / bit offsets, buffer assignment, file position symbolic",
         split_variants=True, weight=15)
def _read_chunk(vc):
    from pyvc.npmodel import ListArr
    kind, order, nb = vc.variant
    it = vc.interp
    f, pos0 = mk_file(vc)
    f.assume_present = True
    widths = [vc.int("w%d" % j, lo=1, hi=64) for j in range(nb)]
    digital = kind == "digital"
    objs = [mk_daqmx_obj(vc, "a", 1 if digital else 2, nb, digital), mk_daqmx_obj(vc, "b", 1, nb, digital,
                                                                 typed=(5 if digital else 2) if kind == "typed" else None)]
    for o in objs:
        o.daqmx_metadata.raw_data_widths = ListArr(list(widths), "int32")
        for s in o.daqmx_metadata.scalers:
            size = s.data_type.size
            bo = (s.raw_bit_offset // 8) if digital else s.raw_byte_offset
            for j in range(nb):
                vc.assume(Implies(s.raw_buffer_index == j, bo + size <= widths[j]))   # scaler lies inside its row
    rd = vc.new("daqmx.DaqmxDataReader", num_chunks=1, final_chunk_lengths_override=None, endianness=order)
    dims = vc.call("daqmx.get_buffer_dimensions", objs).value
    vc.assume(f.size - pos0 >= sum(ln * w for ln, w in dims))      # the chunk is complete (truncation: harness
    #                                                                 daqmx_final_chunk_lengths / read_interleaved)
    out = vc.call_method(rd, "_read_data_chunk", f, objs, 0)
    vc.ensure("no-exception", out.kind == "ret")
    if out.kind != "ret":
        return
    cd = out.value.channel_data
    starts = []
    cur = pos0
    for (ln, w) in dims:
        starts.append(cur)
        cur = cur + ln * w
    vc.ensure("cursor-after-all-buffers", f.pos == cur)
    for o in objs:
        ch = cd[o.path]
        typed = o.data_type is not it.get("types.DaqMxRawData")
        for s in o.daqmx_metadata.scalers:
            arr = ch.data if typed else ch.scaler_data[s.scale_id]
            bit = None
            if isinstance(arr, BitOf):
                bit, arr = arr.bit, arr.arr
            bo = (s.raw_bit_offset // 8) if digital else s.raw_byte_offset
            for j in range(nb):
                sel = s.raw_buffer_index == j
                vc.ensure("scaler-bytes-at: buffer start + row*width + byte offset",
                          Implies(sel, Or(arr.count == 0, And(arr.base == starts[j] + bo, arr.stride == widths[j]))))
                vc.ensure("scaler-row-count-is-the-buffer-length", Implies(sel, arr.count == dims[j][0]))
            vc.ensure("scaler-item-size-and-dtype-in-segment-byte-order",
                      And(arr.itemsize == s.data_type.size, arr.dtype_ == s.data_type.nptype.newbyteorder(order)))
            if digital:
                vc.ensure("digital-line: the addressed bit", bit is not None and vc.interp.truth(bit == s.raw_bit_offset % 8))
            else:
                vc.ensure("format-changing-scaler: values unchanged", bit is None)


@harness("bit_extraction_lemma", [], ["C11"], note="((x & (1 << b)) >> b) == (x >> b) & 1 for 8/16/32/64-bit "
                                                 "vectors (z3 bit-vector theory)")
def _bit_lemma(vc):
    from pyvc.sym import SymBool
    for n in (8, 16, 32, 64):
        x = z3.BitVec("x%d" % n, n)
        b = z3.BitVec("b%d" % n, n)
        one = z3.BitVecVal(1, n)
        vc.ensure("bits=%d" % n, SymBool(z3.Implies(z3.ULT(b, n), z3.LShR(x & (one << b), b) == (z3.LShR(x, b) & one))))
