"""scaling.py: dataflow evaluation of NI_Scale definitions, formulas, sensor laws (C13, C14, C17).
Arithmetic over the reals (A-REAL); data arrays by elementwise abstraction (a vector of arbitrary reals);
purity by alias tracking on that vector."""
from collections import OrderedDict
import numpy as np
import z3
from pyvc.harness import harness
from pyvc.npmodel import ListArr
from pyvc.interp import Obj, ProgExc
from pyvc import sym
from pyvc.sym import SymReal, SymBool, _lift, z3real
from spec.base import And, Or, Not, Implies, Ite

RAW = 0xFFFFFFFF


def rdata(vc, n=2, name="x", alias="input"):
    a = ListArr([vc.real("%s%d" % (name, i)) for i in range(n)], "float64")
    a.alias = alias
    return a


def raw_chunk(vc, data=None, scaler_data=None):
    return vc.new("base_segment.RawChannelDataChunk", data=data, scaler_data=scaler_data)


def no_purity_violation(vc, tag=""):
    vc.ensure(tag + "raw-data-not-modified-in-place", not vc.st.ghost.get("purity_violations"), kind="frame")


# ---------------------------------------------------------------------------- lookup

LOOKUP = [("%s%s%s" % (c, g, f), (c, g, f)) for c in "SN_" for g in "SN_" for f in "SN_"]


def _setup_lookup(interp):
    def gcs(interp_, f, args, kwargs):
        p = args[0]
        return p.get("__scaling")
    interp.contracts_at_calls["nptdms.scaling:_get_channel_scaling"] = gcs


@harness("scaling_lookup", "scaling.get_scaling", ["C13"], variants=LOOKUP, setup=_setup_lookup,
         note="S = scaling defined there, N = none there: all 27 placements")
def _lookup(vc):
    toks = {}
    dicts = []
    for lvl, k in zip(("channel", "group", "file"), vc.variant):
        d = {"__scaling": ("scaling-of-" + lvl) if k == "S" else None}
        dicts.append(d)
    out = vc.call("scaling.get_scaling", *dicts)
    vc.ensure("no-exception", out.kind == "ret")
    exp = None
    for lvl, k in zip(("channel", "group", "file"), vc.variant):
        if k == "S":
            exp = "scaling-of-" + lvl
            break
    vc.ensure("channel-then-group-then-file", out.value == exp)


# ---------------------------------------------------------------------------- building from properties

def lin_props(vc, i, src=None, tag=""):
    p = {"NI_Scale[%d]_Scale_Type" % i: "Linear", "NI_Scale[%d]_Linear_Slope" % i: vc.real("m%d%s" % (i, tag)),
         "NI_Scale[%d]_Linear_Y_Intercept" % i: vc.real("b%d%s" % (i, tag))}
    if src is not None:
        p["NI_Scale[%d]_Linear_Input_Source" % i] = src
    return p


BUILD = ["linear", "linear-no-source", "polynomial", "polynomial-default-size", "table", "add", "subtract",
         "advanced", "status-scaled", "status-scaled-but-unscaled-group", "zero-scales", "no-scales",
         "inferred-count", "unknown-type", "daqmx-scaler", "rtd", "thermistor", "strain", "thermocouple"]


@harness("channel_scaling_build", ["scaling._get_channel_scaling", "scaling._get_number_of_scalings",
                                   "scaling.LinearScaling.from_properties", "scaling.PolynomialScaling.from_properties",
                                   "scaling.TableScaling.from_properties", "scaling.TableScaling.__init__",
                                   "scaling.AddScaling.from_properties", "scaling.SubtractScaling.from_properties",
                                   "scaling.NoOpScaling.from_properties", "scaling.RtdScaling.from_properties",
                                   "scaling.ThermistorScaling.from_properties", "scaling.StrainScaling.from_properties",
                                   "scaling.MultiScaling.__init__"],
         ["C13", "C17"], variants=[(b, b) for b in BUILD],
         note="each scale type built from a property dictionary with symbolic coefficients: parameters are read "
              "from the property with their name (no swaps), defaults and the status flag are honoured")
def _build(vc):
    k = vc.variant
    st = vc.st
    st.real_floats = True
    p = OrderedDict()
    fn = "scaling._get_channel_scaling"

    def call():
        return vc.call(fn, p)
    if k in ("linear", "linear-no-source"):
        p["NI_Number_Of_Scales"] = 1
        p.update(lin_props(vc, 0, RAW if k == "linear" else None))
        out = call()
        s = out.value.scalings[0]
        vc.ensure("linear/slope-intercept-source", And(s._cls.name == "LinearScaling",
                                                       s.slope == p["NI_Scale[0]_Linear_Slope"],
                                                       s.intercept == p["NI_Scale[0]_Linear_Y_Intercept"],
                                                       s.input_source == RAW))
        vc.ensure("one-scale", len(out.value.scalings) == 1)
        return
    if k in ("polynomial", "polynomial-default-size"):
        p["NI_Number_Of_Scales"] = 1
        p["NI_Scale[0]_Scale_Type"] = "Polynomial"
        n = 3 if k == "polynomial" else 4
        if k == "polynomial":
            p["NI_Scale[0]_Polynomial_Coefficients_Size"] = 3
        cs = [vc.real("c%d" % i) for i in range(n)]
        for i in range(n):
            p["NI_Scale[0]_Polynomial_Coefficients[%d]" % i] = cs[i]
        out = call()
        s = out.value.scalings[0]
        vc.ensure("polynomial/coefficients-in-index-order", len(s.coefficients) == n and
                  vc.interp.truth(And(*[a == b for a, b in zip(s.coefficients, cs)])))
        vc.ensure("polynomial/default-input-is-raw-data", s.input_source == RAW)
        return
    if k == "table":
        p["NI_Number_Of_Scales"] = 1
        p["NI_Scale[0]_Scale_Type"] = "Table"
        pre = [vc.real("pre%d" % i) for i in range(3)]
        sc = [vc.real("sc%d" % i) for i in range(3)]
        p["NI_Scale[0]_Table_Pre_Scaled_Values_Size"] = 3
        p["NI_Scale[0]_Table_Scaled_Values_Size"] = 3
        for i in range(3):
            p["NI_Scale[0]_Table_Pre_Scaled_Values[%d]" % i] = pre[i]
            p["NI_Scale[0]_Table_Scaled_Values[%d]" % i] = sc[i]
        inc = And(sc[0] < sc[1], sc[1] < sc[2])
        dec = And(sc[0] > sc[1], sc[1] > sc[2])
        out = call()
        if out.kind == "exc":
            vc.ensure("table/rejected-only-if-scaled-values-not-monotone", And(out.exc is ValueError, Not(Or(inc, dec))))
            return
        vc.ensure("table/accepted-only-if-monotone", Or(inc, dec))
        s = out.value.scalings[0]
        iv, ov = list(s.input_values.items), list(s.output_values.items)
        vc.ensure("table/interpolation-inputs-increasing", And(iv[0] < iv[1], iv[1] < iv[2]))
        # pairs kept together: (scaled_i, pre_i) in either order
        same = And(*[And(iv[i] == sc[i], ov[i] == pre[i]) for i in range(3)])
        rev = And(*[And(iv[i] == sc[2 - i], ov[i] == pre[2 - i]) for i in range(3)])
        vc.ensure("table/scaled-and-pre-scaled-values-stay-paired", Or(same, rev))
        return
    if k in ("add", "subtract"):
        name = "Add" if k == "add" else "Subtract"
        p["NI_Number_Of_Scales"] = 3
        p.update(lin_props(vc, 0, RAW))
        p.update(lin_props(vc, 1, RAW))
        p["NI_Scale[2]_Scale_Type"] = name
        p["NI_Scale[2]_%s_Left_Operand_Input_Source" % name] = 0
        p["NI_Scale[2]_%s_Right_Operand_Input_Source" % name] = 1
        out = call()
        s = out.value.scalings[2]
        vc.ensure("%s/operands" % k, s._cls.name == name + "Scaling" and s.left_input_source == 0
                  and s.right_input_source == 1)
        return
    if k == "advanced":
        p["NI_Number_Of_Scales"] = 1
        p["NI_Scale[0]_Scale_Type"] = "AdvancedAPI"
        out = call()
        vc.ensure("advanced-api-is-a-no-op-on-raw-data", out.value.scalings[0]._cls.name == "NoOpScaling"
                  and out.value.scalings[0].input_source == RAW)
        return
    if k == "status-scaled":
        p["NI_Number_Of_Scales"] = 1
        p.update(lin_props(vc, 0, RAW))
        p["NI_Scaling_Status"] = "scaled"
        out = call()
        vc.ensure("already-scaled-data-is-left-alone", out.kind == "ret" and out.value is None)
        return
    if k == "status-scaled-but-unscaled-group":
        ch = OrderedDict([("NI_Scaling_Status", "scaled"), ("NI_Number_Of_Scales", 1)])
        ch.update(lin_props(vc, 0, RAW, "c"))
        grp = OrderedDict([("NI_Number_Of_Scales", 1)])
        grp.update(lin_props(vc, 0, RAW, "g"))
        out = vc.call("scaling.get_scaling", ch, grp, {})
        vc.ensure("scaled-channel-falls-through-to-a-scaling-in-scope-on-the-group",
                  out.kind == "ret" and out.value is not None and
                  vc.interp.truth(out.value.scalings[0].slope == grp["NI_Scale[0]_Linear_Slope"]))
        return
    if k == "zero-scales":
        p["NI_Number_Of_Scales"] = 0
        out = call()
        vc.ensure("zero-scales-is-no-scaling", out.value is None)
        return
    if k == "no-scales":
        p["other"] = 1
        out = call()
        vc.ensure("no-scale-properties-is-no-scaling", out.value is None)
        return
    if k == "inferred-count":
        p.update(lin_props(vc, 0, RAW))
        p.update(lin_props(vc, 2, 0))
        out = call()
        vc.ensure("count-inferred-as-1+max-index", len(out.value.scalings) == 3)
        vc.ensure("gaps-are-daqmx-scalers", out.value.scalings[1]._cls.name == "DaqMxScalerScaling"
                  and out.value.scalings[1].scale_id == 1)
        return
    if k == "unknown-type":
        p["NI_Number_Of_Scales"] = 1
        p["NI_Scale[0]_Scale_Type"] = "Mystery"
        out = call()
        vc.ensure("unknown-scale-type-is-no-scaling", out.kind == "ret" and out.value is None)
        return
    if k == "daqmx-scaler":
        p["NI_Number_Of_Scales"] = 2
        p.update(lin_props(vc, 1, 0))
        out = call()
        vc.ensure("scale-without-type-reads-the-daqmx-scaler-with-its-index",
                  out.value.scalings[0]._cls.name == "DaqMxScalerScaling" and out.value.scalings[0].scale_id == 0)
        return
    names = {"rtd": ("RTD", ["RTD_Current_Excitation", "RTD_R0_Nominal_Resistance", "RTD_A", "RTD_B", "RTD_C",
                             "RTD_Lead_Wire_Resistance", "RTD_Resistance_Configuration", "RTD_Input_Source"],
                     ["current_excitation", "r0_nominal_resistance", "a", "b", "c", "lead_wire_resistance",
                      "resistance_configuration", "input_source"]),
             "thermistor": ("Thermistor", ["Thermistor_Excitation_Type", "Thermistor_Excitation_Value",
                                           "Thermistor_Resistance_Configuration", "Thermistor_R1_Reference_Resistance",
                                           "Thermistor_Lead_Wire_Resistance", "Thermistor_A", "Thermistor_B",
                                           "Thermistor_C", "Thermistor_Temperature_Offset", "Thermistor_Input_Source"],
                            ["excitation_type", "excitation_value", "resistance_configuration",
                             "r1_reference_resistance", "lead_wire_resistance", "a", "b", "c", "temperature_offset",
                             "input_source"]),
             "strain": ("Strain", ["Strain_Configuration", "Strain_Poisson_Ratio", "Strain_Gage_Resistance",
                                   "Strain_Lead_Wire_Resistance", "Strain_Initial_Bridge_Voltage", "Strain_Gage_Factor",
                                   "Strain_Bridge_Shunt_Calibration_Gain_Adjustment", "Strain_Voltage_Excitation",
                                   "Strain_Input_Source"],
                        ["configuration", "poisson_ratio", "gage_resistance", "lead_wire_resistance",
                         "initial_bridge_voltage", "gage_factor", "gain_adjustment", "voltage_excitation",
                         "input_source"])}
    if k in names:
        typ, keys, attrs = names[k]
        p["NI_Number_Of_Scales"] = 1
        p["NI_Scale[0]_Scale_Type"] = typ
        vals = [vc.real("p%d" % i) for i in range(len(keys))]
        for kk, v in zip(keys, vals):
            p["NI_Scale[0]_" + kk] = v
        out = call()
        vc.ensure("no-exception", out.kind == "ret")
        s = out.value.scalings[0]
        for a, v, kk in zip(attrs, vals, keys):
            vc.ensure("%s/%s-read-from-%s" % (k, a, kk), getattr(s, a) == v)
        return
    if k == "thermocouple":
        p["NI_Number_Of_Scales"] = 1
        p["NI_Scale[0]_Scale_Type"] = "Thermocouple"
        out = call()
        s = out.value.scalings[0]
        vc.ensure("thermocouple-defaults: type J, voltage->temperature, raw input",
                  s.thermocouple is vc.interp.get("thermocouples.type_j") and s.scaling_direction == 0
                  and s.input_source == RAW)
        return


# ---------------------------------------------------------------------------- dataflow evaluation

class Op(object):
    """symbolic scale operation: scale(x) = F_k(x) uninterpreted, so only the wiring is compared"""

    def __init__(self, k, src):
        self.k = k
        self.input_source = src

    def scale(self, data):
        F = z3.Function("F%d" % self.k, z3.RealSort(), z3.RealSort())
        return ListArr([SymReal(F(z3real(e))) for e in data.items], "float64")


def spec_eval(graph, i, raw, scalers):
    """dataflow evaluation (property statement): the output of scale i"""
    if i == RAW:
        return raw
    kind = graph[i]
    if kind[0] == "op":
        F = z3.Function("F%d" % i, z3.RealSort(), z3.RealSort())
        x = spec_eval(graph, kind[1], raw, scalers)
        return [SymReal(F(z3real(e))) for e in x]
    if kind[0] == "add":
        a, b = spec_eval(graph, kind[1], raw, scalers), spec_eval(graph, kind[2], raw, scalers)
        return [x + y for x, y in zip(a, b)]
    if kind[0] == "sub":
        a, b = spec_eval(graph, kind[1], raw, scalers), spec_eval(graph, kind[2], raw, scalers)
        return [y - x for x, y in zip(a, b)]          # right - left: the convention of the Excel TDMS plug-in
    if kind[0] == "daqmx":
        return scalers[i]
    raise ValueError(kind)


GRAPHS = {
    "chain": [("op", RAW), ("op", 0), ("op", 1)],
    "two-read-raw-then-add": [("op", RAW), ("op", RAW), ("add", 0, 1)],
    "subtract": [("op", RAW), ("op", 0), ("sub", 0, 1)],
    "diamond": [("op", RAW), ("op", 0), ("op", 0), ("add", 1, 2), ("op", 3)],
    "unused-scale": [("op", RAW), ("op", RAW), ("op", 0)],
    "single": [("op", RAW)],
    "daqmx": [("daqmx",), ("daqmx",), ("op", 1), ("add", 0, 2)],
    "add-raw-twice": [("add", RAW, RAW)],
}


@harness("multi_scaling_eval", ["scaling.MultiScaling.scale", "scaling.MultiScaling._compute_scaled_data",
                                "scaling.AddScaling.scale", "scaling.SubtractScaling.scale",
                                "scaling.DaqMxScalerScaling.scale_daqmx"], ["C13", "C11"],
         variants=[(g, g) for g in sorted(GRAPHS)], level="shape-bounded",
         bound="8 wirings (chains, several scales reading the raw data, diamond, unused scale, DAQmx scalers); "
               "every scale's formula is an uninterpreted function, data a vector of arbitrary reals")
def _multi(vc):
    g = GRAPHS[vc.variant]
    it = vc.interp
    scalings = []
    for i, node in enumerate(g):
        if node[0] == "op":
            scalings.append(Op(i, node[1]))
        elif node[0] == "add":
            scalings.append(it.instantiate(it.get("scaling.AddScaling"), [node[1], node[2]], {}))
        elif node[0] == "sub":
            scalings.append(it.instantiate(it.get("scaling.SubtractScaling"), [node[1], node[2]], {}))
        else:
            scalings.append(it.instantiate(it.get("scaling.DaqMxScalerScaling"), [i], {}))
    ms = it.instantiate(it.get("scaling.MultiScaling"), [scalings], {})
    uses_daqmx = any(n[0] == "daqmx" for n in g)
    raw = rdata(vc, 2)
    scalers = {i: rdata(vc, 2, "s%d_" % i) for i, n in enumerate(g) if n[0] == "daqmx"}
    chunk = raw_chunk(vc, None if uses_daqmx else raw, scalers if uses_daqmx else None)
    out = vc.call_method(ms, "scale", chunk)
    vc.ensure("no-exception", out.kind == "ret")
    if out.kind != "ret":
        return
    exp = spec_eval(g, len(g) - 1, list(raw.items), {i: list(s.items) for i, s in scalers.items()})
    got = list(out.value.items)
    vc.ensure("output-is-the-last-scale-of-the-dataflow-graph",
              len(got) == len(exp) and vc.interp.truth(And(*[a == b for a, b in zip(got, exp)])))
    no_purity_violation(vc)


# ---------------------------------------------------------------------------- formulas

def _replay_formulas(md, vparam, model, st):
    src = {"linear": "LinearScaling(%r, %r, 0xFFFFFFFF)" % (model_num(md.get("b"), 1.5), model_num(md.get("m"), 2.0)),
           "poly3": "PolynomialScaling([1.0, 2.0, 3.0], 0xFFFFFFFF)",
           "poly0": "PolynomialScaling([], 0xFFFFFFFF)"}.get(vparam)
    if src is None:
        return None
    return purity_replay(src, "scaling.%s.scale" % src.split("(")[0])


@harness("structural_formulas", ["scaling.LinearScaling.scale", "scaling.PolynomialScaling.scale",
                                 "scaling.TableScaling.scale", "scaling.NoOpScaling.scale"], ["C13", "C17"],
         replay=_replay_formulas,
         variants=[("linear", "linear"), ("polynomial-3", "poly3"), ("polynomial-0", "poly0"), ("table", "table"),
                   ("noop", "noop")],
         note="over the reals: Linear x*m+b, Polynomial = Horner with ascending coefficients, Table = clamped "
              "piecewise-linear interpolation, on a vector of arbitrary reals")
def _formulas(vc):
    k = vc.variant
    it = vc.interp
    vc.st.real_floats = True
    x = rdata(vc, 2)
    if k == "linear":
        m, b = vc.real("m"), vc.real("b")
        s = it.instantiate(it.get("scaling.LinearScaling"), [b, m, RAW], {})
        out = vc.call_method(s, "scale", x)
        vc.ensure("linear: x*slope+intercept", vc.interp.truth(And(*[r == e * m + b for r, e in zip(out.value.items, x.items)])))
    elif k == "poly3":
        cs = [vc.real("c%d" % i) for i in range(3)]
        s = it.instantiate(it.get("scaling.PolynomialScaling"), [cs, RAW], {})
        out = vc.call_method(s, "scale", x)
        vc.ensure("polynomial: c0 + c1 x + c2 x^2",
                  vc.interp.truth(And(*[r == cs[0] + cs[1] * e + cs[2] * e * e for r, e in zip(out.value.items, x.items)])))
    elif k == "poly0":
        s = it.instantiate(it.get("scaling.PolynomialScaling"), [[], RAW], {})
        out = vc.call_method(s, "scale", x)
        vc.ensure("polynomial-without-coefficients-is-zero", out.kind == "ret" and len(out.value) == 2
                  and all(float(v) == 0.0 for v in out.value))
    elif k == "table":
        xs = [vc.real("in%d" % i) for i in range(3)]
        ys = [vc.real("out%d" % i) for i in range(3)]
        vc.assume(And(xs[0] < xs[1], xs[1] < xs[2]))
        s = vc.new("scaling.TableScaling", input_values=ListArr(xs, "float64"), output_values=ListArr(ys, "float64"),
                   input_source=RAW)
        out = vc.call_method(s, "scale", x)
        for r, e in zip(out.value.items, x.items):
            vc.ensure("table: clamped-below", Implies(e <= xs[0], r == ys[0]))
            vc.ensure("table: clamped-above", Implies(e >= xs[2], r == ys[2]))
            vc.ensure("table: linear-on-first-interval",
                      Implies(And(e >= xs[0], e < xs[1]), (r - ys[0]) * (xs[1] - xs[0]) == (e - xs[0]) * (ys[1] - ys[0])))
            vc.ensure("table: linear-on-second-interval",
                      Implies(And(e >= xs[1], e < xs[2]), (r - ys[1]) * (xs[2] - xs[1]) == (e - xs[1]) * (ys[2] - ys[1])))
    else:
        s = it.instantiate(it.get("scaling.NoOpScaling"), [RAW], {})
        out = vc.call_method(s, "scale", x)
        vc.ensure("noop-returns-its-input", out.value is x)
    vc.ensure("no-exception", out.kind == "ret")
    no_purity_violation(vc)


# ---------------------------------------------------------------------------- dtype of scaled data (C14)

SOD_KINDS = ("linear", "poly3", "table", "noop", "rtd", "thermistor", "strain", "thermocouple", "add", "subtract")
SOD_VARIANTS = [("%s,%s" % (k, d), (k, d)) for k in SOD_KINDS for d in ("int16", "float32", "float64")]


def _setup_sod(interp):
    _setup_rtd(interp)


def model_num(x, default):
    """model value of a real leaf (int, [num, den] or text) as a float"""
    try:
        if isinstance(x, (list, tuple)) and len(x) == 2:
            return float(x[0]) / float(x[1])
        if isinstance(x, bool) or x is None:
            return default
        return float(__import__("fractions").Fraction(str(x)))
    except Exception:
        return default


def purity_replay(ctor_src, function):
    """replay for the FRAME clause 'raw data not modified': build the scale with plausible parameters, scale a
    float64 array (the case in which astype(copy=False) aliases the input) and compare the input before/after"""
    script = """
import sys
import numpy as np
from nptdms import scaling
from nptdms.scaling import *
s = %s
x = np.array([0.00012, 0.00034, -0.0002, 0.0005], dtype=np.float64)
before = x.copy()
with np.errstate(all="ignore"):
    try:
        r = s.scale(x)
    except Exception as e:
        print("scale raised", repr(e)); sys.exit(0)
print("input before", before, "after", x)
sys.exit(0 if np.array_equal(before, x, equal_nan=True) else 1)
""" % ctor_src
    return {"script": script, "function": function}


def _replay_sod(md, vparam, model, st):
    kind, dt = vparam
    if kind != "linear":
        return None

    num = model_num
    m, b = num(md.get("m"), 1.0), num(md.get("b"), 0.0)
    script = """
import sys
import numpy as np
from nptdms.scaling import LinearScaling
s = LinearScaling(%r, %r, 0xFFFFFFFF)
x = np.array([1, 2], dtype=%r)
r = s.scale(x)
print("slope", %r, "intercept", %r, "input dtype", x.dtype, "-> output dtype", r.dtype)
sys.exit(0 if r.dtype == np.dtype("float64") else 1)
""" % (b, m, dt, m, b)
    return {"script": script, "function": "scaling.LinearScaling.scale"}


@harness("scale_output_dtype", ["scaling.LinearScaling.scale", "scaling.PolynomialScaling.scale",
                                "scaling.TableScaling.scale", "scaling.NoOpScaling.scale", "scaling.RtdScaling.scale",
                                "scaling.ThermistorScaling.scale", "scaling.StrainScaling.scale",
                                "scaling.ThermocoupleScaling.scale", "scaling.AddScaling.scale",
                                "scaling.SubtractScaling.scale"], ["C14", "C13"], variants=SOD_VARIANTS, setup=_setup_sod,
         replay=_replay_sod,
         note="the array a scale returns has the dtype MultiScaling._compute_scale_dtype declares for it (double; "
              "the input's for NoOp; NumPy's result_type for Add/Subtract) for int16 / float32 / float64 input and "
              "every parameter value, including the identity Linear scale")
def _scale_output_dtype(vc):
    kind, dt = vc.variant
    it = vc.interp
    st = vc.st
    st.real_floats = True
    mk = (lambda n: vc.int(n)) if dt == "int16" else (lambda n: vc.real(n))
    x = ListArr([mk("x0"), mk("x1")], dt)
    x.alias = "input"
    F64 = np.dtype("float64")
    expect = F64
    if kind == "linear":
        s = it.instantiate(it.get("scaling.LinearScaling"), [vc.real("b"), vc.real("m"), RAW], {})
        out = vc.call_method(s, "scale", x)
    elif kind == "poly3":
        s = it.instantiate(it.get("scaling.PolynomialScaling"), [[vc.real("c%d" % i) for i in range(3)], RAW], {})
        out = vc.call_method(s, "scale", x)
    elif kind == "table":
        xs = [vc.real("in%d" % i) for i in range(3)]
        ys = [vc.real("out%d" % i) for i in range(3)]
        vc.assume(And(xs[0] < xs[1], xs[1] < xs[2]))
        s = vc.new("scaling.TableScaling", input_values=ListArr(xs, "float64"), output_values=ListArr(ys, "float64"),
                   input_source=RAW)
        out = vc.call_method(s, "scale", x)
    elif kind == "noop":
        s = it.instantiate(it.get("scaling.NoOpScaling"), [RAW], {})
        out = vc.call_method(s, "scale", x)
        expect = np.dtype(dt)
    elif kind == "rtd":
        I, R0, A, B, C, RL = [vc.real(n) for n in ("I", "R0", "A", "B", "C", "RL")]
        vc.assume(And(I > 0, R0 > 0, RL >= 0))
        T = vc.real("T")
        vc.assume(T < 0)                 # polyroots (assumed contract) delivers a negative real root: the dtype
        st.ghost["rtd_true_T"] = T       # obligation is about the array the code builds from it, not its value
        st.ghost["rtd_dtype_only"] = True
        s = it.instantiate(it.get("scaling.RtdScaling"), [I, R0, A, B, C, RL, 3, RAW], {})
        out = vc.call_method(s, "scale", x)
    elif kind == "thermistor":
        EV, R1, RL, a, b, c, off = [vc.real(n) for n in ("excitation", "R1", "RL", "a", "b", "c", "offset")]
        vc.assume(And(EV > 0, R1 > 0, RL >= 0))
        s = it.instantiate(it.get("scaling.ThermistorScaling"), [10134, EV, 3, R1, RL, a, b, c, off, RAW], {})
        out = vc.call_method(s, "scale", x)
    elif kind == "strain":
        nu, RG, RL, Vinit, G, gain, Vex = [vc.real(n) for n in ("nu", "RG", "RL", "Vinit", "G", "gain", "Vex")]
        vc.assume(And(G > 0, Vex > 0, gain > 0, RG > 0, RL >= 0))
        s = it.instantiate(it.get("scaling.StrainScaling"), [BRIDGES["QUARTER_BRIDGE_1"], nu, RG, RL, Vinit, G, gain,
                                                             Vex, RAW], {})
        out = vc.call_method(s, "scale", x)
    elif kind == "thermocouple":
        props = {"NI_Scale[0]_Thermocouple_Thermocouple_Type": 10073, "NI_Scale[0]_Thermocouple_Scaling_Direction": 0,
                 "NI_Scale[0]_Thermocouple_Input_Source": RAW}
        cls = it.get("scaling.ThermocoupleScaling")
        s = vc.call(it.getattr_value(cls, "from_properties"), props, 0).value
        FN = z3.Function("TCF", z3.RealSort(), z3.RealSort())

        def elementwise(i, f, a, k):
            arr = a[1]
            # contract of Thermocouple.mv_to_celsius / celsius_to_mv (harness thermocouple_eval): a new array of
            # doubles for double input (np.zeros + masked assignment of polyval results)
            vc.st.check("call-pre/thermocouple-conversion-gets-double-data", arr.dtype_ == F64, kind="call-pre")
            return ListArr([SymReal(FN(z3real(e))) for e in arr.items], "float64")
        it.contracts_at_calls["nptdms.thermocouples:Thermocouple.celsius_to_mv"] = elementwise
        it.contracts_at_calls["nptdms.thermocouples:Thermocouple.mv_to_celsius"] = elementwise
        out = vc.call_method(s, "scale", x)
    else:
        cls = "scaling.AddScaling" if kind == "add" else "scaling.SubtractScaling"
        s = it.instantiate(it.get(cls), [0, 1], {})
        y = ListArr([vc.real("y0"), vc.real("y1")], "float32")
        out = vc.call_method(s, "scale", x, y)
        expect = np.result_type(np.dtype(dt), np.dtype("float32"))
    vc.ensure("no-exception", out.kind == "ret")
    if out.kind != "ret":
        return
    got = out.value.dtype_ if isinstance(out.value, ListArr) else getattr(out.value, "dtype", None)
    vc.ensure("scaled-array-has-the-declared-dtype(%s)" % expect, got is not None and np.dtype(got) == expect)
    vc.ensure("length-preserved", len(out.value) == 2)


# ---------------------------------------------------------------------------- sensor laws (C17)

def _setup_rtd(interp):
    import numpy.polynomial.polynomial as npoly

    class Root(object):
        def __init__(self, re):
            self.real = re

    def polyroots(interp_, coeffs):
        """assumed contract of numpy polyroots: returns the roots of sum c[i] x^i.  The harness supplies the
        true temperature as the candidate and obliges the code's polynomial to vanish there; uniqueness of the
        negative real root is the physical precondition under which the code does not raise."""
        from pyvc.models import trusted
        trusted("numpy.polynomial.polynomial.polyroots returns the complex roots of the polynomial with the given "
                "ascending coefficients")
        st = sym.get_state()
        T = st.ghost["rtd_true_T"]
        cs = list(interp_.iterate(coeffs))
        val = cs[-1]
        for c in reversed(cs[:-1]):
            val = val * T + c
        if not st.ghost.get("rtd_dtype_only"):
            st.check("rtd/true-temperature-is-a-root-of-the-quartic-the-code-builds", val == 0, kind="ensures")
            st.check("rtd/quartic-has-five-coefficients", len(cs) == 5, kind="ensures")
        return [Root(T)]
    interp.models[npoly.polyroots] = polyroots
    interp.models[np.iscomplex] = lambda i, r: False


RTD_VARIANTS = [("%d-wire" % w, w) for w in (2, 3, 4)]


@harness("rtd_inverts_callendar_van_dusen", ["scaling.RtdScaling.scale", "scaling.RtdScaling._solve_quartic_form",
                                             "scaling.RtdScaling._get_negative_real_root",
                                             "scaling._adjust_for_lead_resistance"], ["C17", "C13"],
         variants=RTD_VARIANTS, setup=_setup_rtd,
         note="over the reals; element 0 of the data is a temperature T0 >= 0 (quadratic branch), element 1 a "
              "temperature T1 < 0 (quartic branch); parameters symbolic with the physical sign conditions")
def _rtd(vc):
    wires = vc.variant
    st = vc.st
    st.real_floats = True
    it = vc.interp
    I, R0, A, B, C, RL = [vc.real(n) for n in ("I", "R0", "A", "B", "C", "RL")]
    T0, T1 = vc.real("T0"), vc.real("T1")
    vc.assume(And(I > 0, R0 > 0, A > 0, B < 0, C < 0, RL >= 0, T0 >= 0, T1 < 0, T1 > -300))
    vc.assume(A + 2 * B * T0 > 0)                       # R increasing on the range (physical RTD)
    k = {2: 2, 3: 1, 4: 0}[wires]

    def R(T, neg):
        base = 1 + A * T + B * T * T
        if neg:
            base = base + C * (T - 100) * T * T * T
        return R0 * base
    # for T < 0 the law gives a resistance below R0 (physical; needed for the code to choose the quartic)
    vc.assume(R(T1, True) < R0)
    V = ListArr([I * (R(T0, False) + k * RL), I * (R(T1, True) + k * RL)], "float64")
    V.alias = "input"
    st.ghost["rtd_true_T"] = T1
    s = it.instantiate(it.get("scaling.RtdScaling"), [I, R0, A, B, C, RL, wires, RAW], {})
    out = vc.call_method(s, "scale", V)
    vc.ensure("no-exception", out.kind == "ret")
    if out.kind != "ret":
        return
    vc.ensure("T>=0: quadratic-branch-returns-the-temperature", out.value.items[0] == T0)
    vc.ensure("T<0: quartic-branch-returns-the-negative-real-root-(the temperature)", out.value.items[1] == T1)
    no_purity_violation(vc)


TH_VARIANTS = [("%s,%d-wire" % (e, w), (e, w)) for e in ("current", "voltage") for w in (2, 3, 4)]


@harness("thermistor_inverts_steinhart_hart", ["scaling.ThermistorScaling.scale", "scaling._adjust_for_lead_resistance"],
         ["C17"], variants=TH_VARIANTS,
         note="over the reals with ln uninterpreted (congruence only): the resistance recovered from the voltage "
              "is the thermistor's, hence the temperature is Steinhart-Hart's")
def _thermistor(vc):
    exc, wires = vc.variant
    st = vc.st
    st.real_floats = True
    it = vc.interp
    EV, R1, RL, a, b, c, off, R = [vc.real(n) for n in ("excitation", "R1", "RL", "a", "b", "c", "offset", "R")]
    vc.assume(And(EV > 0, R1 > 0, RL >= 0, R > 0))
    CUR, VOLT = 10134, 10322
    if exc == "current":
        k = {2: 2, 3: 1, 4: 0}[wires]
        V = EV * (R + k * RL)
        etype = CUR
    else:
        k = {2: 0, 3: 1, 4: 0}[wires]          # NI compensates the 2-wire lead resistance only with current excitation
        Rm = R + k * RL
        V = EV * Rm / (R1 + Rm)
        etype = VOLT
    data = ListArr([V], "float64")
    data.alias = "input"
    s = it.instantiate(it.get("scaling.ThermistorScaling"), [etype, EV, wires, R1, RL, a, b, c, off, RAW], {})
    LN = z3.Function("LN", z3.RealSort(), z3.RealSort())
    L = SymReal(LN(R.e))
    denom = a + b * L + c * L * L * L
    vc.assume(Not(denom == 0))
    out = vc.call_method(s, "scale", data)
    vc.ensure("no-exception", out.kind == "ret")
    if out.kind != "ret":
        return
    vc.ensure("temperature-is-1/(a + b lnR + c lnR^3) - offset", out.value.items[0] * denom == 1 - off * denom)
    no_purity_violation(vc)


@harness("thermistor_bad_excitation", "scaling.ThermistorScaling.scale", ["C17"])
def _thermistor_bad(vc):
    it = vc.interp
    vc.st.real_floats = True
    s = it.instantiate(it.get("scaling.ThermistorScaling"), [1, 1.0, 2, 1.0, 0.0, 1.0, 1.0, 1.0, 0.0, RAW], {})
    out = vc.call_method(s, "scale", rdata(vc, 1))
    vc.ensure("unknown-excitation-type-is-an-error", out.raised(ValueError))


BRIDGES = {"FULL_BRIDGE_1": 10183, "FULL_BRIDGE_2": 10184, "FULL_BRIDGE_3": 10185, "HALF_BRIDGE_1": 10188,
           "HALF_BRIDGE_2": 10189, "QUARTER_BRIDGE_1": 10271, "QUARTER_BRIDGE_2": 10272}


def bridge_output(cfg, e, G, nu):
    """Wheatstone bridge Vo/Vex = R3/(R3+R4) - R2/(R1+R2) with the resistor assignments of NI's bridge types
    (R0 cancels); e = strain, G = gauge factor, nu = Poisson ratio"""
    one = 1
    if cfg == "FULL_BRIDGE_1":
        R1 = R3 = one - e * G
        R2 = R4 = one + e * G
    elif cfg == "FULL_BRIDGE_2":
        R1, R2, R3, R4 = one - e * nu * G, one + e * nu * G, one - e * G, one + e * G
    elif cfg == "FULL_BRIDGE_3":
        R1 = R3 = one - e * nu * G
        R2 = R4 = one + e * G
    elif cfg == "HALF_BRIDGE_1":
        R1 = R2 = one
        R3, R4 = one - e * nu * G, one + e * G
    elif cfg == "HALF_BRIDGE_2":
        R1 = R2 = one
        R3, R4 = one - e * G, one + e * G
    else:
        R1 = R2 = R3 = one
        R4 = one + e * G
    return (R3, R4, R2, R1)


def _replay_strain(md, vparam, model, st):
    return purity_replay("StrainScaling(%d, 0.3, 350.0, 1.5, 0.0001, 2.1, 1.0, 2.5, 0xFFFFFFFF)" % BRIDGES[vparam],
                         "scaling.StrainScaling.scale")


@harness("strain_inverts_wheatstone_bridge", "scaling.StrainScaling.scale", ["C17", "C13"],
         variants=[(k, k) for k in sorted(BRIDGES)], replay=_replay_strain,
         note="over the reals: the voltage a bridge of the configured type puts out for strain e (plus the initial "
              "bridge voltage) scales back to e times NI's gain and lead-wire corrections")
def _strain(vc):
    cfg = vc.variant
    st = vc.st
    st.real_floats = True
    it = vc.interp
    e, G, nu, Vex, Vinit, gain, RG, RL = [vc.real(n) for n in ("strain", "G", "nu", "Vex", "Vinit", "gain", "RG", "RL")]
    vc.assume(And(G > 0, nu >= 0, nu < 1, Vex > 0, gain > 0, RG > 0, RL >= 0, e * G > -1, e * G < 1))
    (R3, R4, R2, R1) = bridge_output(cfg, e, G, nu)
    ratio = vc.real("ratio")                     # Vo/Vex by the bridge equation
    vc.assume(ratio * (R3 + R4) * (R1 + R2) == R3 * (R1 + R2) - R2 * (R3 + R4))
    Vo = ratio * Vex + Vinit
    data = ListArr([Vo], "float64")
    data.alias = "input"
    s = it.instantiate(it.get("scaling.StrainScaling"), [BRIDGES[cfg], nu, RG, RL, Vinit, G, gain, Vex, RAW], {})
    out = vc.call_method(s, "scale", data)
    vc.ensure("no-exception", out.kind == "ret")
    if out.kind != "ret":
        return
    lead = 1 if cfg.startswith("FULL") else (1 + RL / RG)
    vc.ensure("returns-the-strain(times gain adjustment and lead-wire correction)",
              out.value.items[0] == e * gain * lead)
    no_purity_violation(vc)


@harness("strain_unknown_configuration", "scaling.StrainScaling.scale", ["C17"])
def _strain_bad(vc):
    it = vc.interp
    vc.st.real_floats = True
    s = it.instantiate(it.get("scaling.StrainScaling"), [1, 0.3, 350.0, 0.0, 0.0, 2.0, 1.0, 2.5, RAW], {})
    out = vc.call_method(s, "scale", rdata(vc, 1))
    vc.ensure("unsupported-configuration-is-an-error", out.kind == "exc")
