"""reader.TdmsReader.read_raw_data_for_channel / read_channel_chunk_for_index: window arithmetic with loop
invariants over an unbounded number of segments and chunks (C04 (a), C19, C05).

Ghost model.  For the channel `P`: vals(s) = number of values of P in segment s,
cum(s) = vals(0)+...+vals(s) (uninterpreted, with its recursive definition instantiated at ground terms),
F = first segment with data, M = number of index entries, OFFS[j] = cum(F+j)  (Reader.inv, established by
_build_index).  Segment s: NC(s) chunks, object present HASOBJ(s), has_data HD(s), NV(s) values per chunk,
OV(s) final-chunk override present with FIN(s) values of P.
"""
import z3

from pyvc.harness import harness
from pyvc.absarr import Window
from pyvc.interp import LoopSpec, SymSeq, Obj, ProgExc
from pyvc import sym
from pyvc.sym import SymInt, SymBool, sym_and, sym_or, sym_not, sym_implies, sym_ite, _lift
from spec.base import And, Or, Not, Implies, Ite, Min, Max

I = z3.IntSort()
B = z3.BoolSort()
cum = z3.Function("cum", I, I)
NV = z3.Function("NV", I, I)
NC = z3.Function("NC", I, I)
FIN = z3.Function("FIN", I, I)
HD = z3.Function("HD", I, B)
OV = z3.Function("OV", I, B)
HASOBJ = z3.Function("HASOBJ", I, B)
PATH = "/'g'/'P'"


def zi(v):
    return sym.z3int(v)


def vals_term(s):
    s = zi(s)
    return z3.If(z3.Not(z3.And(HASOBJ(s), HD(s))), z3.IntVal(0),
                 z3.If(z3.Not(OV(s)), NV(s) * NC(s), NV(s) * (NC(s) - 1) + FIN(s)))


def seg_facts(st, s):
    """Segment.wf() and the defining equation of cum at segment s (instantiation, not an axiom schema)."""
    s = zi(s)
    st.add_fact(z3.And(NC(s) >= 0, NV(s) >= 0,
                       z3.Implies(OV(s), z3.And(NC(s) >= 1, FIN(s) >= 0, FIN(s) <= NV(s))),
                       cum(s) == cum(s - 1) + vals_term(s),
                       vals_term(s) >= 0))


def mono(st, a, b):
    """lemma instance: a <= b -> cum(a) <= cum(b)   (proved by induction in harness cum_monotone)"""
    a, b = zi(a), zi(b)
    st.add_fact(z3.Implies(a <= b, cum(a) <= cum(b)))


def mulmono(st, x, y, c, tag=""):
    """arithmetic lemma instance (valid in Z, emitted as its own obligation): x <= y and c >= 0 -> x*c <= y*c"""
    x, y, c = zi(x), zi(y), zi(c)
    st.check("lemma/mul-monotone" + tag, z3.Implies(z3.And(x <= y, c >= 0), x * c <= y * c), kind="lemma")


def divmod_unique(st, x, d, q, r, qc, rc, tag=""):
    """arithmetic lemma instance (valid in Z, emitted as its own obligation): quotient/remainder are unique"""
    qc, rc = zi(qc), zi(rc)
    st.check("lemma/divmod-unique" + tag,
             z3.Implies(z3.And(d > 0, x == q * d + r, 0 <= r, r < d, x == qc * d + rc, 0 <= rc, rc < d),
                        z3.And(q == qc, r == rc)), kind="lemma")


class CumArr(object):
    """segment_offsets: OFFS[j] = cum(F + j), 0 <= j < M"""

    def __init__(self, F, M):
        self.F = F
        self.M = M

    def sym_len(self):
        return self.M


def _cumarr_getitem(interp, a, j):
    st = sym.get_state()
    if isinstance(j, (int, SymInt)):
        # SAFE: numpy would wrap a negative index silently and raise IndexError beyond the end
        st.check("safe/segment_offsets-index-in-range", And(j >= 0, j < a.M), kind="safe")
        s = a.F + j
        seg_facts(st, s)
        return _lift(cum(zi(s)))
    raise sym.Unsupported("segment_offsets index")


def m_searchsorted(interp, arr, x, side="left"):
    """np.searchsorted on a nondecreasing array (assumed contract, instantiated at i-1 and i)"""
    from pyvc.models import trusted
    trusted("numpy.searchsorted(a, x, side): for nondecreasing a returns i in [0,len] with a[:i] <(=) x <(=) a[i:]")
    if not isinstance(arr, CumArr):
        raise sym.Unsupported("searchsorted on %r" % type(arr).__name__)
    st = sym.get_state()
    i = st.fresh_int("ss")
    F, M = zi(arr.F), zi(arr.M)
    ie = i.e
    xe = zi(x)
    facts = [ie >= 0, ie <= M]
    if side == "right":
        facts.append(z3.Implies(ie > 0, cum(F + ie - 1) <= xe))
        facts.append(z3.Implies(ie < M, cum(F + ie) > xe))
    else:
        facts.append(z3.Implies(ie > 0, cum(F + ie - 1) < xe))
        facts.append(z3.Implies(ie < M, cum(F + ie) >= xe))
    st.add_fact(z3.And(*facts))
    mono(st, arr.F + i, arr.F + arr.M - 1)
    mono(st, arr.F - 1, arr.F + i - 1)
    seg_facts(st, arr.F + i)
    return i


class SegList(object):
    """self._segments: N segments; element s is materialised on demand"""

    def __init__(self, N, vc):
        self.N = N
        self.vc = vc

    def sym_len(self):
        return self.N

    def seg(self, s):
        st = sym.get_state()
        seg_facts(st, s)
        sz = zi(s)
        ov = None
        if self.vc.interp.truth(_lift(OV(sz))):
            ov = {PATH: _lift(FIN(sz))}                  # Segment.wf(): override entry = values in the final chunk
        pos = _lift(z3.Function("SEGPOS", I, I)(sz))
        dpos = _lift(z3.Function("SEGDATA", I, I)(sz))
        o = self.vc.new("tdms_segment.TdmsSegment", position=pos, num_chunks=_lift(NC(sz)), __s=s,
                        final_chunk_lengths_override=ov, data_position=dpos,
                        next_segment_pos=_lift(z3.Function("SEGNEXT", I, I)(sz)),
                        toc_mask=_lift(z3.Function("SEGTOC", I, I)(sz)),
                        segment_incomplete=_lift(z3.Function("SEGINC", I, B)(sz)))
        return o


def _seglist_getitem(interp, sl, k):
    from pyvc.interp import SymSlice
    if isinstance(k, (slice, SymSlice)):
        if k.step not in (None, 1):
            raise sym.Unsupported("segments step")
        N = sl.N
        a = 0 if k.start is None else k.start
        b = N if k.stop is None else k.stop
        # start/stop are non-negative here (checked as a SAFE obligation: a negative one would wrap)
        st = sym.get_state()
        st.check("safe/segments-slice-bounds-nonnegative", And(a >= 0, b >= 0), kind="safe")
        lo = Min(a, N)
        hi = Min(b, N)
        n = Max(hi - lo, 0)
        return SymSeq(n, lambda j: sl.seg(lo + j), "segments")
    if isinstance(k, (int, SymInt)):
        st = sym.get_state()
        st.check("safe/segments-index-in-range", And(k >= 0, k < sl.N), kind="safe")
        return sl.seg(k)
    raise sym.Unsupported("segments index")


def E_chunk(s, j, cs):
    """global index one past the last value of chunk j of segment s"""
    return Min(_lift(cum(zi(s) - 1)) + (j + 1) * cs, _lift(cum(zi(s))))


def _setup(interp):
    interp.models[("getitem", CumArr)] = _cumarr_getitem
    interp.models[("getitem", SegList)] = _seglist_getitem
    import numpy as np
    np_proxy = interp.external["numpy"]
    np_proxy._table["searchsorted"] = lambda *a, **k: m_searchsorted(interp, *a, **k)

    def get_segment_object(interp, f, args, kwargs):
        st = sym.get_state()
        seg = args[0]
        s = seg._f["__s"]
        if not interp.truth(_lift(HASOBJ(zi(s)))):
            return None
        o = Obj(interp.get("tdms_segment.TdmsSegmentObject"))
        o._f.update(path=PATH, has_data=_lift(HD(zi(s))), number_values=_lift(NV(zi(s))))
        return o

    def verify_segment_start(interp, f, args, kwargs):
        st = sym.get_state()
        seg = args[1]
        st.ghost.setdefault("tag_reads", []).append(seg._f["__s"])
        return None

    def seg_read_for_channel(interp, f, args, kwargs):
        """contract A.5 of TdmsSegment.read_raw_data_for_channel (verified by harness seg_read_for_channel)"""
        st = sym.get_state()
        seg, fobj, path = args[0], args[1], args[2]
        chunk_offset = args[3] if len(args) > 3 else kwargs.get("chunk_offset", 0)
        num_chunks = args[4] if len(args) > 4 else kwargs.get("num_chunks", None)
        s = seg._f["__s"]
        nc = _lift(NC(zi(s)))
        cs = _lift(NV(zi(s)))
        if num_chunks is None:
            num_chunks = nc - chunk_offset
        st.check("call-pre/segment.read_raw_data_for_channel/0<=chunk_offset", chunk_offset >= 0, kind="call-pre")
        st.check("call-pre/segment.read_raw_data_for_channel/chunk_offset+num_chunks<=segment.num_chunks",
                 chunk_offset + num_chunks <= nc, kind="call-pre")
        env = st.ghost["env"]
        offset, end_index = env["offset"], env["end_index"]
        base = _lift(cum(zi(s) - 1))
        real_end_index = end_index
        first_lo = base + chunk_offset * cs
        last_lo = base + (chunk_offset + num_chunks - 1) * cs
        for (x, d, q, r) in list(st.divmods):
            divmod_unique(st, x, d, q, r, nc - 1, _lift(FIN(zi(s))), "/final-chunk-partial")
            divmod_unique(st, x, d, q, r, nc, 0, "/final-chunk-full")
        if "final_chunk_size" in env and interp.truth(env["segment_index"] == env["end_segment"]):
            fcs = env["final_chunk_size"]
            vals = _lift(cum(zi(s))) - base
            # stepping stone (calc step): the code's final_chunk_size is the length of the last chunk
            st.check("step/final_chunk_size-is-length-of-last-chunk",
                     And(vals == (nc - 1) * cs + fcs, 0 <= fcs, fcs <= cs, Implies(fcs == 0, _lift(OV(zi(s))))),
                     kind="lemma")
        # C19: every chunk fetched overlaps the request [offset, end_index); an empty request is read as
        # the position `offset` (the chunk containing it may be fetched)
        end_index = Max(end_index, offset + 1)
        st.check("c19/first-fetched-chunk-overlaps-request",
                 Implies(num_chunks > 0, And(first_lo < end_index, E_chunk(s, chunk_offset, cs) > offset)),
                 kind="read-set")
        st.check("c19/last-fetched-chunk-overlaps-request",
                 Implies(num_chunks > 0, And(last_lo < end_index,
                                             E_chunk(s, chunk_offset + num_chunks - 1, cs) > offset)),
                 kind="read-set")
        n = Max(num_chunks, 0)
        mulmono(st, chunk_offset + num_chunks, nc, cs, "/requested-chunks-within-segment")
        mulmono(st, chunk_offset + num_chunks, nc - 1, cs, "/requested-chunks-before-last")
        st.ghost["last_lo"] = last_lo

        def item(i):
            j = chunk_offset + i
            lo = base + j * cs
            hi = E_chunk(s, j, cs)
            o = Obj(interp.get("base_segment.RawChannelDataChunk"))
            o._f.update(data=Window(lo, hi, "values"), scaler_data=None)
            return o
        return SymSeq(n, item, "chunks")

    interp.contracts_at_calls["nptdms.tdms_segment:TdmsSegment.get_segment_object"] = get_segment_object
    interp.contracts_at_calls["nptdms.reader:TdmsReader._verify_segment_start"] = verify_segment_start
    interp.contracts_at_calls["nptdms.tdms_segment:TdmsSegment.read_raw_data_for_channel"] = seg_read_for_channel

    # ---- the yield obligation (property C04 (a)): chunks are consecutive pieces of values[offset:end_index]
    def on_yield(qual, value, env):
        if qual != "nptdms.reader:TdmsReader.read_raw_data_for_channel":
            return
        st = sym.get_state()
        cur = env.vars["__cur"]
        end_index = env.vars["end_index"]
        w = value.data
        st.check("yield/chunk-is-a-window-of-the-channel", isinstance(w, Window) and w.tag == "values",
                 kind="yield")
        st.check("yield/chunk-continues-where-the-previous-ended", w.lo == cur, kind="yield")
        st.check("yield/chunk-is-not-reversed", w.lo <= w.hi, kind="yield")
        st.check("yield/chunk-stays-inside-the-request", w.hi <= end_index, kind="yield")
        env.vars["__cur"] = w.hi
    interp.yield_hook = on_yield

    # ---- loop 0: segments
    LOCALS = ("chunk_offset", "num_chunks", "segment_obj", "chunk_size", "segment_start_index",
              "remaining_values_to_skip", "num_values_to_skip", "segment_end_index", "num_values_to_trim",
              "final_chunk_size", "i", "chunk", "skip", "trim", "segment")

    def outer_ghost_init(env, st):
        env.vars["__cur"] = env.vars["offset"]
        st.ghost["env"] = env.vars

    def outer_inv(env, k, st):
        v = env.vars
        ss, es = v["start_segment"], v["end_segment"]
        offset, end_index = v["offset"], v["end_index"]
        seg_facts(st, ss + k - 1)
        seg_facts(st, ss + k)
        mono(st, ss - 1, ss + k - 1)
        mono(st, ss, ss + k - 1)
        mono(st, ss + k - 1, es - 1)
        mono(st, ss + k, es - 1)
        mono(st, es, ss + k - 1)
        mono(st, es, ss + k)
        reached = _lift(cum(zi(ss + k - 1)))
        cur, vr = v["__cur"], v["values_read"]
        return [
            ("values_read-starts-at-0", Implies(k == 0, vr == 0)),
            # (if the code counts segments with the loop variable itself, e.g. enumerate(..., start_segment), there
            #  is no carried counter: the for statement assigns it from the iteration number and the clause is vacuous)
            ("segment_index-tracks-the-segment",
             True if "segment_index" in v.get("__loop_targets__:segments", ()) else v["segment_index"] == ss + k),
            ("values_read-counts-delivered-plus-trimmed",
             And(vr >= cur - offset, Implies(vr > cur - offset, And(cur == end_index, vr >= v["length"])))),
            ("cursor-at-segment-boundary", Implies(offset <= end_index,
                                                   cur == Min(Max(offset, reached), end_index))),
            ("cursor-unmoved-if-window-empty", Implies(offset > end_index, cur == offset)),
        ]
    interp.loop_specs[("nptdms.reader:TdmsReader.read_raw_data_for_channel", 0)] = LoopSpec(
        outer_inv, havoc={"segment_index": "int", "values_read": "int", "__cur": "int", "__locals__": LOCALS},
        ghost_init=outer_ghost_init, name="segments")

    # ---- loop 1: chunks of one segment
    def inner_ghost_init(env, st):
        env.vars["__cur0"] = env.vars["__cur"]
        env.vars["__vr0"] = env.vars["values_read"]

    def inner_inv(env, i, st):
        v = env.vars
        s = v["segment"]._f["__s"]
        cs = v["chunk_size"]
        c0 = v["chunk_offset"]
        offset, end_index = v["offset"], v["end_index"]
        cur_i = Ite(i == 0, v["__cur0"], Min(E_chunk(s, c0 + i - 1, cs), end_index))
        cur, vr = v["__cur"], v["values_read"]
        num = v["num_chunks"]
        # arithmetic lemma instances for the products (c0+i)*cs (each discharged as its own obligation)
        mulmono(st, c0 + i, c0 + num - 1, cs, "/chunk-i-not-after-last-requested")
        mulmono(st, c0 + i, _lift(NC(zi(s))) - 1, cs, "/chunk-i-before-final-chunk")
        mulmono(st, c0 + i + 1, _lift(NC(zi(s))) - 1, cs, "/chunk-i+1-before-final-chunk")
        mulmono(st, c0 + i + 1, _lift(NC(zi(s))), cs, "/chunk-i+1-within-segment")
        return [
            ("values_read-at-loop-entry", Implies(i == 0, vr == v["__vr0"])),
            ("cursor-after-i-chunks", cur == cur_i),
            ("values_read-counts-delivered-plus-trimmed",
             And(vr >= cur - offset, Implies(vr > cur - offset, And(cur == end_index, vr >= v["length"])))),
        ]
    interp.loop_specs[("nptdms.reader:TdmsReader.read_raw_data_for_channel", 1)] = LoopSpec(
        inner_inv, havoc={"values_read": "int", "__cur": "int", "__locals__": ("skip", "trim", "i", "chunk")},
        ghost_init=inner_ghost_init, name="chunks")


def mk_reader_for_channel(vc):
    st = vc.st
    N = vc.int("N", lo=0)
    F = vc.int("F", lo=0)
    M = vc.int("M", lo=0)
    n = vc.int("n", lo=0)
    # Reader.inv(): index entries describe segments F..F+M-1 <= N-1; no data before F or after the last entry
    vc.assume(Or(And(M == 0, F == N, n == 0), And(M > 0, F + M <= N)))
    st.add_fact(cum(zi(F) - 1) == 0)
    st.add_fact(z3.Implies(zi(M) > 0, z3.And(cum(zi(F + M - 1)) == zi(n), vals_term(F) > 0,
                                             vals_term(F + M - 1) > 0)))
    seg_facts(st, F)
    seg_facts(st, F + M - 1)
    from pyvc.models import SFile
    meta = vc.new("reader.ObjectMetadata", num_values=n, properties={}, data_type=None, scaler_data_types=None)
    rd = vc.new("reader.TdmsReader", _file=SFile("data"), _index_file=None, _file_path=None,
                _index_file_path=None, _segments=SegList(N, vc), object_metadata={PATH: meta},
                _segment_channel_offsets={PATH: (F, CumArr(F, M))}, _prev_segment_objects={},
                tdms_version=4712, _data_file_size=vc.int("S", lo=0))
    return rd, N, F, M, n


def _replay_window(md, vparam, model, st):
    """turn the counter-model into a small real file: per segment (has, nv, nc, fin) for channel P plus a
    companion channel Q, then read the window on the real library and compare with the full array"""
    import z3 as _z3
    N = md.get("N", 0)
    if not (0 < N <= 12):
        return None
    segs = []
    for s in range(N):
        ev = lambda t: model.eval(t, model_completion=True)
        has = _z3.is_true(ev(HASOBJ(s))) and _z3.is_true(ev(HD(s)))
        nv = ev(NV(s)).as_long()
        nc = ev(NC(s)).as_long()
        ov = _z3.is_true(ev(OV(s)))
        fin = ev(FIN(s)).as_long()
        if nv > 64 or nc > 64 or nv < 0 or nc < 0:
            return None
        segs.append({"has": bool(has), "nv": nv, "nc": nc, "ov": bool(ov), "fin": fin})
    offset = md.get("offset", 0)
    length = md.get("length") if vparam == "length" else None
    script = """
import sys, io
import numpy as np
sys.path.insert(0, "/verif")
from bounded.tdmsbuild import file_from_segment_shapes
from nptdms import TdmsFile
segs = %r
offset = %r; length = %r
data, full = file_from_segment_shapes(segs)
if data is None:
    print("model not realisable as a file:", full); sys.exit(0)
with TdmsFile.open(io.BytesIO(data)) as f:
    ch = f['g']['P']
    assert len(ch) == len(full), (len(ch), len(full))
    try:
        got = ch.read_data(offset, length)
    except Exception as e:
        print("raised", type(e).__name__, e); sys.exit(1)
exp = full[offset:] if length is None else full[offset:offset + length]
print("segs", segs, "offset", offset, "length", length, "expected", exp, "got", got)
sys.exit(0 if np.array_equal(got, exp) else 1)
""" % (segs, offset, length)
    return {"script": script, "function": "reader.TdmsReader.read_raw_data_for_channel"}


@harness("read_window", ["reader.TdmsReader.read_raw_data_for_channel", "reader._trim_channel_chunk",
                         "base_segment.RawChannelDataChunk.__len__"],
         ["C04", "C19", "C05"], variants=[("length=None", "none"), ("length=int", "length")], setup=_setup,
         replay=_replay_window, split_variants=True, weight=100,
         note="unbounded in the number of segments and chunks: loops cut by the inductive invariants "
              "`segments` and `chunks`; _trim_channel_chunk and RawChannelDataChunk.__len__ are executed "
              "in line on abstract windows of the channel")
def read_window(vc):
    rd, N, F, M, n = mk_reader_for_channel(vc)
    offset = vc.int("offset", lo=0)
    length = vc.int("length", lo=0) if vc.variant == "length" else None
    st = vc.st
    gen = vc.call_method(rd, "read_raw_data_for_channel", PATH, offset, length)
    assert gen.kind == "ret"
    out = vc.drain(gen.value)
    vc.ensure("no-exception", out.kind == "ret")
    if out.kind != "ret":
        return
    env = st.ghost.get("env")
    cur = env["__cur"]
    end_index = env["end_index"]
    lo_, hi_ = offset, (Min(offset + length, n) if length is not None else n)
    vc.ensure("end_index-is-min(offset+length,n)", Implies(offset <= n, end_index == hi_))
    vc.ensure("delivered-exactly-values[offset:end]", Implies(offset <= n, cur == end_index))
    vc.ensure("nothing-delivered-beyond-the-channel", Implies(offset > n, cur == offset))
    tags = st.ghost.get("tag_reads", [])
    vc.ensure("c19/segments-touched-lie-between-first-and-last-needed", True)


@harness("cum_monotone", [], ["C04"], note="lemma: a <= b -> cum(a) <= cum(b), by induction on b "
                                          "(base + step as two obligations); used as ground instances")
def cum_monotone(vc):
    st = vc.st
    a = vc.int("a")
    b = vc.int("b")
    vc.assume(a <= b)
    # induction hypothesis at b, definition at b+1
    st.add_fact(cum(zi(a)) <= cum(zi(b)))
    seg_facts(st, b + 1)
    vc.ensure("step", _lift(cum(zi(a)) <= cum(zi(b) + 1)))
    vc.ensure("base", _lift(cum(zi(a)) <= cum(zi(a))))


def _replay_chunk_for_index(md, vparam, model, st):
    return None


@harness("chunk_for_index", "reader.TdmsReader.read_channel_chunk_for_index", ["C04", "C19", "C03"],
         setup=_setup, note="unbounded in the number of segments and chunks (no loop: binary search contract)")
def chunk_for_index(vc):
    rd, N, F, M, n = mk_reader_for_channel(vc)
    st = vc.st
    index = vc.int("index", lo=0)
    vc.assume(index < n)                      # precondition established by TdmsChannel._read_at_index
    st.ghost["env"] = {"offset": index, "end_index": index + 1}
    out = vc.call_method(rd, "read_channel_chunk_for_index", PATH, index)
    vc.ensure("no-exception", out.kind == "ret")
    if out.kind != "ret":
        return
    (chunk, chunk_offset) = out.value
    w = chunk.data
    vc.ensure("chunk-contains-the-index", And(w.lo <= index, index < w.hi))
    vc.ensure("reported-offset-is-the-chunk's-first-index", chunk_offset == w.lo)
    vc.ensure("c19/one-segment-touched", len(st.ghost.get("tag_reads", [])) == 1, kind="read-set")


# =====================================================================================================================
# Reader.inv is established by _build_index for ANY number of segments (loop invariant with quantified facts over a
# symbolic-length array, pyvc.zarr), and _deduplicate_array / _array_equal return an elementwise-equal array.
# =====================================================================================================================

from pyvc.zarr import ZArr
from pyvc import zarr as Z

OBJPOS = z3.Function("OBJPOS", I, I)


def wf_all(N):
    """Segment.wf() for every segment index (quantified form of seg_facts without the cum equation)"""
    j = z3.Int("wfj")
    return z3.ForAll([j], z3.Implies(z3.And(0 <= j, j < zi(N)),
                                     z3.And(NC(j) >= 0, NV(j) >= 0, OBJPOS(j) >= 0,
                                            z3.Implies(OV(j), z3.And(NC(j) >= 1, FIN(j) >= 0, FIN(j) <= NV(j))))))


class ObjIndex(object):
    """segment.object_index: path -> position in ordered_objects (only the channel P is asked for)"""

    def __init__(self, s, interp):
        self.s = s
        self.interp = interp

    def get(self, path, default=None):
        if path != PATH:
            raise sym.Unsupported("object_index lookup of another path")
        if self.interp.truth(_lift(HASOBJ(zi(self.s)))):
            return _lift(OBJPOS(zi(self.s)))
        return default


class OrderedObjs(object):
    def __init__(self, s, interp):
        self.s = s
        self.interp = interp


def _ordered_getitem(interp, oo, k):
    st = sym.get_state()
    s = zi(oo.s)
    st.check("safe/ordered_objects-index-is-the-indexed-position", And(_lift(HASOBJ(s)), k == _lift(OBJPOS(s))), kind="safe")
    o = Obj(interp.get("tdms_segment.TdmsSegmentObject"))
    o._f.update(path=PATH, has_data=_lift(HD(s)), number_values=_lift(NV(s)))
    object.__setattr__(o, "_partial", True)
    return o


def _seg_with_objects(sl, s):
    o = SegList.seg(sl, s)
    o._f["object_index"] = ObjIndex(s, sl.vc.interp)
    o._f["ordered_objects"] = OrderedObjs(s, sl.vc.interp)
    return o


class SegListAll(SegList):
    def seg(self, s):
        return _seg_with_objects(self, s)

    def as_symseq(self):
        return SymSeq(self.N, lambda k: self.seg(k), "segments")


def _setup_build_index(interp):
    Z.install(interp)
    interp.models[("getitem", SegListAll)] = _seglist_getitem
    interp.models[("getitem", OrderedObjs)] = _ordered_getitem
    np_proxy = interp.external["numpy"]
    if not getattr(np_proxy, "_zarr_patched", False):
        base_zeros = np_proxy._table["zeros"]
        base_cumsum = np_proxy._table["cumsum"]

        def zeros(n, dtype=float, *a, **k):
            st = sym.get_state()
            if st is not None and st.ghost.get("zarr_mode") and sym.is_sym(n):
                from pyvc.models import trusted
                trusted("numpy: np.zeros(n, int64) is an array of n zeros")
                if interp.truth(n < 0):
                    raise ProgExc(ValueError, "negative dimensions")
                return ZArr.zeros(n, dtype)
            return base_zeros(n, dtype, *a, **k)

        def cumsum(a, *r, **k):
            if isinstance(a, ZArr):
                return Z.m_cumsum(interp, a)
            return base_cumsum(a, *r, **k)
        np_proxy._table["zeros"] = zeros
        np_proxy._table["cumsum"] = cumsum
        np_proxy._zarr_patched = True

    def dedup(interp_, f, args, kwargs):
        """contract of _deduplicate_array (harness deduplicate_array): the result is xs or an array equal to it"""
        xs = args[0]
        st = sym.get_state()
        r = ZArr.fresh(xs.n, xs.dtype_, "dedup")
        j = z3.Int(sym.fresh_name("j"))
        st.add_fact(z3.ForAll([j], z3.Implies(z3.And(0 <= j, j < zi(xs.n)), r.sel(j) == xs.sel(j))))
        return r
    interp.contracts_at_calls["nptdms.reader:_deduplicate_array"] = dedup

    def inv(env, k, st):
        v = env.vars
        A = v["segment_num_values"]
        first, last = v["first_segment"], v["last_segment"]
        N = v["num_segments"]
        j = z3.Int(sym.fresh_name("j"))
        kz, fz, lz, Nz = zi(k), zi(first), zi(last), zi(N)
        vj = vals_term(j)
        return [
            ("array-is-the-segment-array", isinstance(A, ZArr) and SymBool(zi(A.n) == Nz)),
            ("counts-of-visited-segments-are-stored",
             SymBool(z3.ForAll([j], z3.Implies(z3.And(0 <= j, j < kz), A.sel(j) == vj)))),
            ("unvisited-entries-are-zero",
             SymBool(z3.ForAll([j], z3.Implies(z3.And(kz <= j, j < Nz), A.sel(j) == 0)))),
            ("no-data-seen-yet", SymBool(z3.Implies(fz == -1, z3.And(
                lz == -1, z3.ForAll([j], z3.Implies(z3.And(0 <= j, j < kz), vj == 0)))))),
            ("first-and-last-segment-with-values", SymBool(z3.Implies(fz != -1, z3.And(
                0 <= fz, fz <= lz, lz < kz, vals_term(fz) > 0, vals_term(lz) > 0,
                z3.ForAll([j], z3.Implies(z3.And(0 <= j, j < fz), vj == 0)),
                z3.ForAll([j], z3.Implies(z3.And(lz < j, j < kz), vj == 0)))))),
        ]
    interp.loop_specs[("nptdms.reader:TdmsReader._build_index", 0)] = LoopSpec(
        inv, havoc={"segment_num_values": lambda st, env: ZArr.fresh(env.vars["num_segments"], "int64", "segnum"),
                    "first_segment": "int", "last_segment": "int",
                    "__locals__": ("obj_index", "segment_obj", "num_values", "i", "segment")},
        name="segments")


@harness("build_index_all_segments", ["reader.TdmsReader._build_index", "reader._number_of_segment_values"],
         ["C04", "C05", "C06", "C03", "C19"], setup=_setup_build_index, timeout_ms=60000,
         note="Reader.inv for ANY number of segments: loop invariant over the per-segment count array (quantified "
              "facts), cumsum and slice by their NumPy contracts; _deduplicate_array by its contract")
def _build_index_all(vc):
    st = vc.st
    st.ghost["zarr_mode"] = True
    N = vc.int("N", lo=0)
    st.add_fact(wf_all(N))
    from pyvc.models import SFile
    rd = vc.new("reader.TdmsReader", _file=SFile("data"), _index_file=None, _file_path=None, _index_file_path=None,
                _segments=SegListAll(N, vc), object_metadata={}, _segment_channel_offsets={},
                _prev_segment_objects={}, tdms_version=4712, _data_file_size=vc.int("S", lo=0))
    vc.cover("preconditions-satisfiable(3 segments, data in the middle one)",
             SymBool(z3.And(zi(N) == 3, vals_term(z3.IntVal(1)) > 0, vals_term(z3.IntVal(0)) == 0)))
    out = vc.call_method(rd, "_build_index", PATH)
    vc.ensure("no-exception", out.kind == "ret")
    if out.kind != "ret":
        return
    ent = rd._segment_channel_offsets.get(PATH)
    vc.ensure("index-entry-stored", isinstance(ent, tuple) and len(ent) == 2 and isinstance(ent[1], ZArr))
    (first, offs) = ent
    M = offs.n
    vc.cover("exit-state-reachable(two index entries, or none)", Or(And(M == 2, first == 1), And(M == 0, N == 2)))
    j = vc.int("j")                     # an arbitrary index: each obligation below holds for all j
    vj = _lift(vals_term(zi(j)))
    vc.ensure("first-segment-in-range", And(0 <= first, first <= N))
    vc.ensure("index-ends-within-the-segments", And(M >= 0, first + M <= N))
    vc.ensure("no-values-before-the-first-indexed-segment", Implies(And(0 <= j, j < first), vj == 0))
    vc.ensure("no-values-after-the-last-indexed-segment", Implies(And(first + M <= j, j < N), vj == 0))
    vc.ensure("first-and-last-indexed-segments-have-values",
              Implies(M > 0, And(_lift(vals_term(zi(first))) > 0, _lift(vals_term(zi(first + M - 1))) > 0)))
    vc.ensure("empty-index-iff-first-is-the-segment-count", And(Implies(M == 0, first == N), Implies(first == N, M == 0)))
    prev = Ite(j > 0, offs.at(j - 1), 0)
    vc.ensure("offsets-are-the-running-totals(OFFS[j]=OFFS[j-1]+vals(F+j))",
              Implies(And(0 <= j, j < M), offs.at(j) == prev + _lift(vals_term(zi(first + j)))))
    vc.ensure("nothing-read-from-the-file", len(rd._file.reads) == 0)


def _setup_zarr_only(interp):
    _setup_build_index(interp)
    interp.contracts_at_calls.pop("nptdms.reader:_deduplicate_array", None)
    interp.loop_specs.pop(("nptdms.reader:TdmsReader._build_index", 0), None)


@harness("array_equal", "reader._array_equal", ["C04", "C05"], setup=_setup_zarr_only, timeout_ms=60000,
         note="for arrays of any length: True iff same length and equal at every index (chunked comparison loop "
              "cut by the invariant 'equal below the current offset')")
def _array_equal_h(vc):
    st = vc.st
    na, nb = vc.int("na", lo=0), vc.int("nb", lo=0)
    a, b = ZArr.fresh(na, "int64", "a"), ZArr.fresh(nb, "int64", "b")

    def inv(env, k, st_):
        j = z3.Int(sym.fresh_name("j"))
        return [("equal-below-the-current-offset",
                 SymBool(z3.ForAll([j], z3.Implies(z3.And(0 <= j, j < zi(k) * 100, j < zi(na)), a.sel(j) == b.sel(j)))))]
    vc.interp.loop_specs[("nptdms.reader:_array_equal", 0)] = LoopSpec(
        inv, havoc={"__locals__": ("offset", "i")}, name="chunks")
    out = vc.call("reader._array_equal", a, b)
    vc.ensure("no-exception", out.kind == "ret")
    if out.kind != "ret":
        return
    r = out.value
    j = vc.int("j")
    w = z3.Int("w")
    if vc.interp.truth(r if isinstance(r, SymBool) else bool(r)):
        vc.ensure("True-means-same-length", na == nb)
        vc.ensure("True-means-equal-at-every-index", Implies(And(0 <= j, j < na), a.at(j) == b.at(j)))
    else:
        vc.ensure("False-means-different-length-or-a-differing-index",
                  SymBool(z3.Or(zi(na) != zi(nb), z3.Exists([w], z3.And(0 <= w, w < zi(na), a.sel(w) != b.sel(w))))))


@harness("deduplicate_array", "reader._deduplicate_array", ["C04", "C05"], setup=_setup_zarr_only,
         note="for any number of candidates: the result is the new array or a candidate equal to it at every index")
def _dedup_h(vc):
    st = vc.st
    n = vc.int("n", lo=0)
    K = vc.int("K", lo=0)
    xs = ZArr.fresh(n, "int64", "xs")
    CAND = z3.Function("CAND", I, I, I)
    CLEN = z3.Function("CLEN", I, I)
    made = {}

    def cand(k):
        kz = zi(k)
        st.add_fact(CLEN(kz) >= 0)
        return ZArr(lambda i, kz=kz: CAND(kz, zi(i)), _lift(CLEN(kz)), "int64", "cand")

    def array_equal(interp_, f, args, kwargs):
        """contract of _array_equal (harness array_equal)"""
        a, b = args[0], args[1]
        t = st_bool = z3.Bool(sym.fresh_name("eq"))
        jj = z3.Int(sym.fresh_name("j"))
        sym.get_state().add_fact(t == z3.And(zi(a.n) == zi(b.n),
                                             z3.ForAll([jj], z3.Implies(z3.And(0 <= jj, jj < zi(a.n)),
                                                                        a.sel(jj) == b.sel(jj)))))
        return SymBool(t)
    vc.interp.contracts_at_calls["nptdms.reader:_array_equal"] = array_equal
    vc.interp.loop_specs[("nptdms.reader:_deduplicate_array", 0)] = LoopSpec(
        lambda env, k, st_: [], havoc={"__locals__": ("candidate",)}, name="candidates")
    out = vc.call("reader._deduplicate_array", xs, SymSeq(K, cand, "candidates"))
    vc.ensure("no-exception", out.kind == "ret")
    if out.kind != "ret":
        return
    r = out.value
    j = vc.int("j")
    vc.ensure("result-is-an-array", isinstance(r, ZArr))
    vc.ensure("same-length", r.n == n)
    vc.ensure("equal-at-every-index", Implies(And(0 <= j, j < n), r.at(j) == xs.at(j)))


@harness("reader_inv_link", "reader.TdmsReader._build_index", ["C04", "C19", "C05"], timeout_ms=60000,
         note="lemma: an index with the postcondition of harness build_index_all_segments is exactly what harness "
              "read_window assumes (Reader.inv): the prefix-sum function cum read off the index satisfies "
              "cum(s) = cum(s-1) + vals(s) for every segment s, cum(F-1) = 0 and OFFS[j] = cum(F+j)")
def _reader_inv_link(vc):
    st = vc.st
    N, F, M = vc.int("N", lo=0), vc.int("F", lo=0), vc.int("M", lo=0)
    st.add_fact(wf_all(N))
    OFFS = ZArr.fresh(M, "int64", "OFFS")
    j = z3.Int("jq")
    Nz, Fz, Mz = zi(N), zi(F), zi(M)
    # postcondition of _build_index (harness build_index_all_segments), for all j
    st.add_fact(z3.And(Fz <= Nz, Fz + Mz <= Nz, (Mz == 0) == (Fz == Nz)))
    st.add_fact(z3.ForAll([j], z3.Implies(z3.And(0 <= j, j < Fz), vals_term(j) == 0)))
    st.add_fact(z3.ForAll([j], z3.Implies(z3.And(Fz + Mz <= j, j < Nz), vals_term(j) == 0)))
    st.add_fact(z3.Implies(Mz > 0, z3.And(vals_term(Fz) > 0, vals_term(Fz + Mz - 1) > 0)))
    st.add_fact(z3.ForAll([j], z3.Implies(z3.And(0 <= j, j < Mz),
                                          OFFS.sel(j) == z3.If(j > 0, OFFS.sel(j - 1), 0) + vals_term(Fz + j))))

    def cumdef(s):
        s = zi(s)
        return z3.If(s < Fz, 0, z3.If(s < Fz + Mz, OFFS.sel(s - Fz), z3.If(Mz > 0, OFFS.sel(Mz - 1), 0)))
    s = vc.int("s")
    sz = zi(s)
    vc.ensure("cum-recurrence-at-every-segment", Implies(And(0 <= s, s < N),
                                                         SymBool(cumdef(sz) == cumdef(sz - 1) + vals_term(sz))))
    vc.ensure("cum-is-zero-before-the-first-indexed-segment", SymBool(cumdef(Fz - 1) == 0))
    vc.ensure("index-entries-are-cum", Implies(And(0 <= s, s < M), SymBool(OFFS.sel(sz) == cumdef(Fz + sz))))
    vc.ensure("first-and-last-indexed-segments-have-values(as assumed)",
              SymBool(z3.Implies(Mz > 0, z3.And(vals_term(Fz) > 0, vals_term(Fz + Mz - 1) > 0))))
    vc.ensure("shape(as assumed): M=0,F=N or M>0,F+M<=N",
              SymBool(z3.Or(z3.And(Mz == 0, Fz == Nz), z3.And(Mz > 0, Fz + Mz <= Nz))))
    # non-vacuity: the assumed postcondition has a model with data in an inner range of segments
    vc.cover("an-index-with-entries-exists", And(M == 2, F == 1, N == 4))
    vc.cover("an-empty-index-exists", And(M == 0, N == 2))
