"""reader.TdmsReader.read_metadata: the walk over the data or index stream (C09, C20, C01)."""
import z3
from pyvc.harness import harness
from pyvc.models import SFile
from pyvc.interp import Obj, ProgExc
from pyvc import sym
from pyvc.sym import _lift
from spec.base import And, Or, Not, Implies, Ite, Min, Max
from contracts.reader_leadin import mk_reader

I = z3.IntSort()
RAW = z3.Function("RAWOFF", I, I)      # raw data offset (= metadata length) of segment k
NEXT = z3.Function("NEXTOFF", I, I)    # next segment offset of segment k


def zi(v):
    return sym.z3int(v)


def P(k):
    """data-file position of segment k"""
    if k == 0:
        return 0
    return P(k - 1) + 28 + _lift(NEXT(z3.IntVal(k - 1)))


def Q(k):
    """index-stream position of segment k: lead-in + metadata of the earlier segments"""
    if k == 0:
        return 0
    return Q(k - 1) + 28 + _lift(RAW(z3.IntVal(k - 1)))


def _setup(interp):
    def read_segment_metadata(interp, f, args, kwargs):
        st = sym.get_state()
        rd, file, segment_position, index_cache, previous_segment, is_index_file = args
        g = st.ghost["walk"]
        k = g["k"]
        st.check("call/segment-position-is-the-data-file-position-of-segment[%d]" % k, segment_position == P(k),
                 kind="call-pre")
        st.check("call/stream-cursor-at-lead-in-of-segment[%d]" % k,
                 file.pos == (Q(k) if g["index"] else P(k)), kind="call-pre")
        st.check("call/reads-the-stream-chosen[%d]" % k, file is g["stream"] and is_index_file == g["index"],
                 kind="call-pre")
        st.check("call/previous-segment-passed[%d]" % k,
                 previous_segment is (g["segs"][-1] if g["segs"] else None), kind="call-pre")
        st.check("call/index-cache-as-requested[%d]" % k, (index_cache is not None) == g["want_index"],
                 kind="call-pre")
        if k == g["K"]:
            if g["fail"] is not None:
                raise ProgExc(g["fail"], "metadata")
            raise ProgExc(EOFError, "end")
        raw = _lift(RAW(z3.IntVal(k)))
        nxt = _lift(NEXT(z3.IntVal(k)))
        st.assume(And(raw >= 0, nxt >= raw))
        seg = Obj(interp.get("tdms_segment.TdmsSegment"))
        seg._f.update(position=segment_position, data_position=segment_position + 28 + raw,
                      next_segment_pos=segment_position + 28 + nxt, ordered_objects=[], num_chunks=0,
                      final_chunk_lengths_override=None, object_index=None, toc_mask=14)
        file.pos = file.pos + 28 + raw          # lead-in and metadata consumed
        g["segs"].append(seg)
        g["k"] = k + 1
        return seg, ("props", k)

    def update_object_metadata(interp, f, args, kwargs):
        st = sym.get_state()
        st.ghost["walk"]["meta_updates"].append(args[1])

    def update_object_properties(interp, f, args, kwargs):
        st = sym.get_state()
        st.ghost["walk"]["prop_updates"].append(args[1])

    interp.contracts_at_calls["nptdms.reader:TdmsReader._read_segment_metadata"] = read_segment_metadata
    interp.contracts_at_calls["nptdms.reader:TdmsReader._update_object_metadata"] = update_object_metadata
    interp.contracts_at_calls["nptdms.reader:TdmsReader._update_object_properties"] = update_object_properties


VARIANTS = [("%s,%s,segments=%d,%s,%s" % (mode, own, K, fail.__name__ if fail else "ok", "index" if wi else "noindex"),
             (mode, own, K, fail, wi))
            for mode in ("data", "index", "both") for own in ("owned", "borrowed") for K in (0, 1, 2, 3)
            for fail in (None, ValueError, KeyError) for wi in (False, True)
            if not (wi and fail) and not (K == 3 and (fail or wi))]


@harness("read_metadata", "reader.TdmsReader.read_metadata", ["C09", "C20", "C01"], variants=VARIANTS,
         setup=_setup, level="shape-bounded",
         bound="<= 3 segments in the stream; offsets symbolic; failure injected at every segment boundary")
def _read_metadata(vc):
    mode, own, K, fail, want_index = vc.variant
    st = vc.st
    data = SFile("data") if mode in ("data", "both") else None
    index = SFile("index") if mode in ("index", "both") else None
    rd = mk_reader(vc, vc.int("S", lo=0) if data is not None else None)
    rd._file = data
    rd._index_file = index
    if own == "owned":
        rd._file_path = "x.tdms" if data is not None else None
        rd._index_file_path = "x.tdms_index" if index is not None else None
        for f in (data, index):
            if f is not None:
                f.owned = True
    stream = index if index is not None else data
    stream.pos = 0
    st.ghost["walk"] = dict(k=0, K=K, index=index is not None, stream=stream, segs=[], fail=fail,
                            want_index=want_index, meta_updates=[], prop_updates=[])
    out = vc.call_method(rd, "read_metadata", want_index)
    g = st.ghost["walk"]
    if fail is not None:
        vc.ensure("metadata-error-propagates", out.raised(fail))
    else:
        vc.ensure("no-exception", out.kind == "ret")
        vc.ensure("all-segments-recorded-in-order", len(rd._segments) == K
                  and all(a is b for a, b in zip(rd._segments, g["segs"])))
        vc.ensure("object-metadata-updated-once-per-segment-in-order",
                  len(g["meta_updates"]) == K and all(a is b for a, b in zip(g["meta_updates"], g["segs"])))
        vc.ensure("properties-updated-once-per-segment-in-order", g["prop_updates"] == [("props", k) for k in range(K)])
    # C20: the index stream is closed as soon as the metadata is read, if and only if the library opened it;
    # nothing else is closed here
    if index is not None:
        vc.ensure("c20/owned-index-stream-closed-after-metadata(also-on-error)", index.closed == (own == "owned"),
                  kind="resource")
    if data is not None:
        vc.ensure("c20/data-file-left-open-for-data-reads", not data.closed, kind="resource")


@harness("read_metadata_no_stream", "reader.TdmsReader.read_metadata", ["C20"], level="proof")
def _read_metadata_closed(vc):
    rd = mk_reader(vc, None)
    out = vc.call_method(rd, "read_metadata", False)
    vc.ensure("reader-without-streams-raises", out.raised(ValueError))
