"""reader.TdmsReader.read_metadata: the walk over the data or index stream (C09, C20, C01)."""
import z3
from pyvc.harness import harness
from pyvc.models import SFile
from pyvc.interp import Obj, ProgExc
from pyvc import sym
from pyvc.sym import _lift
from spec.base import And, Or, Not, Implies, Ite, Min, Max
from contracts.reader_leadin import mk_reader

I = z3.IntSort()
RAW = z3.Function("RAWOFF", I, I)      # raw data offset (= metadata length) of segment k
NEXT = z3.Function("NEXTOFF", I, I)    # next segment offset of segment k


def zi(v):
    return sym.z3int(v)


def P(k):
    """data-file position of segment k"""
    if k == 0:
        return 0
    return P(k - 1) + 28 + _lift(NEXT(z3.IntVal(k - 1)))


def Q(k):
    """index-stream position of segment k: lead-in + metadata of the earlier segments"""
    if k == 0:
        return 0
    return Q(k - 1) + 28 + _lift(RAW(z3.IntVal(k - 1)))


def _setup(interp):
    def read_segment_metadata(interp, f, args, kwargs):
        st = sym.get_state()
        rd, file, segment_position, index_cache, previous_segment, is_index_file = args
        g = st.ghost["walk"]
        k = g["k"]
        st.check("call/segment-position-is-the-data-file-position-of-segment[%d]" % k, segment_position == P(k),
                 kind="call-pre")
        st.check("call/stream-cursor-at-lead-in-of-segment[%d]" % k,
                 file.pos == (Q(k) if g["index"] else P(k)), kind="call-pre")
        st.check("call/reads-the-stream-chosen[%d]" % k, file is g["stream"] and is_index_file == g["index"],
                 kind="call-pre")
        st.check("call/previous-segment-passed[%d]" % k,
                 previous_segment is (g["segs"][-1] if g["segs"] else None), kind="call-pre")
        st.check("call/index-cache-as-requested[%d]" % k, (index_cache is not None) == g["want_index"],
                 kind="call-pre")
        if k == g["K"]:
            if g["fail"] is not None:
                raise ProgExc(g["fail"], "metadata")
            raise ProgExc(EOFError, "end")
        raw = _lift(RAW(z3.IntVal(k)))
        nxt = _lift(NEXT(z3.IntVal(k)))
        st.assume(And(raw >= 0, nxt >= raw))
        seg = Obj(interp.get("tdms_segment.TdmsSegment"))
        seg._f.update(position=segment_position, data_position=segment_position + 28 + raw,
                      next_segment_pos=segment_position + 28 + nxt, ordered_objects=[], num_chunks=0,
                      final_chunk_lengths_override=None, object_index=None, toc_mask=14)
        file.pos = file.pos + 28 + raw          # lead-in and metadata consumed
        g["segs"].append(seg)
        g["k"] = k + 1
        return seg, ("props", k)

    def update_object_metadata(interp, f, args, kwargs):
        st = sym.get_state()
        st.ghost["walk"]["meta_updates"].append(args[1])

    def update_object_properties(interp, f, args, kwargs):
        st = sym.get_state()
        st.ghost["walk"]["prop_updates"].append(args[1])

    interp.contracts_at_calls["nptdms.reader:TdmsReader._read_segment_metadata"] = read_segment_metadata
    interp.contracts_at_calls["nptdms.reader:TdmsReader._update_object_metadata"] = update_object_metadata
    interp.contracts_at_calls["nptdms.reader:TdmsReader._update_object_properties"] = update_object_properties


VARIANTS = [("%s,%s,segments=%d,%s,%s" % (mode, own, K, fail.__name__ if fail else "ok", "index" if wi else "noindex"),
             (mode, own, K, fail, wi))
            for mode in ("data", "index", "both") for own in ("owned", "borrowed") for K in (0, 1, 2, 3)
            for fail in (None, ValueError, KeyError) for wi in (False, True)
            if not (wi and fail) and not (K == 3 and (fail or wi))]


@harness("read_metadata", "reader.TdmsReader.read_metadata", ["C09", "C20", "C01"], variants=VARIANTS,
         setup=_setup, level="shape-bounded", replay=lambda md, vp, model, st: _replay_walk(md, vp, model, st),
         bound="<= 3 segments in the stream; offsets symbolic; failure injected at every segment boundary")
def _read_metadata(vc):
    mode, own, K, fail, want_index = vc.variant
    st = vc.st
    data = SFile("data") if mode in ("data", "both") else None
    index = SFile("index") if mode in ("index", "both") else None
    rd = mk_reader(vc, vc.int("S", lo=0) if data is not None else None)
    rd._file = data
    rd._index_file = index
    if own == "owned":
        rd._file_path = "x.tdms" if data is not None else None
        rd._index_file_path = "x.tdms_index" if index is not None else None
        for f in (data, index):
            if f is not None:
                f.owned = True
    stream = index if index is not None else data
    stream.pos = 0
    st.ghost["walk"] = dict(k=0, K=K, index=index is not None, stream=stream, segs=[], fail=fail,
                            want_index=want_index, meta_updates=[], prop_updates=[])
    out = vc.call_method(rd, "read_metadata", want_index)
    g = st.ghost["walk"]
    if fail is not None:
        vc.ensure("metadata-error-propagates", out.raised(fail))
    else:
        vc.ensure("no-exception", out.kind == "ret")
        vc.ensure("all-segments-recorded-in-order", len(rd._segments) == K
                  and all(a is b for a, b in zip(rd._segments, g["segs"])))
        vc.ensure("object-metadata-updated-once-per-segment-in-order",
                  len(g["meta_updates"]) == K and all(a is b for a, b in zip(g["meta_updates"], g["segs"])))
        vc.ensure("properties-updated-once-per-segment-in-order", g["prop_updates"] == [("props", k) for k in range(K)])
    # C20: the index stream is closed as soon as the metadata is read, if and only if the library opened it;
    # nothing else is closed here
    if index is not None:
        vc.ensure("c20/owned-index-stream-closed-after-metadata(also-on-error)", index.closed == (own == "owned"),
                  kind="resource")
    if data is not None:
        vc.ensure("c20/data-file-left-open-for-data-reads", not data.closed, kind="resource")


@harness("read_metadata_no_stream", "reader.TdmsReader.read_metadata", ["C20"], level="proof")
def _read_metadata_closed(vc):
    rd = mk_reader(vc, None)
    out = vc.call_method(rd, "read_metadata", False)
    vc.ensure("reader-without-streams-raises", out.raised(ValueError))


# =====================================================================================================================
# the walk for ANY number of segments: while-loop invariant; _segments is a list of symbolic length (GrowList)
# =====================================================================================================================

from pyvc.interp import LoopSpec
from pyvc.zarr import ZArr
from pyvc.sym import SymBool

POS = z3.Function("SEGPOS", I, I)        # data-file position of segment k        (POS(0) = 0)
QPOS = z3.Function("IDXPOS", I, I)       # index-stream position of segment k     (QPOS(0) = 0)
VALS = z3.Function("VALS_P", I, I)       # values of the channel P that segment k adds (>= 0)
CUMV = z3.Function("CUMV_P", I, I)       # CUMV(k) = VALS(0) + ... + VALS(k), CUMV(-1) = 0


def walk_facts(st, k):
    """defining equations of the position functions and the running value count at segment k (instantiations)"""
    k = zi(k)
    st.add_fact(z3.And(RAW(k) >= 0, NEXT(k) >= RAW(k),
                       POS(k + 1) == POS(k) + 28 + NEXT(k),
                       QPOS(k + 1) == QPOS(k) + 28 + RAW(k),
                       VALS(k) >= 0, CUMV(k) == CUMV(k - 1) + VALS(k)))


class GrowList(object):
    """self._segments during the loop: `n` segments, element j is the segment with ghost index idx.sel(j)"""
    _absent = ()

    def __init__(self, n, idx):
        self.n = n
        self.idx = idx

    def sym_len(self):
        return self.n

    def append(self, seg):
        s = seg._f["__s"]
        old = self.idx.sel
        pos = zi(self.n)
        self.idx = ZArr(lambda j, old=old, pos=pos, s=zi(s): z3.If(zi(j) == pos, s, old(j)), self.n + 1)
        self.n = self.n + 1


def _setup_all(interp):
    def seglen(lst):
        return len(lst) if isinstance(lst, list) else lst.n

    def read_segment_metadata(interp_, f, args, kwargs):
        """contract of TdmsReader._read_segment_metadata (harnesses read_lead_in, read_segment_objects): at the
        lead-in of segment k it returns segment k (positions as functions of the lead-in fields) and its
        properties and leaves the cursor after the metadata; at the end of the stream it raises EOFError; a
        malformed segment raises the injected error"""
        st = sym.get_state()
        rd, file, segment_position, index_cache, previous_segment, is_index_file = args
        g = st.ghost["walk"]
        k = g["k"]
        walk_facts(st, k)
        st.check("call/segment-position-is-the-data-file-position-of-segment-k", segment_position == _lift(POS(zi(k))),
                 kind="call-pre")
        st.check("call/stream-cursor-at-lead-in-of-segment-k",
                 file.pos == (_lift(QPOS(zi(k))) if g["index"] else _lift(POS(zi(k)))), kind="call-pre")
        st.check("call/reads-the-stream-chosen", file is g["stream"] and is_index_file == g["index"], kind="call-pre")
        if interp_.truth(k == 0):
            st.check("call/no-previous-segment-at-the-first", previous_segment is None, kind="call-pre")
        else:
            st.check("call/previous-segment-passed", previous_segment is not None and
                     interp_.truth(previous_segment._f["__s"] == k - 1), kind="call-pre")
        st.check("call/index-cache-as-requested", (index_cache is not None) == g["want_index"], kind="call-pre")
        g["calls"] = g["calls"] + 1
        if interp_.truth(k == g["K"]):
            if g["fail"] is not None:
                raise ProgExc(g["fail"], "metadata")
            raise ProgExc(EOFError, "end")
        st.assume(k < g["K"])
        kz = zi(k)
        seg = Obj(interp_.get("tdms_segment.TdmsSegment"))
        seg._f.update(position=segment_position, data_position=segment_position + 28 + _lift(RAW(kz)),
                      next_segment_pos=segment_position + 28 + _lift(NEXT(kz)), ordered_objects=[], num_chunks=0,
                      final_chunk_lengths_override=None, object_index=None, toc_mask=14, __s=k)
        file.pos = file.pos + 28 + _lift(RAW(kz))          # lead-in and metadata consumed
        return seg, ("props", k)

    def update_object_metadata(interp_, f, args, kwargs):
        """contract of _update_object_metadata for the channel P (harness update_object_metadata): the channel's
        num_values grows by the segment's value count"""
        st = sym.get_state()
        g = st.ghost["walk"]
        st.check("call/object-metadata-updated-with-the-segment-just-read", args[1]._f["__s"] == g["k"], kind="call-pre")
        st.check("call/object-metadata-updated-once-per-segment-in-order", g["meta"] == g["k"], kind="call-pre")
        g["meta"] = g["meta"] + 1
        g["numvals"] = g["numvals"] + _lift(VALS(zi(g["k"])))

    def update_object_properties(interp_, f, args, kwargs):
        st = sym.get_state()
        g = st.ghost["walk"]
        p = args[1]
        st.check("call/properties-of-the-segment-just-read", isinstance(p, tuple) and p[0] == "props" and
                 interp_.truth(p[1] == g["k"]), kind="call-pre")
        st.check("call/properties-updated-once-per-segment-in-order", g["props"] == g["k"], kind="call-pre")
        g["props"] = g["props"] + 1
        g["k"] = g["k"] + 1                         # the segment is complete: ghost index advances

    interp.contracts_at_calls["nptdms.reader:TdmsReader._read_segment_metadata"] = read_segment_metadata
    interp.contracts_at_calls["nptdms.reader:TdmsReader._update_object_metadata"] = update_object_metadata
    interp.contracts_at_calls["nptdms.reader:TdmsReader._update_object_properties"] = update_object_properties

    def inv(env, k, st):
        g = st.ghost["walk"]
        rd = env.vars["self"]
        segs = rd._segments
        file = env.vars["file"]
        kz = zi(k)
        walk_facts(st, k)
        out = [("ghost-index-is-the-iteration-count", g["k"] == k),
               ("never-past-the-end-of-the-stream", k <= g["K"]),
               ("one-segment-recorded-per-iteration", seglen(segs) == k),
               ("segment_position-is-the-position-of-the-next-segment", env.vars["segment_position"] == _lift(POS(kz))),
               ("stream-cursor-at-the-next-lead-in",
                file.pos == (_lift(QPOS(kz)) if g["index"] else _lift(POS(kz)))),
               ("object-metadata-and-properties-updated-k-times", And(g["meta"] == k, g["props"] == k)),
               ("running-value-count-of-the-channel", g["numvals"] == _lift(CUMV(kz - 1))),
               ("stream-still-open", not file.closed)]
        ps = env.vars["previous_segment"]
        if ps is None:
            out.append(("previous_segment-is-None-only-before-the-first", k == 0))
        else:
            out.append(("previous_segment-is-the-last-recorded-segment", And(k > 0, ps._f["__s"] == k - 1)))
        if isinstance(segs, GrowList):
            j = z3.Int(sym.fresh_name("j"))
            out.append(("segments-recorded-in-stream-order",
                        SymBool(z3.ForAll([j], z3.Implies(z3.And(0 <= j, j < kz), segs.idx.sel(j) == j)))))
        return out

    def havoc_reader(st, env):
        rd = env.vars["self"]
        g = st.ghost["walk"]
        n = st.fresh_int("nsegs")
        rd._f["_segments"] = GrowList(n, ZArr.fresh(n, "int64", "segidx"))
        for key in ("k", "meta", "props", "numvals", "calls"):
            g[key] = st.fresh_int(key)
        env.vars["file"].pos = st.fresh_int("cursor")
        return rd

    def havoc_prev(st, env):
        # previous_segment: None or the segment with a fresh ghost index (the invariant pins it down)
        if st.choose(2, "prev") == 0:
            return None
        seg = Obj(interp.get("tdms_segment.TdmsSegment"))
        s = st.fresh_int("prev")
        sz = zi(s)
        walk_facts(st, s)
        seg._f.update(position=_lift(POS(sz)), data_position=_lift(POS(sz)) + 28 + _lift(RAW(sz)),
                      next_segment_pos=_lift(POS(sz)) + 28 + _lift(NEXT(sz)), ordered_objects=[], num_chunks=0,
                      final_chunk_lengths_override=None, object_index=None, toc_mask=14, __s=s)
        return seg
    interp.loop_specs[("nptdms.reader:TdmsReader.read_metadata", 0)] = LoopSpec(
        inv, havoc={"self": havoc_reader, "previous_segment": havoc_prev, "segment_position": "int",
                    "__locals__": ("start_position", "segment", "properties")}, name="segments")


def _replay_walk(md, vparam, model, st):
    """resource clauses of read_metadata on a real two-segment file: a caller's index stream stays open, an index
    file the library opened itself is closed again, the data stream is left open"""
    mode, own = vparam[0], vparam[1]
    script = """
import io, os, sys, tempfile
import numpy as np
from nptdms import TdmsWriter, TdmsFile, ChannelObject
from nptdms.reader import TdmsReader
data, index = io.BytesIO(), io.BytesIO()
with TdmsWriter(data, index_file=index) as w:
    w.write_segment([ChannelObject("g", "c", np.arange(3, dtype=np.int32))])
    w.write_segment([ChannelObject("g", "c", np.arange(2, dtype=np.int32))])
mode, own = %r, %r
bad = []
if own == "borrowed":
    d = io.BytesIO(data.getvalue()); i = io.BytesIO(index.getvalue())
    rd = TdmsReader(i if mode == "index" else d)
    if mode == "both":
        rd._index_file = i
    rd.read_metadata()
    if mode in ("index", "both") and i.closed:
        bad.append("caller's index stream was closed by read_metadata")
    if mode in ("data", "both") and d.closed:
        bad.append("caller's data stream was closed by read_metadata")
else:
    tmp = tempfile.mkdtemp()
    p = os.path.join(tmp, "x.tdms")
    open(p, "wb").write(data.getvalue()); open(p + "_index", "wb").write(index.getvalue())
    before = set(os.listdir("/proc/self/fd"))
    rd = TdmsReader(p + "_index" if mode == "index" else p)
    rd.read_metadata()
    if rd._index_file is not None and not rd._index_file.closed:
        bad.append("index file opened by the library still open after read_metadata")
    rd.close()
    if set(os.listdir("/proc/self/fd")) != before:
        bad.append("descriptor leak after close")
print(bad or "resources as contracted")
sys.exit(1 if bad else 0)
""" % (mode, own)
    return {"script": script, "function": "reader.TdmsReader.read_metadata"}



VARIANTS_ALL = [("%s,%s,%s,%s" % (mode, own, fail.__name__ if fail else "ok", "index" if wi else "noindex"),
                 (mode, own, fail, wi))
                for mode in ("data", "index", "both") for own in ("owned", "borrowed")
                for fail in (None, ValueError) for wi in (False, True) if not (wi and fail)]


@harness("read_metadata_all_segments", "reader.TdmsReader.read_metadata", ["C09", "C20", "C01", "C04"],
         variants=VARIANTS_ALL, setup=_setup_all, replay=_replay_walk,
         note="the metadata walk for ANY number of segments (while-loop invariant; _segments as a list of symbolic "
              "length): segment k is read at its data-file position POS(k) with the cursor at POS(k) (data) or "
              "IDXPOS(k) (index stream), recorded in order, metadata/properties updated once per segment, the "
              "channel's value count is the running sum; errors propagate; the index stream is closed iff owned")
def _read_metadata_all(vc):
    mode, own, fail, want_index = vc.variant
    st = vc.st
    data = SFile("data") if mode in ("data", "both") else None
    index = SFile("index") if mode in ("index", "both") else None
    rd = mk_reader(vc, vc.int("S", lo=0) if data is not None else None)
    rd._file = data
    rd._index_file = index
    if own == "owned":
        rd._file_path = "x.tdms" if data is not None else None
        rd._index_file_path = "x.tdms_index" if index is not None else None
        for f in (data, index):
            if f is not None:
                f.owned = True
    stream = index if index is not None else data
    stream.pos = 0
    K = vc.int("K", lo=0)
    st.add_fact(z3.And(POS(0) == 0, QPOS(0) == 0, CUMV(-1) == 0))
    st.ghost["walk"] = dict(k=0, K=K, index=index is not None, stream=stream, fail=fail, want_index=want_index,
                            meta=0, props=0, numvals=0, calls=0)
    vc.cover("a-stream-of-three-segments-is-admitted", K == 3)
    out = vc.call_method(rd, "read_metadata", want_index)
    g = st.ghost["walk"]
    if fail is not None:
        vc.ensure("metadata-error-propagates", out.raised(fail))
    else:
        vc.ensure("no-exception", out.kind == "ret")
        segs = rd._segments
        n = len(segs) if isinstance(segs, list) else segs.n
        vc.ensure("all-segments-recorded", n == K)
        if isinstance(segs, GrowList):
            j = vc.int("j")
            vc.ensure("segments-recorded-in-stream-order", Implies(And(0 <= j, j < K), _lift(segs.idx.sel(zi(j))) == j))
        vc.ensure("object-metadata-and-properties-updated-once-per-segment", And(g["meta"] == K, g["props"] == K))
        vc.ensure("channel-length-is-the-sum-of-the-segments'-value-counts", g["numvals"] == _lift(CUMV(zi(K) - 1)))
    if index is not None:
        vc.ensure("c20/owned-index-stream-closed-after-metadata(also-on-error)", index.closed == (own == "owned"),
                  kind="resource")
    if data is not None:
        vc.ensure("c20/data-file-left-open-for-data-reads", not data.closed, kind="resource")
