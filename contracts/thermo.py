"""thermocouples.py against the frozen NIST ITS-90 reference functions (C18).  Proofs are over the reals
(exact rational values of the double coefficients); IEEE evaluation error of polyval is not decided."""
import json
import os
import numpy as np
from fractions import Fraction
import z3
from pyvc.harness import harness
from pyvc.interp import Obj
from pyvc import sym
from pyvc.sym import SymReal, SymBool, _lift, z3real
from spec.base import And, Or, Not, Implies, Ite

HERE = os.path.dirname(os.path.dirname(os.path.abspath(__file__)))
ITS90 = json.load(open(os.path.join(HERE, "spec", "its90.json")))["types"]
TYPES = ["b", "e", "j", "k", "n", "r", "s", "t"]
SLACK = Fraction(15, 1000)      # widening of the transcribed NIST inverse error ranges (degrees C)


def fr(x):
    return Fraction(float(x))


def rv(q):
    return z3.RealVal(q.numerator) / z3.RealVal(q.denominator)


def poly_term(coeffs, x):
    """Horner over z3 reals; coeffs: Fractions ascending"""
    acc = rv(coeffs[-1])
    for c in reversed(coeffs[:-1]):
        acc = acc * x + rv(c)
    return acc


def poly_value(coeffs, x):
    acc = Fraction(0)
    for c in reversed(coeffs):
        acc = acc * x + c
    return acc


def deriv(coeffs):
    return [c * i for i, c in enumerate(coeffs)][1:] or [Fraction(0)]


def table(vc, t):
    tc = vc.interp.get("thermocouples.type_%s" % t)

    def pieces(lst):
        out = []
        for p in lst:
            r = p.applicable_range
            out.append((None if r.start is None else fr(r.start), None if r.end is None else fr(r.end),
                        [fr(c) for c in p._coefficients]))
        return out
    exp = tc._exponential_term
    return tc, pieces(tc._forward_polynomials), pieces(tc._inverse_polynomials), \
        (None if exp is None else [fr(x) for x in exp])


@harness("thermocouple_tables", ["thermocouples.Thermocouple.__init__", "thermocouples._verify_contiguous",
                                 "thermocouples.Range.__init__", "thermocouples.Polynomial.__init__"], ["C18"],
         variants=[(t.upper(), t) for t in TYPES],
         note="the tables are rebuilt from the source on every run (module executed by the interpreter) and "
              "compared with spec/its90.json; continuity by exact rational evaluation")
def _tables(vc):
    t = vc.variant
    tc, fwd, inv, exp = table(vc, t)
    ref = ITS90[t.upper()]["forward"]
    vc.ensure("forward/piece-count", len(fwd) == len(ref))
    for i, ((lo, hi, cs), r) in enumerate(zip(fwd, ref)):
        rc = [fr(x) for x in r["coefficients_ascending"]]
        vc.ensure("forward[%d]/coefficients-equal-NIST" % i, cs == rc)
        if i > 0:
            vc.ensure("forward[%d]/lower-boundary-equals-NIST" % i, lo == fr(r["lo"]))
        else:
            vc.ensure("forward[0]/open-below", lo is None)
        if i + 1 < len(fwd):
            vc.ensure("forward[%d]/upper-boundary-equals-NIST" % i, hi == fr(r["hi"]))
            vc.ensure("forward[%d]/contiguous" % i, hi == fwd[i + 1][0])
        else:
            vc.ensure("forward[last]/open-above", hi is None)
    g = [r["gaussian"] for r in ref if r["gaussian"] is not None]
    if g:
        vc.ensure("exponential-term-equals-NIST", exp == [fr(x) for x in g[0]])
        vc.ensure("exponential-term-applies-from-its-piece's-lower-limit(0 C)",
                  [fr(r["lo"]) for r in ref if r["gaussian"] is not None] == [Fraction(0)])
    else:
        vc.ensure("no-exponential-term", exp is None)
    # inverse pieces: contiguous, open ended
    vc.ensure("inverse/open-ends", inv[0][0] is None and inv[-1][1] is None)
    for i in range(len(inv) - 1):
        vc.ensure("inverse[%d]/contiguous" % i, inv[i][1] == inv[i + 1][0])
    # continuity of the forward function at piece boundaries (exact rationals; the exponential term is
    # the same function on both sides where it applies: K's boundary is at 0 where it switches on and
    # NIST's polynomial for T >= 0 carries the compensating constant)
    for i in range(len(fwd) - 1):
        b = fwd[i][1]
        jump = poly_value(fwd[i][2], b) - poly_value(fwd[i + 1][2], b)
        if exp is not None and b == 0:
            # a0 * exp(a1 * a2**2) is added on the right side only: bounded by its value computed in floats
            import math
            e = Fraction(float(exp[0]) * math.exp(float(exp[1]) * float(exp[2]) ** 2))
            jump = jump - e
            vc.ensure("forward/continuous-at-%s(within 1e-4 mV incl. exponential term)" % float(b),
                      abs(jump) <= Fraction(1, 10 ** 4))
        else:
            vc.ensure("forward/continuous-at-%s(within 1e-4 mV)" % float(b), abs(jump) <= Fraction(1, 10 ** 4))
    for i in range(len(inv) - 1):
        b = inv[i][1]
        jump = poly_value(inv[i][2], b) - poly_value(inv[i + 1][2], b)
        vc.ensure("inverse/continuous-at-%s mV(within 0.1 C)" % float(b), abs(jump) <= Fraction(1, 10))


@harness("thermocouple_monotone", [], ["C18"], variants=[(t.upper(), t) for t in TYPES],
         note="derivative of each forward piece positive for all real T of the standard's range (nlsat); type B "
              "from 50 C (its minimum is near 21 C); type K's exponential term enters through the calculus "
              "bound |g'| <= a0*sqrt(2|a1|/e)")
def _monotone(vc):
    t = vc.variant
    tc, fwd, inv, exp = table(vc, t)
    ref = ITS90[t.upper()]["forward"]
    T = z3.Real("T")
    for i, ((lo, hi, cs), r) in enumerate(zip(fwd, ref)):
        a, b = fr(r["lo"]), fr(r["hi"])
        if t == "b" and i == 0:
            a = Fraction(50)
        d = poly_term(deriv(cs), T)
        margin = Fraction(0)
        if exp is not None and r["gaussian"] is not None:
            import math
            margin = Fraction(float(exp[0]) * math.sqrt(2 * abs(float(exp[1])) / math.e)) * Fraction(11, 10)
        vc.ensure("forward[%d]/strictly-increasing-on-[%s,%s]" % (i, float(a), float(b)),
                  SymBool(z3.Implies(z3.And(T >= rv(a), T <= rv(b)), d > rv(margin))))


def _inv_obligations(vc, t):
    tc, fwd, inv, exp = table(vc, t)
    ref = ITS90[t.upper()]
    T, v = z3.Real("T"), z3.Real("v")
    for (Ta, Tb, elo, ehi) in ref["inverse_error_ranges"]:
        Ta, Tb = Fraction(Ta).limit_denominator(10 ** 6), Fraction(Tb).limit_denominator(10 ** 6)
        lo_b, hi_b = Fraction(elo).limit_denominator(10 ** 6) - SLACK, Fraction(ehi).limit_denominator(10 ** 6) + SLACK
        for j, ((flo, fhi, fcs), r) in enumerate(zip(fwd, ref["forward"])):
            a, b = max(Ta, fr(r["lo"])), min(Tb, fr(r["hi"]))
            if a >= b:
                continue
            if exp is not None and r["gaussian"] is not None:
                continue        # transcendental term: decided by the bounded stand-in only
            for k, (vlo, vhi, ics) in enumerate(inv):
                hyp = [T >= rv(a), T <= rv(b), v == poly_term(fcs, T)]
                if vlo is not None:
                    hyp.append(v >= rv(vlo))
                if vhi is not None:
                    hyp.append(v < rv(vhi))
                err = poly_term(ics, v) - T
                yield ("inverse-error/T in [%s,%s]/forward[%d]/inverse[%d]" % (float(a), float(b), j, k),
                       z3.Implies(z3.And(*hyp), z3.And(err >= rv(lo_b), err <= rv(hi_b))))


@harness("thermocouple_inverse_error", [], ["C18"], variants=[(t.upper(), t) for t in TYPES],
         note="for all real T of each NIST inverse range: |inverse(forward(T)) - T| within the NIST-stated error "
              "range (widened by 0.015 C); two-variable nonlinear real arithmetic, v = forward(T)",
         split_variants=True, weight=20, timeout_ms=90000)
def _inverse_error(vc):
    for name, goal in _inv_obligations(vc, vc.variant):
        vc.ensure(name, SymBool(goal))


def _setup_eval(interp):
    pass


@harness("thermocouple_eval", ["thermocouples.Thermocouple.celsius_to_mv", "thermocouples.Thermocouple.mv_to_celsius",
                               "thermocouples.Polynomial.apply", "thermocouples.Polynomial.within_range",
                               "thermocouples.Range.within_range"], ["C18"],
         variants=[(t.upper(), t) for t in TYPES],
         note="both conversions executed on one arbitrary real (elementwise abstraction of np.piecewise): total "
              "(the NaN default is never selected) and equal to the piece's polynomial with inclusive start / "
              "exclusive end")
def _eval(vc):
    t = vc.variant
    st = vc.st
    st.real_floats = True
    tc, fwd, inv, exp = table(vc, t)
    x = vc.real("x")
    for direction, pieces, method in (("forward", fwd, "celsius_to_mv"), ("inverse", inv, "mv_to_celsius")):
        st.ghost["piecewise_nan_possible"] = []
        out = vc.call_method(tc, method, x)
        vc.ensure(direction + "/no-exception", out.kind == "ret")
        if out.kind != "ret":
            continue
        for c in st.ghost["piecewise_nan_possible"]:
            vc.ensure(direction + "/total: the-NaN-default-is-never-selected", Not(c))
        res = out.value
        for i, (lo, hi, cs) in enumerate(pieces):
            inside = True
            if lo is not None:
                inside = And(inside, x >= lo)
            if hi is not None:
                inside = And(inside, x < hi)
            expect = SymReal(poly_term(cs, x.e))
            if direction == "forward" and exp is not None:
                E = z3.Function("EXP", z3.RealSort(), z3.RealSort())
                g = rv(exp[0]) * E(rv(exp[1]) * ((x.e - rv(exp[2])) * (x.e - rv(exp[2]))))
                expect = SymReal(z3.If(x.e >= 0, expect.e + g, expect.e))
            vc.ensure("%s/piece[%d]/value-is-the-piece's-polynomial" % (direction, i), Implies(inside, res == expect))


class Elem(object):
    pass


TS_VARIANTS = [("%s,direction=%d" % (code, d), (code, d)) for code in (10047, 10055, 10072, 10073, 10077, 10082, 10085, 10086)
               for d in (0, 1)]
CODE2TYPE = {10047: "b", 10055: "e", 10072: "j", 10073: "k", 10077: "n", 10082: "r", 10085: "s", 10086: "t"}


def _replay_tscaling(md, vparam, model, st):
    code, direction = vparam
    script = """
import sys
from nptdms import thermocouples
from nptdms.scaling import ThermocoupleScaling
code, direction = %r, %r
want = getattr(thermocouples, "type_" + %r)
props = {"NI_Scale[0]_Thermocouple_Thermocouple_Type": code, "NI_Scale[0]_Thermocouple_Scaling_Direction": direction,
         "NI_Scale[0]_Thermocouple_Input_Source": 0xFFFFFFFF}
sc = ThermocoupleScaling.from_properties(props, 0)
print("type code", code, "selects", "the right table" if sc.thermocouple is want else "ANOTHER table")
sys.exit(0 if sc.thermocouple is want else 1)
""" % (code, direction, CODE2TYPE[code])
    return {"script": script, "function": "scaling.ThermocoupleScaling.__init__"}


@harness("thermocouple_scaling", ["scaling.ThermocoupleScaling.__init__", "scaling.ThermocoupleScaling.scale",
                                  "scaling.ThermocoupleScaling.from_properties"], ["C18", "C13"],
         variants=TS_VARIANTS, replay=_replay_tscaling,
         note="type code -> table, direction and the microvolt convention, on one arbitrary real element")
def _scaling(vc):
    code, direction = vc.variant
    st = vc.st
    st.real_floats = True
    props = {"NI_Scale[0]_Thermocouple_Thermocouple_Type": code, "NI_Scale[0]_Thermocouple_Scaling_Direction": direction,
             "NI_Scale[0]_Thermocouple_Input_Source": 0xFFFFFFFF}
    cls = vc.interp.get("scaling.ThermocoupleScaling")
    out = vc.call(vc.interp.getattr_value(cls, "from_properties"), props, 0)
    vc.ensure("no-exception", out.kind == "ret")
    sc = out.value
    tc = vc.interp.get("thermocouples.type_%s" % CODE2TYPE[code])
    vc.ensure("type-code-selects-the-table", sc.thermocouple is tc)
    x = vc.real("x")
    # contracts of the two conversions (harness thermocouple_eval): tokens F(x), G(x)
    F = z3.Function("FWD", z3.RealSort(), z3.RealSort())
    G = z3.Function("INV", z3.RealSort(), z3.RealSort())
    from pyvc.npmodel import ListArr

    def elementwise(fn):
        return lambda i, f, a, k: ListArr([SymReal(fn(z3real(e))) for e in a[1].items], "float64")
    vc.interp.contracts_at_calls["nptdms.thermocouples:Thermocouple.celsius_to_mv"] = elementwise(F)
    vc.interp.contracts_at_calls["nptdms.thermocouples:Thermocouple.mv_to_celsius"] = elementwise(G)
    data = ListArr([x], "float32")
    data.alias = "input"
    r = vc.call_method(sc, "scale", data)
    vc.ensure("scale/no-exception", r.kind == "ret")
    if r.kind != "ret":
        return
    if direction == 1:
        vc.ensure("direction-1: temperature -> microvolts = 1000 * forward(T)", r.value.items[0] == SymReal(1000 * F(x.e)))
    else:
        vc.ensure("direction-0: microvolts -> temperature = inverse(uV / 1000)", r.value.items[0] == SymReal(G(x.e / 1000)))
    vc.ensure("c14/converted-to-double-before-scaling", r.value.dtype_ == np.dtype("float64"))
    vc.ensure("c13/raw-data-not-modified", not vc.st.ghost.get("purity_violations"), kind="frame")


@harness("thermocouple_eval_elementwise", ["thermocouples.Thermocouple.celsius_to_mv",
                                           "thermocouples.Thermocouple.mv_to_celsius"], ["C18"],
         variants=[(t.upper(), t) for t in TYPES], timeout_ms=90000,
         note="both conversions on a 2-element array of arbitrary reals: every element gets the value the scalar "
              "conversion gives it (no decision is taken for the array as a whole)")
def _eval_pair(vc):
    from pyvc.npmodel import ListArr
    t = vc.variant
    st = vc.st
    st.real_floats = True
    tc, fwd, inv, exp = table(vc, t)
    xs = [vc.real("x0"), vc.real("x1")]
    for direction, pieces, method in (("forward", fwd, "celsius_to_mv"), ("inverse", inv, "mv_to_celsius")):
        st.ghost["piecewise_nan_possible"] = []
        arr = ListArr(list(xs), "float64")
        out = vc.call_method(tc, method, arr)
        vc.ensure(direction + "/no-exception", out.kind == "ret")
        if out.kind != "ret":
            continue
        res = out.value
        vc.ensure(direction + "/two-results", len(res) == 2)
        for k, x in enumerate(xs):
            for i, (lo, hi, cs) in enumerate(pieces):
                inside = True
                if lo is not None:
                    inside = And(inside, x >= lo)
                if hi is not None:
                    inside = And(inside, x < hi)
                expect = SymReal(poly_term(cs, x.e))
                if direction == "forward" and exp is not None:
                    E = z3.Function("EXP", z3.RealSort(), z3.RealSort())
                    g = rv(exp[0]) * E(rv(exp[1]) * ((x.e - rv(exp[2])) * (x.e - rv(exp[2]))))
                    expect = SymReal(z3.If(x.e >= 0, expect.e + g, expect.e))
                vc.ensure("%s/element[%d]/piece[%d]/value-is-the-piece's-polynomial" % (direction, k, i),
                          Implies(inside, res.items[k] == expect))
