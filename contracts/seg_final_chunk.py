"""Truncated final chunk: per-object value counts (C06 (b)), chunk size and memo functions (C01 O5, C05)."""
import itertools
from pyvc.harness import harness
from pyvc import sym
from spec import layout as L
from spec import addr as A
from spec.base import And, Or, Not, Implies, Ite, Min, Max
from contracts.seg_chunks import mk_objects, tclass, PALETTE

SHAPES = [k for n in (1, 2, 3) for k in itertools.product(("i2", "f8"), repeat=n)]
FCL_VARIANTS = [("%s,%s" % ("+".join(k), m), (k, m)) for k in SHAPES
                for m in ("contiguous-incomplete", "contiguous-complete", "interleaved")] + \
               [("with-string", (("i2", "str"), "contiguous-incomplete"))]


def mk_seg(vc, objs, toc, incomplete):
    return vc.new("tdms_segment.TdmsSegment", position=0, toc_mask=toc, next_segment_pos=0, data_position=0,
                  num_chunks=0, final_chunk_lengths_override=None, ordered_objects=list(objs), object_index=None,
                  segment_incomplete=incomplete, has_daqmx_objects_cached=None, chunk_size_cached=None,
                  data_objects_cached=None)


@harness("compute_final_chunk_lengths", ["tdms_segment.TdmsSegment._compute_final_chunk_lengths",
                                         "tdms_segment.TdmsSegment._have_daqmx_objects"], ["C06", "C01"],
         variants=FCL_VARIANTS, level="shape-bounded",
         bound="<= 3 data objects over {Int16, DoubleFloat} (+ one list with a String); value counts and the "
               "remainder symbolic; one object may have no data")
def _fcl(vc):
    kinds, mode = vc.variant
    objs = mk_objects(vc, kinds)
    if len(objs) >= 2:
        objs[1].has_data = vc.bool("o1_has_data")
    toc = 2 | 4 | 8 | (32 if mode == "interleaved" else 0)
    if mode == "interleaved":
        for o in objs[1:]:
            vc.assume(o.number_values == objs[0].number_values)     # interleaved: equal lengths
    seg = mk_seg(vc, objs, toc, mode == "contiguous-incomplete")
    widths = [o._f["__width"] for o in objs]
    has = [o.has_data for o in objs]
    chunk_size = 0
    for o, w in zip(objs, widths):
        chunk_size = chunk_size + Ite(o.has_data, o.number_values * (w if w is not None else 1), 0)
    rem = vc.int("remainder", lo=1)
    vc.assume(rem < chunk_size)                     # precondition proved at the call site (_calculate_chunks)
    out = vc.call_method(seg, "_compute_final_chunk_lengths", chunk_size, rem)
    vc.ensure("no-exception", out.kind == "ret")
    if out.kind != "ret":
        return
    res = out.value
    if "str" in kinds:
        if vc.interp.truth(objs[1].has_data):
            vc.ensure("unsized-data: nothing-is-taken-from-the-partial-chunk", len(res) == 0)
        return
    counts = [res.get(o.path, 0) for o in objs]
    used = 0
    for i, (o, w) in enumerate(zip(objs, widths)):
        c = counts[i]
        vc.ensure("object[%d]/count-between-0-and-chunk-length" % i, And(c >= 0, c <= o.number_values))
        vc.ensure("object[%d]/no-count-for-objects-without-data" % i, Implies(Not(o.has_data), c == 0))
        used = used + Ite(o.has_data, c * w, 0)
    vc.ensure("never-invents-data: bytes-of-the-counted-values-fit-in-the-remainder", used <= rem)
    if mode == "contiguous-incomplete":
        # largest prefix-closed counts: leading objects whole, then one partial (as many as fit), rest none
        left = rem
        stopped = False
        for i, (o, w) in enumerate(zip(objs, widths)):
            if not vc.interp.truth(o.has_data):
                continue
            size = o.number_values * w
            if stopped:
                vc.ensure("object[%d]/nothing-after-the-partial-object" % i, counts[i] == 0)
                continue
            if vc.interp.truth(left >= size):
                vc.ensure("object[%d]/whole-when-its-bytes-are-present" % i, counts[i] == o.number_values)
                if vc.interp.truth(left == size):
                    stopped = True
                left = left - size
            else:
                vc.ensure("object[%d]/as-many-values-as-fit" % i,
                          And(counts[i] * w <= left, left < (counts[i] + 1) * w))
                stopped = True
    elif mode == "interleaved":
        W = 0
        for o, w in zip(objs, widths):
            W = W + Ite(o.has_data, w, 0)
        for i, o in enumerate(objs):
            if vc.interp.truth(o.has_data):
                vc.ensure("object[%d]/whole-rows-only" % i, And(counts[i] * W <= rem, rem < (counts[i] + 1) * W))


GCS_VARIANTS = [("%s,cached=%s" % ("+".join(k) if k else "none", c), (k, c))
                for k in [()] + SHAPES[:6] + [("i2", "str")] for c in (False, True)]


@harness("get_chunk_size", ["tdms_segment.TdmsSegment._get_chunk_size", "tdms_segment.TdmsSegment._get_data_objects",
                            "tdms_segment.TdmsSegment._have_daqmx_objects"], ["C01", "C05", "C06"],
         variants=GCS_VARIANTS, level="shape-bounded", bound="<= 2 objects; memo fields None or holding the value")
def _gcs(vc):
    kinds, cached = vc.variant
    objs = mk_objects(vc, kinds)
    if len(objs) >= 2:
        objs[1].has_data = vc.bool("o1_has_data")
    seg = mk_seg(vc, objs, 14, False)
    expected = 0
    for o in objs:
        expected = expected + Ite(o.has_data, o.data_size, 0)
    if cached:
        seg.chunk_size_cached = expected            # Segment.wf(): a memo is None or the value it memoises
        seg.has_daqmx_objects_cached = False
    out = vc.call_method(seg, "_get_chunk_size")
    vc.ensure("no-exception", out.kind == "ret")
    vc.ensure("chunk-size-is-the-sum-of-the-data-sizes-of-objects-with-data", out.value == expected)
    vc.ensure("memo-holds-the-value", seg.chunk_size_cached == expected)
    out2 = vc.call_method(seg, "_get_chunk_size")
    vc.ensure("second-call-agrees(memo=recomputation)", out2.value == expected)
    d = vc.call_method(seg, "_get_data_objects")
    exp_objs = [o for o in objs if vc.interp.truth(o.has_data)]
    vc.ensure("data-objects-are-those-with-data-in-list-order",
              len(d.value) == len(exp_objs) and all(a is b for a, b in zip(d.value, exp_objs)))
    vc.ensure("object-list-not-modified", len(seg.ordered_objects) == len(objs)
              and all(a is b for a, b in zip(seg.ordered_objects, objs)))
