"""common.py: object path encoding / decoding over strings of unbounded length (C16).

Strings are character arrays (z3 Array Int->Int of code points) with symbolic length.  The encoder's
result P = enc(names) is characterised pointwise (quote doubling, assumed for str.replace / join and stated
in spec terms): with L(0)=0, L(j+1)=L(j)+(2 if name[j]=="'" else 1),
   P[b-2]='/', P[b-1]="'", P[b+L(j)]=name[j] (and P[b+L(j)+1]="'" if name[j] is a quote), P[b+L(n)]="'"
The scanner `_path_components` is executed on P with inductive invariants for its two `while True` loops;
no string solver is used (arrays + linear integer arithmetic), the L-axioms are instantiated at the ghost
index j.
"""
import itertools
import z3
from pyvc.harness import harness
from pyvc.interp import LoopSpec, ProgExc, Obj
from pyvc.models import SymStr, fresh_str, CatStr
from pyvc import sym
from pyvc.sym import SymInt, SymBool, _lift, Unsupported
from spec.base import And, Or, Not, Implies, Ite

I = z3.IntSort()
Q = ord("'")
SL = ord("/")


def zi(v):
    return sym.z3int(v)


class SymChar(object):
    """one character (code point) of a symbolic string"""

    def __init__(self, code):
        self.code = code

    def _o(self, o):
        if isinstance(o, SymChar):
            return o.code
        if isinstance(o, str) and len(o) == 1:
            return ord(o)
        return None

    def __eq__(self, o):
        c = self._o(o)
        if c is None:
            return False
        return self.code == c

    def __ne__(self, o):
        c = self._o(o)
        if c is None:
            return True
        return self.code != c

    def __hash__(self):
        return id(self)

    def __iter__(self):
        return iter([self])      # `list += char` extends by the one character


class CharStr(object):
    """a string as (array, length); `shift` marks the view s[1:]"""

    def __init__(self, arr, length, shift=0):
        self.arr = arr
        self.length = length
        self.shift = shift

    def sym_len(self):
        return self.length - self.shift

    def at(self, i):
        return _lift(z3.Select(self.arr, zi(i)))


def _charstr_getitem(interp, s, k):
    if isinstance(k, slice) and k.start == 1 and k.stop is None and k.step is None and s.shift == 0:
        return CharStr(s.arr, s.length, 1)
    raise Unsupported("string index %r" % (k,))


class PairIter(object):
    """zip_longest(path, path[1:]): item k is (path[k], path[k+1] or None); exhausted at k == len(path)"""

    def __init__(self, s):
        self.s = s
        self.k = 0

    def __iter__(self):
        return self

    def __next__(self):
        s = self.s
        if not bool(self.k < s.length):
            raise StopIteration
        c = SymChar(s.at(self.k))
        if bool(self.k + 1 < s.length):
            n = SymChar(s.at(self.k + 1))
        else:
            n = None
        self.k = self.k + 1
        return (c, n)


def m_zip_longest(interp, a, b):
    from pyvc.models import trusted
    trusted("itertools.zip_longest(s, s[1:]) yields (s[k], s[k+1]) and (s[-1], None) last")
    if isinstance(a, CharStr) and isinstance(b, CharStr) and a.arr is b.arr and a.shift == 0 and b.shift == 1:
        return PairIter(a)
    return itertools.zip_longest(a, b)


class SymList(object):
    """list of characters as (array, length)"""

    def __init__(self, arr, length):
        self.arr = arr
        self.length = length


def _symlist_binop(interp, opt, l, r, inplace):
    import ast
    if opt is ast.Add and isinstance(l, SymList):
        items = [r] if isinstance(r, SymChar) else [SymChar(ord(ch)) for ch in r]
        arr, ln = l.arr, l.length
        for it in items:
            arr = z3.Store(arr, zi(ln), zi(it.code))
            ln = ln + 1
        return SymList(arr, ln)
    return NotImplemented


class Joined(object):
    """''.join(list of characters)"""

    def __init__(self, arr, length):
        self.arr = arr
        self.length = length


# ---------------------------------------------------------------------------- spec facts

def Lf(m):
    return z3.Function("L%d" % m, I, I)


def enc_facts(st, P, names, bases, ends, j_terms=()):
    """pointwise characterisation of P = enc(names) instantiated at the given ghost indices"""
    for m, (G, n) in enumerate(names):
        L = Lf(m)
        b = zi(bases[m])
        st.add_fact(z3.And(L(0) == 0, z3.Select(P, b - 2) == SL, z3.Select(P, b - 1) == Q,
                           z3.Select(P, b + L(zi(n))) == Q, zi(ends[m]) == b + L(zi(n)), zi(n) >= 0,
                           L(zi(n)) >= zi(n)))       # lemma L(j) >= j (harness path_offset_lemma)
    for (m, j) in j_terms:
        G, n = names[m]
        L = Lf(m)
        b = zi(bases[m])
        j = zi(j)
        g = z3.Select(G, j)
        st.add_fact(z3.Implies(z3.And(j >= 0, j < zi(n)),
                               z3.And(z3.Select(P, b + L(j)) == g,
                                      z3.If(g == Q,
                                            z3.And(z3.Select(P, b + L(j) + 1) == Q, L(j + 1) == L(j) + 2),
                                            L(j + 1) == L(j) + 1))))
        st.add_fact(z3.Implies(z3.And(j >= 0, j <= zi(n)), z3.And(L(j) >= j, L(j) <= L(zi(n)))))


def _setup(interp):
    interp.models[("getitem", CharStr)] = _charstr_getitem
    interp.models[("binop", SymList)] = _symlist_binop
    def zl(interp_, a, b):
        if isinstance(a, CharStr) and isinstance(b, CharStr):
            return m_zip_longest(interp_, a, b)
        return None
    interp._zip_longest_hook = zl

    def str_join(interp_, sep, it):
        if isinstance(it, SymList) and sep == "":
            return Joined(it.arr, it.length)
        return None
    interp._join_hook = str_join

    def on_yield(qual, value, env):
        if not qual.endswith("_path_components"):
            return
        st = sym.get_state()
        g = st.ghost["path"]
        m = env.vars["__m"]
        st.check("yield/component-index-in-range", And(m >= 0, m < len(g["names"])), kind="yield")
        for mm, (G, n) in enumerate(g["names"]):
            st.check("yield/component[%d]-is-the-name-given-to-the-encoder" % mm,
                     Implies(m == mm, And(isinstance(value, Joined), value.length == n, _lift(value.arr == G))),
                     kind="yield")
        st.ghost["yielded"] = st.ghost.get("yielded", 0) + 1
        env.vars["__m"] = m + 1            # ghost: one more component delivered
    interp.yield_hook = on_yield

    def outer_inv(env, it, st):
        g = st.ghost["path"]
        v = env.vars
        m = v["__m"]
        chars = v["chars"]
        M = len(g["names"])
        enc_facts(st, g["P"], g["names"], g["bases"], g["ends"])
        conds = [("component-counter-in-range", And(m >= 0, m <= M))]
        pos = []
        for mm in range(M + 1):
            start = 0 if mm == 0 else g["ends"][mm - 1] + 1
            pos.append(Implies(m == mm, chars.k == start))
        conds.append(("cursor-at-the-slash-of-component-m(or-at-the-end)", And(*pos)))
        return conds

    def outer_havoc_chars(st, env):
        env.vars["chars"].k = st.fresh_int("k")
        return 0
    interp.loop_specs[("nptdms.common:_path_components", 0)] = LoopSpec(
        outer_inv, havoc={"__m": "int", "__chars": outer_havoc_chars,
                          "__locals__": ("char", "next_char", "component")},
        ghost_init=lambda env, st: (env.vars.__setitem__("__m", 0), st.ghost.__setitem__("genv", env.vars)),
        name="components")

    def inner_inv(env, it, st):
        g = st.ghost["path"]
        v = env.vars
        m = v["__m"]
        comp = v["component"]
        j = comp.length
        chars = v["chars"]
        conds = []
        M = len(g["names"])
        for mm in range(M):
            G, n = g["names"][mm]
            enc_facts(st, g["P"], g["names"], g["bases"], g["ends"], j_terms=[(mm, j), (mm, j + 1)])
            L = Lf(mm)
            conds.append(("in-component[%d]" % mm, Implies(m == mm, And(
                j >= 0, j <= n,
                chars.k == g["bases"][mm] + _lift(L(zi(j))),
                comp.length == j,
                _lift(comp.arr == G)))))
        conds.append(("component-index", And(m >= 0, m < M)))
        return conds

    def inner_havoc(st, env):
        env.vars["chars"].k = st.fresh_int("k")
        env.vars["component"] = SymList(z3.Array(sym.fresh_name("comp"), I, I), st.fresh_int("complen"))
        return 0

    def inner_ghost_init(env, st):
        # the freshly created `component = []` is the empty prefix of the name: as an array any array with
        # length 0 will do; we pick the name's own array so that the invariant is about contents only
        g = st.ghost["path"]
        m = env.vars["__m"]
        for mm in range(len(g["names"])):
            if interp.truth(m == mm):
                env.vars["component"] = SymList(g["names"][mm][0], 0)
                return
        env.vars["component"] = SymList(z3.Array(sym.fresh_name("comp"), I, I), 0)
    interp.loop_specs[("nptdms.common:_path_components", 1)] = LoopSpec(
        inner_inv, havoc={"__state": inner_havoc, "__locals__": ("char", "next_char", "component")},
        ghost_init=inner_ghost_init, on_iter=None, name="characters")


VARIANTS = [("components=%d" % m, m) for m in (0, 1, 2)]


@harness("path_roundtrip", "common._path_components", ["C16"], variants=VARIANTS, setup=_setup,
         note="names of unbounded length over arbitrary code points (quotes, slashes, anything): the scanner's "
              "two loops are cut by inductive invariants; ghost j indexes the name, L(j) the encoded offset")
def _path_roundtrip(vc):
    M = vc.variant
    st = vc.st
    P = z3.Array("P", I, I)
    names = []
    bases, ends = [], []
    for m in range(M):
        G = z3.Array("G%d" % m, I, I)
        n = vc.int("n%d" % m, lo=0)
        names.append((G, n))
        b = 2 if m == 0 else ends[m - 1] + 3
        bases.append(b)
        ends.append(b + _lift(Lf(m)(zi(n))))
    LEN = 1 if M == 0 else ends[-1] + 1
    if M == 0:
        st.add_fact(z3.Select(P, 0) == SL)
    st.ghost["path"] = dict(P=P, names=names, bases=bases, ends=ends, LEN=LEN)
    enc_facts(st, P, names, bases, ends)
    path = CharStr(P, LEN)
    st.ghost["yielded"] = 0
    g = vc.call("common._path_components", path)
    out = vc.drain(g.value)
    vc.ensure("valid-path-is-accepted(no-ValueError)", out.kind == "ret")
    # the scanner stops (StopIteration inside next()) only after the last component was delivered
    if "genv" not in st.ghost:
        # the loop invariant is keyed on the scanner's loop; without that loop the contract has nothing to say
        raise sym.Unsupported("_path_components no longer has the scanning loop the invariant is attached to")
    vc.ensure("stops-only-after-the-last-component", st.ghost["genv"]["__m"] == M)


# the increment of the ghost counters is tied to the program points by statement hooks below
def _install_ghost_updates(interp):
    pass


@harness("path_offset_lemma", [], ["C16"], note="lemma used as ground instances: L(j) >= j and L nondecreasing, "
                                               "by induction on j from L(0)=0, L(j+1)=L(j)+(1|2)")
def _path_offset_lemma(vc):
    st = vc.st
    L = Lf(0)
    j = vc.int("j", lo=0)
    st.add_fact(L(0) == 0)
    step = vc.int("step")
    vc.assume(Or(step == 1, step == 2))
    st.add_fact(L(zi(j) + 1) == L(zi(j)) + zi(step))
    vc.ensure("base", _lift(L(0) >= 0))
    st.add_fact(L(zi(j)) >= zi(j))                    # induction hypothesis
    vc.ensure("step: L(j+1) >= j+1", _lift(L(zi(j) + 1) >= zi(j) + 1))
    vc.ensure("step: L(j+1) >= L(j)", _lift(L(zi(j) + 1) >= L(zi(j))))


ENC_VARIANTS = [("root", 0), ("group", 1), ("channel", 2), ("three-components", 3)]


@harness("path_encoder", ["common._components_to_path", "common.ObjectPath.__init__", "common.ObjectPath.__str__",
                          "common.ObjectPath.group_path", "common.ObjectPath.is_root", "common.ObjectPath.is_group",
                          "common.ObjectPath.is_channel"], ["C16", "C08"], variants=ENC_VARIANTS,
         note="names are atoms of arbitrary content; the encoder's result is the concatenation "
              "/ 'esc(group)' / 'esc(channel)' with esc = quote doubling (str.replace, assumed)")
def _path_encoder(vc):
    k = vc.variant
    st = vc.st
    names = [fresh_str(st, "name%d" % i) for i in range(k)]
    OP = vc.interp.get("common.ObjectPath")
    out = vc.call(OP, *names)
    if k == 3:
        vc.ensure("more-than-two-components-rejected", out.raised(ValueError))
        return
    vc.ensure("no-exception", out.kind == "ret")
    p = out.value
    s = vc.interp.call_method(p, "__str__", [], {})
    esc = z3.Function("esc", I, I)

    def is_esc(piece, name):
        return _lift(zi(piece.ident) == esc(zi(name.ident)))
    if k == 0:
        vc.ensure("root-path-is-/", s == "/")
        vc.ensure("root-flags", p.is_root is True and p.is_group is False and p.is_channel is False)
        vc.ensure("names", p.group is None and p.channel is None)
        return
    vc.ensure("names-kept-as-given", p.group is names[0] and p.channel is (names[1] if k == 2 else None))
    if k == 1:
        vc.ensure("group-path-shape", isinstance(s, CatStr) and s.shape() == ("/'", None, "'"))
        vc.ensure("group-name-quote-doubled", is_esc(s.pieces[1], names[0]))
        vc.ensure("group-flags", p.is_root is False and p.is_group is True and p.is_channel is False)
        return
    vc.ensure("channel-path-shape", isinstance(s, CatStr) and s.shape() == ("/'", None, "'/'", None, "'"))
    vc.ensure("both-names-quote-doubled-in-order", And(is_esc(s.pieces[1], names[0]), is_esc(s.pieces[3], names[1])))
    vc.ensure("channel-flags", p.is_root is False and p.is_group is False and p.is_channel is True)
    gp = vc.interp.call_method(p, "group_path", [], {})
    vc.ensure("group_path-is-the-path-of-the-channel's-group",
              isinstance(gp, CatStr) and gp.shape() == ("/'", None, "'") and
              vc.interp.truth(is_esc(gp.pieces[1], names[0])))
