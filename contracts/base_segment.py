"""base_segment.fromfile / read_interleaved_segment_bytes: what is read from where (C01 O6/O7, C06 (c), C19)."""
import numpy as np
from pyvc.harness import harness
from pyvc.models import SFile
from pyvc.npmodel import FileArr, BufView, as_filearr
from pyvc import sym
from pyvc.sym import sym_and, sym_or, sym_not
from spec.base import And, Or, Not, Implies, Ite, Min, Max

DTYPES = [("uint8", np.dtype("uint8")), ("<i4", np.dtype("<i4")), (">f8", np.dtype(">f8")),
          ("<c16", np.dtype("<c16"))]


def fromfile_post(vc, f, pos0, count, itemsize, arr, prefix=""):
    """postcondition of fromfile(file, dtype, count): the items view content[pos0 : pos0+m),
    m = min(count*itemsize, size-pos0) rounded down to whole items; cursor advanced by the bytes consumed"""
    avail = Max(f.size - pos0, 0)
    want = count * itemsize
    m = Min(want, avail)
    a = as_filearr(arr)
    vc.ensure(prefix + "items-start-at-cursor", Or(a.count == 0, a.base == pos0))
    vc.ensure(prefix + "consecutive-items", And(a.stride == itemsize, a.itemsize == itemsize))
    vc.ensure(prefix + "item-count-is-floor(bytes/itemsize)",
              And(a.count * itemsize <= m, m < (a.count + 1) * itemsize))
    vc.ensure(prefix + "cursor-advanced-by-bytes-read", f.pos == pos0 + m)
    vc.ensure(prefix + "content-is-the-file's", Or(a.count == 0, a.content is f.content))


@harness("fromfile", "base_segment.fromfile", ["C01", "C06", "C19", "C15"], variants=DTYPES,
         note="loop `while bytes_read != 0` terminates after at most two iterations under the file model "
              "(readinto transfers min(len, size-pos) bytes: short reads only at EOF)")
def _fromfile(vc):
    dt = vc.variant
    f = SFile("f")
    pos0 = vc.int("pos0", lo=0)
    f.pos = pos0
    vc.assume(f.size >= 0)
    count = vc.int("count", lo=0)
    out = vc.call("base_segment.fromfile", f, dt, count)
    vc.ensure("no-exception", out.kind == "ret")
    if out.kind != "ret":
        return
    fromfile_post(vc, f, pos0, count, dt.itemsize, out.value)
    a = as_filearr(out.value)
    vc.ensure("dtype-as-requested", a.dtype_ == dt)
    # C19: every byte read lies in [pos0, pos0 + count*itemsize)
    for (p, n) in f.reads:
        vc.ensure("reads-within-requested-range", And(p >= pos0, p + n <= pos0 + count * dt.itemsize),
                  kind="read-set")


def fromfile_contract(interp, f, args, kwargs):
    """call-site contract of fromfile (the postcondition proved by harness `fromfile`)"""
    st = sym.get_state()
    file = args[0]
    dtype = kwargs.get("dtype", args[1] if len(args) > 1 else None)
    count = kwargs.get("count", args[2] if len(args) > 2 else None)
    dt = np.dtype(dtype)
    st.check("call-pre/fromfile/count>=0", count >= 0, kind="call-pre")
    pos0 = file.pos
    avail = Max(file.size - pos0, 0)
    want = count * dt.itemsize
    full = want <= avail
    if interp.truth(full):
        m = want
        n = count
    else:
        m = avail
        n = st.fresh_int("items")
        st.assume(And(n >= 0, n * dt.itemsize <= m, m < (n + 1) * dt.itemsize))
    file.reads.append((pos0, m))
    if file.read_hook is not None:
        file.read_hook(file, pos0, m)
    file.pos = pos0 + m
    return FileArr(file.content, pos0, n, dt.itemsize, dt.itemsize, dt)


@harness("read_interleaved_segment_bytes", "base_segment.read_interleaved_segment_bytes",
         ["C01", "C06", "C11", "C19"],
         setup=lambda interp: interp.contracts_at_calls.__setitem__("nptdms.base_segment:fromfile",
                                                                    fromfile_contract))
def _read_interleaved_segment_bytes(vc):
    f = SFile("f")
    pos0 = vc.int("pos0", lo=0)
    f.pos = pos0
    vc.assume(f.size >= 0)
    w = vc.int("bytes_per_row", lo=1)
    nv = vc.int("num_values", lo=0)
    out = vc.call("base_segment.read_interleaved_segment_bytes", f, w, nv)
    vc.ensure("no-exception", out.kind == "ret")
    if out.kind != "ret":
        return
    a = out.value
    avail = Max(f.size - pos0, 0)
    m = Min(w * nv, avail)
    rows, width = a.rows2d
    vc.ensure("row-width", width == w)
    vc.ensure("whole-rows-only", And(rows * w <= m, m < (rows + 1) * w))
    vc.ensure("rows-start-at-cursor", Or(rows == 0, And(a.base == pos0, a.content is f.content)))
    vc.ensure("rows-consecutive", a.stride == w)
    vc.ensure("complete-data-gives-all-rows", Implies(w * nv <= avail, rows == nv))
    for (p, n) in f.reads:
        vc.ensure("reads-within-requested-range", And(p >= pos0, p + n <= pos0 + w * nv), kind="read-set")
