"""tdms_segment.TdmsSegment.read_segment_objects and helpers against spec.inherit.denote (C02, C01 O4)."""
import ast
import z3
from pyvc.harness import harness
from pyvc.interp import LoopSpec
from pyvc.models import SFile, SBytes, SymStr, fresh_str
from pyvc.interp import ProgExc
from pyvc.interp import Obj
from pyvc import sym
from pyvc.sym import _lift
from spec import layout as L
from spec import inherit as INH
from spec.base import And, Or, Not, Implies, Ite, Min, Max, uint, sint


class Tok(object):
    def __init__(self, n):
        self.n = n

    def __repr__(self):
        return "<%s>" % self.n


class TypeTok(object):
    """a TDMS data type known by a symbolic code (two types are equal iff their codes are)"""

    def __init__(self, code):
        self.code = code

    def __eq__(self, o):
        if isinstance(o, TypeTok):
            return self.code == o.code
        return False

    def __ne__(self, o):
        from pyvc.sym import sym_not
        return sym_not(self.__eq__(o))

    def __hash__(self):
        return id(self)

    size = 4
    nptype = None


def mk_segobj(vc, path, tag):
    has = vc.bool(tag + "_has")
    nv = vc.int(tag + "_nv", lo=0)
    size = vc.int(tag + "_size", lo=0)
    typ = TypeTok(vc.int(tag + "_type", lo=0))
    o = vc.new("tdms_segment.TdmsSegmentObject", path=path, number_values=nv, data_size=size, has_data=has,
               data_type=typ)
    return o


def view(o):
    return (o.path, o.has_data, (o.number_values, o.data_size, o.data_type))


def snapshot(o):
    return (o, o.path, o.has_data, o.number_values, o.data_size, o.data_type)


def _setup(interp):
    def read_raw_data_index(interp, f, args, kwargs):
        """contract of TdmsSegmentObject.read_raw_data_index (harness read_raw_data_index): fields are a
        function of the bytes at the cursor; cursor advances"""
        st = sym.get_state()
        obj, file, header, order = args
        pos = file.pos
        nv = _lift(z3.Function("IDX_NV", z3.IntSort(), z3.IntSort())(sym.z3int(pos)))
        size = _lift(z3.Function("IDX_SIZE", z3.IntSort(), z3.IntSort())(sym.z3int(pos)))
        st.assume(And(nv >= 0, size >= 0))
        typ = TypeTok(_lift(z3.Function("IDX_TYPE", z3.IntSort(), z3.IntSort())(sym.z3int(pos))))
        interp.setattr_value(obj, "number_values", nv)
        interp.setattr_value(obj, "data_type", typ)
        interp.setattr_value(obj, "data_size", size)
        adv = st.fresh_int("idxlen")
        st.assume(adv >= 16)
        file.pos = pos + adv
        st.ghost.setdefault("index_reads", []).append((obj, pos, header, order))
        return None

    def read_object_properties(interp, f, args, kwargs):
        st = sym.get_state()
        seg, file, order = args
        pos = file.pos
        adv = st.fresh_int("proplen")
        st.assume(adv >= 4)
        file.pos = pos + adv
        st.ghost.setdefault("prop_reads", []).append((pos, order, pos + adv))
        # alternate deterministically between "has properties" and "none" (both code branches, no path split)
        n = len(st.ghost["prop_reads"])
        if n % 2 == 1:
            return [("props-at", pos)]
        return None

    def calculate_chunks(interp, f, args, kwargs):
        st = sym.get_state()
        st.ghost["calculated"] = st.ghost.get("calculated", 0) + 1
        lst = args[0].ordered_objects
        st.ghost["calc_list_obj"] = lst
        st.ghost["calc_list"] = list(lst) if isinstance(lst, list) else None
        return None

    interp.contracts_at_calls["nptdms.tdms_segment:TdmsSegmentObject.read_raw_data_index"] = read_raw_data_index
    interp.contracts_at_calls["nptdms.daqmx:DaqmxSegmentObject.read_raw_data_index"] = read_raw_data_index
    interp.contracts_at_calls["nptdms.tdms_segment:TdmsSegment._read_object_properties"] = read_object_properties
    interp.contracts_at_calls["nptdms.tdms_segment:TdmsSegment._calculate_chunks"] = calculate_chunks


def types_equal(a, b):
    if isinstance(a, TypeTok) and isinstance(b, TypeTok):
        return a.code == b.code
    return a is b


VARIANTS = [("prev=%s,extra=%d,cache=%s" % (p, x, c), (p, x, c))
            for (p, x, c) in [("none", 0, False), ("none", 1, False), (0, 0, False), (0, 1, False),
                              (1, 0, False), (1, 1, False), (2, 0, False), (1, 0, True), (2, 0, True),
                              ("none", 0, True)]]


@harness("read_segment_objects", ["tdms_segment.TdmsSegment.read_segment_objects",
                                  "tdms_segment.TdmsSegment._update_existing_object",
                                  "tdms_segment.TdmsSegment._reuse_previous_object",
                                  "tdms_segment.TdmsSegment._reuse_previous_segment_metadata",
                                  "tdms_segment.TdmsSegment._get_existing_object",
                                  "tdms_segment.TdmsSegment._new_segment_object",
                                  "tdms_segment.SegmentIndexCache.get_index",
                                  "tdms_segment.ObjectListKey.__init__", "tdms_segment.ObjectListKey.__eq__",
                                  "tdms_segment.ObjectListKey.__hash__"],
         ["C02", "C01", "C15"], variants=VARIANTS, setup=_setup, level="shape-bounded",
         thorough_variants=[("prev=%s,extra=%d,cache=%s" % (p, x, c), (p, x, c))
                            for (p, x, c) in [(2, 1, False), (3, 0, False), (3, 0, True)]] +
                           [("prev=%s,extra=0,cache=%s,listed<=3" % (p, c), (p, 0, c, 3))
                            for (p, c) in [("none", False), (1, False)]],
         thorough_bound="previous segment with <= 3 objects, or 2 objects plus an older object known only to the "
                        "reader; <= 3 objects listed in this segment's metadata (previous <= 1, index cache not in use)",
         bound="previous segment absent or with <= 2 objects (<= 1 when an older object known only to the "
               "reader is present), "
               "<= 2 objects listed in this segment's metadata; ToC flags, byte order, paths, headers, index "
               "fields and properties symbolic", split_variants=True, weight=30)
def _read_segment_objects(vc):
    (p, extra, use_cache) = vc.variant[:3]
    maxcount = vc.variant[3] if len(vc.variant) > 3 else 2
    st = vc.st
    f = SFile("f")
    pos0 = vc.int("pos0", lo=0)
    f.pos = pos0
    vc.assume(f.size >= 0)
    f.assume_present = True          # well-formed: the metadata block is entirely present
    toc = vc.int("toc", lo=0)
    seg = vc.new("tdms_segment.TdmsSegment", position=vc.int("position", lo=0), toc_mask=toc,
                 next_segment_pos=vc.int("next", lo=0), data_position=vc.int("datapos", lo=0), num_chunks=0,
                 final_chunk_lengths_override=None, ordered_objects=None, object_index=None,
                 segment_incomplete=False, has_daqmx_objects_cached=None, chunk_size_cached=None,
                 data_objects_cached=None)
    prev_objs = []
    paths = []
    if p != "none":
        for i in range(p):
            q = fresh_str(st, "q%d" % i)
            for other in paths:
                vc.assume(Not(q == other))            # unique paths within one object list (valid encoding)
            paths.append(q)
            prev_objs.append(mk_segobj(vc, q, "prev%d" % i))
        # the previous segment's path index: a real dictionary when an index is being kept (so that a segment
        # wrongly reusing it is seen to map paths to the wrong positions), an opaque token otherwise
        prev_index = dict((o.path, i) for i, o in enumerate(prev_objs)) if use_cache else Tok("prev-index")
        prev_seg = vc.new("tdms_segment.TdmsSegment", ordered_objects=list(prev_objs), object_index=prev_index,
                          position=0, toc_mask=14, num_chunks=0)
    else:
        prev_seg = None
    prev_map = {}
    for o in prev_objs:
        prev_map[o.path] = o
    older = []
    for i in range(extra):
        q = fresh_str(st, "r%d" % i)
        for other in paths:
            vc.assume(Not(q == other))
        paths.append(q)
        o = mk_segobj(vc, q, "older%d" % i)
        older.append(o)
        prev_map[q] = o
    cache = vc.interp.instantiate(vc.interp.get("tdms_segment.SegmentIndexCache"), [], {}) if use_cache else None
    snaps = [snapshot(o) for o in prev_objs + older]
    prev_list_before = list(prev_objs)
    prev_map_keys_before = list(prev_map.keys())

    # ---- the bytes: object count, then per object path / header (positions follow from the parse)
    has_meta = vc.interp.truth((toc & L.TOC_META) != 0)
    big = vc.interp.truth((toc & L.TOC_BIG_ENDIAN) != 0)
    new_list = vc.interp.truth((toc & L.TOC_NEW_OBJ_LIST) != 0)
    count = uint(SBytes(f.content, pos0, 4), 0, 4, big)
    if has_meta:
        vc.assume(count <= maxcount)                           # shape bound
        vc.assume(f.size - pos0 >= 4)
    out = vc.call_method(seg, "read_segment_objects", f, prev_map, cache, prev_seg)

    # FRAME: earlier segments and their objects are never modified
    def frame_ok():
        for (o, path, has, nv, size, typ) in snaps:
            vc.ensure("frame/earlier-object-unchanged", And(o.has_data == has, o.number_values == nv,
                                                            o.data_size == size, o.data_type is typ,
                                                            o.path is path), kind="frame")
        if prev_seg is not None:
            lst = prev_seg.ordered_objects
            vc.ensure("frame/previous-segment-list-unchanged",
                      len(lst) == len(prev_list_before) and all(a is b for a, b in zip(lst, prev_list_before)),
                      kind="frame")
        vc.ensure("frame/reader-map-not-modified-here", list(prev_map.keys()) == prev_map_keys_before,
                  kind="frame")

    if not has_meta:
        if prev_seg is None:
            vc.ensure("no-metadata-in-first-segment-is-rejected", out.raised(ValueError))
            return
        vc.ensure("no-metadata/no-exception", out.kind == "ret")
        if out.kind != "ret":
            return
        vc.ensure("no-metadata/same-objects-as-previous-segment",
                  len(seg.ordered_objects) == len(prev_objs)
                  and all(a is b for a, b in zip(seg.ordered_objects, prev_objs)))
        vc.ensure("no-metadata/same-path-index", seg.object_index is prev_seg.object_index)
        vc.ensure("no-metadata/chunks-recomputed", st.ghost.get("calculated", 0) == 1)
        vc.ensure("no-metadata/nothing-read", f.pos == pos0)
        frame_ok()
        return

    order = ">" if big else "<"
    # entries as the layout defines them: path string at the cursor, 4-byte header after it
    idx_reads = st.ghost.get("index_reads", [])
    prop_reads = st.ghost.get("prop_reads", [])
    entries = []
    cur = pos0 + 4
    ncount = None
    for k in range(maxcount + 1):
        if vc.interp.truth(count == k):
            ncount = k
    if ncount is None:
        vc.unreachable("count-case-analysis")
        return
    if out.kind == "exc" and out.exc not in (ValueError,):
        # truncated metadata is outside the precondition (well-formed stream): bytes must be present
        pass
    ok_parse = True
    pi = 0
    ii = 0
    for k in range(ncount):
        plen = uint(SBytes(f.content, cur, 4), 0, 4, big)
        path = SBytes(f.content, cur + 4, plen).decode("utf-8")
        hpos = cur + 4 + plen
        header = uint(SBytes(f.content, hpos, 4), 0, 4, big)
        after_header = hpos + 4
        is_full = And(header != INH.NO_DATA, header != INH.SAME)
        if vc.interp.truth(is_full):
            idx = (_lift(z3.Function("IDX_NV", z3.IntSort(), z3.IntSort())(sym.z3int(after_header))),
                   _lift(z3.Function("IDX_SIZE", z3.IntSort(), z3.IntSort())(sym.z3int(after_header))),
                   TypeTok(_lift(z3.Function("IDX_TYPE", z3.IntSort(), z3.IntSort())(sym.z3int(after_header)))))
            if ii < len(idx_reads):
                (o_, ipos, ihdr, iord) = idx_reads[ii]
                vc.ensure("entry[%d]/index-read-right-after-header" % k, ipos == after_header)
                vc.ensure("entry[%d]/index-read-with-this-header-and-byte-order" % k,
                          And(ihdr == header, iord == order))
                # where the properties start is where the index parse stopped
                if pi < len(prop_reads):
                    after_idx = prop_reads[pi][0]
                else:
                    after_idx = None
            else:
                after_idx = None
            ii += 1
        else:
            idx = None
            after_idx = after_header
        for (pp, _, _) in entries:
            vc.assume(Not(pp == path))        # valid encoding: an object is listed once per segment
        entries.append((path, header, idx))
        if pi < len(prop_reads):
            (ppos, pord, pend) = prop_reads[pi]
            if idx is None:
                vc.ensure("entry[%d]/properties-right-after-header" % k, ppos == after_header)
            vc.ensure("entry[%d]/properties-in-segment-byte-order" % k, pord == order)
        pi += 1
        # next entry starts where this entry's property block ended: taken from the parse log
        if k + 1 < ncount:
            # entry k+1 starts where entry k's property block ended
            if pi - 1 < len(prop_reads):
                cur = prop_reads[pi - 1][2]
            else:
                break
    prev_view = [view(o) for o in prev_objs] if prev_seg is not None else None
    last_by_path = [(o.path, (o.number_values, o.data_size, o.data_type)) for o in prev_objs + older]
    try:
        expected = INH.denote(prev_view, last_by_path, new_list, entries)
    except INH.Invalid:
        vc.ensure("reuse-of-undefined-index-is-rejected", out.raised(ValueError))
        return
    vc.ensure("valid-encoding-is-accepted", out.kind == "ret")
    if out.kind != "ret":
        return
    got = seg.ordered_objects
    vc.ensure("object-count", len(got) == len(expected))
    if len(got) != len(expected):
        return
    for i, (o, (epath, ehas, eidx)) in enumerate(zip(got, expected)):
        vc.ensure("object[%d]/path" % i, o.path == epath)
        vc.ensure("object[%d]/has-data" % i, o.has_data == ehas)
        if eidx is None:
            vc.ensure("object[%d]/no-index" % i, And(o.number_values == 0, o.data_size == 0, o.data_type is None))
        else:
            vc.ensure("object[%d]/number-of-values" % i, o.number_values == eidx[0])
            vc.ensure("object[%d]/data-size" % i, o.data_size == eidx[1])
            vc.ensure("object[%d]/data-type" % i, types_equal(o.data_type, eidx[2]))
    # returned properties: one entry per listed object with properties, keyed by its path
    # chunk count computed on the final list
    vc.ensure("chunks-computed-once-on-the-final-list",
              st.ghost.get("calculated", 0) == 1 and st.ghost["calc_list"] is not None
              and len(st.ghost["calc_list"]) == len(got)
              and all(a is b for a, b in zip(st.ghost["calc_list"], got)))
    if cache is not None:
        ix = seg.object_index
        vc.ensure("index/one-entry-per-object", len(ix) == len(got))
        def position(d, key):
            try:
                return vc.interp.getitem(d, key)
            except ProgExc:
                return -1                       # absent: the obligation fails, the harness does not crash
        for i, o in enumerate(got):
            vc.ensure("index/position-of-object[%d]" % i, position(ix, o.path) == i)
    else:
        vc.ensure("index/not-built-when-not-required", seg.object_index is None)
    frame_ok()


def _next_entry_start(f, cur, k, st):
    """start of entry k+1 = end of entry k's property block = position of the (k+1)-th path-length read.
    The file read log holds every read(4) of a path length: reads alternate per entry; we take the read
    that follows entry k's header read and lies after it (positions are symbolic but ordered in the log)."""
    # log layout per entry: read(4) path len, read(plen) path, read(4) header; hooks do not log reads
    i = 1 + 3 * (k + 1)          # reads[0] is the object count
    if i < len(f.reads):
        return f.reads[i][0]
    return None


# ---------------------------------------------------------------------------- SegmentIndexCache with earlier entries

SIC_VARIANTS = [("cached=%d,new=%d" % (a, b), (a, b)) for a in (1, 2, 3) for b in (1, 2, 3)]


@harness("segment_index_cache", ["tdms_segment.SegmentIndexCache.get_index", "tdms_segment.ObjectListKey.__init__",
                                 "tdms_segment.ObjectListKey.__eq__", "tdms_segment.ObjectListKey.__hash__"],
         ["C02", "C04", "C05"], variants=SIC_VARIANTS, level="shape-bounded",
         bound="an earlier object list of <= 3 objects is already cached, the new list has <= 3 objects; all paths "
               "symbolic (every equality pattern between the two lists, including permutations)")
def _segment_index_cache(vc):
    from pyvc.models import fresh_str
    na, nb = vc.variant
    it = vc.interp
    olds = [fresh_str(vc.st, "a%d" % i) for i in range(na)]
    news = [fresh_str(vc.st, "b%d" % i) for i in range(nb)]
    for lst in (olds, news):                       # paths within one object list are distinct (Segment.wf)
        for i in range(len(lst)):
            for j in range(i + 1, len(lst)):
                vc.assume(Not(lst[i] == lst[j]))
    old_objs = [mk_segobj(vc, p, "old%d" % i) for i, p in enumerate(olds)]
    new_objs = [mk_segobj(vc, p, "new%d" % i) for i, p in enumerate(news)]
    cache = it.instantiate(it.get("tdms_segment.SegmentIndexCache"), [], {})
    first = vc.call_method(cache, "get_index", old_objs)
    vc.ensure("first-lookup/no-exception", first.kind == "ret")
    if first.kind != "ret":
        return
    for i, o in enumerate(old_objs):
        vc.ensure("first-lookup/position-of-object[%d]" % i, it.getitem(first.value, o.path) == i)
    out = vc.call_method(cache, "get_index", new_objs)
    vc.ensure("no-exception", out.kind == "ret")
    if out.kind != "ret":
        return
    ix = out.value
    vc.ensure("index/one-entry-per-object", len(ix) == nb)
    def lookup(d, key):
        try:
            return it.getitem(d, key)
        except ProgExc:
            return -1                       # missing key: the obligation below fails, the harness does not crash
    for i, o in enumerate(new_objs):
        vc.ensure("index/maps-each-path-to-its-position-in-THIS-list[%d]" % i, lookup(ix, o.path) == i)
    again = vc.call_method(cache, "get_index", new_objs)
    vc.ensure("repeat-lookup-returns-the-cached-dictionary", again.kind == "ret" and again.value is ix)


# ---------------------------------------------------------------------------- one listed object = one step of the spec
#
# The per-object helpers of read_segment_objects, each against the step of spec.inherit.denote it implements, for an
# object list of ANY length and ANY position in it (no shape enumeration): the list is a recorder of the stores and
# appends made, the object, the header and the file are symbolic.

class SlotList(object):
    """self.ordered_objects of arbitrary length: records what is stored and appended; nothing else is allowed"""
    _absent = ()

    def __init__(self):
        self.stores = []
        self.appends = []

    def __setitem__(self, k, v):
        if isinstance(k, slice):
            raise sym.Unsupported("slice store into the object list")
        self.stores.append((k, v))

    def append(self, v):
        self.appends.append(v)


def _step_world(vc, tag):
    st = vc.st
    f = SFile("f")
    pos0 = vc.int("pos0", lo=0)
    f.pos = pos0
    f.assume_present = True
    lst = SlotList()
    seg = vc.new("tdms_segment.TdmsSegment", position=vc.int("position", lo=0), toc_mask=vc.int("toc", lo=0),
                 next_segment_pos=vc.int("next", lo=0), data_position=vc.int("datapos", lo=0), num_chunks=0,
                 final_chunk_lengths_override=None, ordered_objects=lst, object_index=None,
                 segment_incomplete=False, has_daqmx_objects_cached=None, chunk_size_cached=None,
                 data_objects_cached=None)
    path = fresh_str(st, "path")
    obj = mk_segobj(vc, path, tag)
    header = vc.int("header", lo=0, hi=0xFFFFFFFF)
    order = ">" if vc.interp.truth(vc.bool("big")) else "<"
    return f, pos0, lst, seg, path, obj, header, order


def _expected_step(obj_view, header, pos0):
    """spec.inherit.denote for one entry whose path is known (carried over or remembered by the reader)"""
    (path, has, idx) = obj_view
    full = (_lift(z3.Function("IDX_NV", z3.IntSort(), z3.IntSort())(sym.z3int(pos0))),
            _lift(z3.Function("IDX_SIZE", z3.IntSort(), z3.IntSort())(sym.z3int(pos0))),
            TypeTok(_lift(z3.Function("IDX_TYPE", z3.IntSort(), z3.IntSort())(sym.z3int(pos0)))))
    out = INH.denote([obj_view], [], False, [(path, header, full)])
    assert len(out) == 1
    return out[0]


def _check_result_object(vc, what, got, exp, old, old_snap, header, f, pos0, order):
    st = vc.st
    (epath, ehas, eidx) = exp
    vc.ensure(what + "/path", got.path == epath)
    vc.ensure(what + "/has-data", got.has_data == ehas)
    vc.ensure(what + "/number-of-values", got.number_values == eidx[0])
    vc.ensure(what + "/data-size", got.data_size == eidx[1])
    vc.ensure(what + "/data-type", types_equal(got.data_type, eidx[2]))
    (o, opath, ohas, onv, osize, otyp) = old_snap
    vc.ensure("frame/earlier-object-unchanged", And(old.has_data == ohas, old.number_values == onv,
                                                    old.data_size == osize, old.data_type is otyp,
                                                    old.path is opath), kind="frame")
    reads = st.ghost.get("index_reads", [])
    is_full = vc.interp.truth(And(header != INH.NO_DATA, header != INH.SAME))
    if is_full:
        vc.ensure("full-index/read-once-at-the-cursor-with-this-header-and-byte-order",
                  len(reads) == 1 and
                  vc.interp.truth(And(reads[0][1] == pos0, reads[0][2] == header)) and reads[0][3] == order)
    else:
        vc.ensure("no-index-in-entry/nothing-read", len(reads) == 0 and vc.interp.truth(f.pos == pos0))


@harness("update_existing_object", ["tdms_segment.TdmsSegment._update_existing_object",
                                    "tdms_segment.TdmsSegment._new_segment_object"],
         ["C02"], setup=_setup, level="proof",
         note="one listed object that is already in the carried-over list: object list of any length, any position")
def _update_existing_object(vc):
    f, pos0, lst, seg, path, obj, header, order = _step_world(vc, "existing")
    k = vc.int("slot", lo=0)
    snap = snapshot(obj)
    before = view(obj)
    exp = _expected_step(before, header, pos0)
    out = vc.call_method(seg, "_update_existing_object", k, obj, header, f, order)
    vc.ensure("no-exception", out.kind == "ret")
    if out.kind != "ret":
        return
    vc.ensure("nothing-appended", len(lst.appends) == 0)
    vc.ensure("at-most-one-store", len(lst.stores) <= 1)
    vc.ensure("list-object-not-replaced", seg.ordered_objects is lst)
    if len(lst.stores) == 1:
        (kk, got) = lst.stores[0]
        vc.ensure("store/at-the-object's-own-position", kk == k)
        _check_result_object(vc, "stored", got, exp, obj, snap, header, f, pos0, order)
    elif len(lst.stores) == 0:
        # slot left as it is: the object there must already be what the entry means
        _check_result_object(vc, "kept", obj, exp, obj, snap, header, f, pos0, order)


@harness("reuse_previous_object", ["tdms_segment.TdmsSegment._reuse_previous_object",
                                   "tdms_segment.TdmsSegment._new_segment_object"],
         ["C02"], setup=_setup, level="proof",
         note="one listed object that is not in the carried-over list but known to the reader from an earlier "
              "segment: object list of any length")
def _reuse_previous_object(vc):
    f, pos0, lst, seg, path, obj, header, order = _step_world(vc, "remembered")
    snap = snapshot(obj)
    before = view(obj)
    # spec: path not carried over, most recent index remembered per path
    full = (_lift(z3.Function("IDX_NV", z3.IntSort(), z3.IntSort())(sym.z3int(pos0))),
            _lift(z3.Function("IDX_SIZE", z3.IntSort(), z3.IntSort())(sym.z3int(pos0))),
            TypeTok(_lift(z3.Function("IDX_TYPE", z3.IntSort(), z3.IntSort())(sym.z3int(pos0)))))
    exp_list = INH.denote([], [(path, before[2])], False, [(path, header, full)])
    assert len(exp_list) == 1
    exp = exp_list[0]
    out = vc.call_method(seg, "_reuse_previous_object", obj, header, f, order)
    vc.ensure("no-exception", out.kind == "ret")
    if out.kind != "ret":
        return
    vc.ensure("nothing-stored-into-an-existing-slot", len(lst.stores) == 0)
    vc.ensure("exactly-one-object-appended", len(lst.appends) == 1)
    vc.ensure("list-object-not-replaced", seg.ordered_objects is lst)
    if len(lst.appends) != 1:
        return
    got = lst.appends[0]
    _check_result_object(vc, "appended", got, exp, obj, snap, header, f, pos0, order)
    # the earlier object itself may only be appended when it already says what this entry means
    if got is obj:
        vc.ensure("earlier-object-shared-only-when-unchanged", obj.has_data == exp[1])


@harness("new_segment_object", ["tdms_segment.TdmsSegment._new_segment_object"], ["C02"], level="proof",
         note="an object seen for the first time starts without data and without an index; DAQmx headers select "
              "the DAQmx object class")
def _new_segment_object(vc):
    st = vc.st
    seg = vc.new("tdms_segment.TdmsSegment", position=0, toc_mask=vc.int("toc", lo=0), next_segment_pos=0,
                 data_position=0, num_chunks=0, final_chunk_lengths_override=None, ordered_objects=None,
                 object_index=None, segment_incomplete=False, has_daqmx_objects_cached=None,
                 chunk_size_cached=None, data_objects_cached=None)
    path = fresh_str(st, "path")
    header = vc.int("header", lo=0, hi=0xFFFFFFFF)
    out = vc.call_method(seg, "_new_segment_object", path, header)
    vc.ensure("no-exception", out.kind == "ret")
    if out.kind != "ret":
        return
    o = out.value
    vc.ensure("path", o.path is path)
    vc.ensure("starts-without-data", o.has_data == False)              # noqa: E712
    vc.ensure("starts-without-index", And(o.number_values == 0, o.data_size == 0, o.data_type is None))
    daqmx = vc.interp.truth(Or(header == 0x1269, header == 0x126A))
    vc.ensure("object-class-follows-the-header",
              o._cls is vc.interp.get("daqmx.DaqmxSegmentObject" if daqmx else "tdms_segment.TdmsSegmentObject"))


@harness("reuse_previous_segment_metadata", ["tdms_segment.TdmsSegment._reuse_previous_segment_metadata"],
         ["C02"], setup=_setup, level="proof",
         note="a segment without a metadata block shares the previous segment's object list (of any length) and "
              "path index; without a previous segment it is rejected")
def _reuse_previous_segment_metadata(vc):
    st = vc.st
    seg = vc.new("tdms_segment.TdmsSegment", position=vc.int("position", lo=0), toc_mask=vc.int("toc", lo=0),
                 next_segment_pos=vc.int("next", lo=0), data_position=vc.int("datapos", lo=0), num_chunks=0,
                 final_chunk_lengths_override=None, ordered_objects=None, object_index=None,
                 segment_incomplete=False, has_daqmx_objects_cached=None, chunk_size_cached=None,
                 data_objects_cached=None)
    have_prev = vc.interp.truth(vc.bool("have_prev"))
    if have_prev:
        lst = SlotList()
        index = Tok("prev-index") if vc.interp.truth(vc.bool("prev_has_index")) else None
        prev = vc.new("tdms_segment.TdmsSegment", ordered_objects=lst, object_index=index, position=0, toc_mask=14,
                      num_chunks=0)
    else:
        prev = None
    out = vc.call_method(seg, "_reuse_previous_segment_metadata", prev)
    if prev is None:
        vc.ensure("no-previous-segment-is-rejected", out.raised(ValueError))
        return
    vc.ensure("no-exception", out.kind == "ret")
    if out.kind != "ret":
        return
    vc.ensure("same-object-list-as-the-previous-segment", seg.ordered_objects is lst)
    vc.ensure("same-path-index-as-the-previous-segment", seg.object_index is index)
    vc.ensure("previous-list-untouched", len(lst.stores) == 0 and len(lst.appends) == 0, kind="frame")
    vc.ensure("previous-segment-keeps-its-list-and-index",
              prev.ordered_objects is lst and prev.object_index is index, kind="frame")
    vc.ensure("chunks-recomputed-once-after-the-list-is-set",
              st.ghost.get("calculated", 0) == 1 and st.ghost["calc_list_obj"] is lst)


# ---------------------------------------------------------------------------- the loop over the listed objects, unbounded
#
# read_segment_objects when the segment starts a new object list (kTocNewObjList, or the first segment): the loop
# over the listed objects is cut by an inductive invariant, so the NUMBER OF LISTED OBJECTS IS UNBOUNDED.  Iteration k
# (arbitrary) must read exactly entry k at ENTRY(k), append exactly one object - the one spec.inherit.denote gives
# for that entry - overwrite nothing, reject 'same as before' for a path never seen, and key the entry's properties
# by its path.  ENTRY(k+1) is defined as the end of entry k's property block.

ENTRY = z3.Function("ENTRY", z3.IntSort(), z3.IntSort())
KNOWN_NV = z3.Function("KNOWN_NV", z3.IntSort(), z3.IntSort())


class AbsPrevMap(object):
    """previous_segment_objects (path -> most recent object) of any size: membership of the looked-up path is a
    free boolean per iteration, the object found has that path and free fields"""
    _absent = ()

    def __init__(self, vc):
        self.vc = vc
        self.lookups = []          # (path, known, obj)
        self.idx_of = {}
        self.snap_of = {}

    def _entry(self, path):
        for (p, known, o) in self.lookups:
            if p is path:
                return known, o
        n = len(self.lookups)
        known = self.vc.st.fresh_bool("known%d" % n)
        o = mk_segobj(self.vc, path, sym.fresh_name("remembered"))
        self.idx_of[id(o)] = view(o)[2]
        self.snap_of[id(o)] = snapshot(o)
        self.lookups.append((path, known, o))
        return known, o

    def __contains__(self, path):
        return self._entry(path)[0]

    def __getitem__(self, path):
        known, o = self._entry(path)
        if bool(known):
            return o
        raise ProgExc(KeyError, "path")

    def __setitem__(self, k, v):
        raise ProgExc(AssertionError, "read_segment_objects must not modify the reader's map")


class PropMap(object):
    """the returned properties dictionary after some iterations: earlier content abstract, stores recorded"""
    _absent = ()

    def __init__(self):
        self.stores = []

    def __setitem__(self, k, v):
        self.stores.append((k, v))


APPENDED = z3.Function("APPENDED", z3.IntSort(), z3.IntSort())


class CarriedList(SlotList):
    """a copy of the previous segment's object list: `n0` objects; element j is a generic object (free path and
    fields, remembered per position so that its later treatment can be compared with its state at the copy)"""

    def __init__(self, vc, n0, origin):
        SlotList.__init__(self)
        self.vc, self.n0, self.origin = vc, n0, origin

    def element(self, j):
        for (j0, o) in self.origin.elements:
            if j0 is j:
                return o
        o = mk_segobj(self.vc, fresh_str(self.vc.st, sym.fresh_name("carried_path")), sym.fresh_name("carried"))
        self.origin.elements.append((j, o))
        self.origin.snaps[id(o)] = (view(o), snapshot(o))
        return o

    def as_symseq(self):
        from pyvc.interp import SymSeq
        return SymSeq(self.n0, self.element, "carried-objects")


class AbsList(object):
    """previous_segment.ordered_objects of any length: may only be copied whole (`[:]`)"""
    _absent = ()

    def __init__(self, vc, n):
        self.vc, self.n = vc, n
        self.elements = []
        self.snaps = {}
        self.copies = []

    def __getitem__(self, k):
        if isinstance(k, slice) and k.start is None and k.stop is None and k.step is None:
            c = CarriedList(self.vc, self.n, self)
            self.copies.append(c)
            return c
        raise sym.Unsupported("access to the previous segment's object list other than a whole copy")

    def as_symseq(self):
        return CarriedList(self.vc, self.n, self).as_symseq()

    def __setitem__(self, k, v):
        raise ProgExc(AssertionError, "the previous segment's object list must not be modified")

    def append(self, v):
        raise ProgExc(AssertionError, "the previous segment's object list must not be modified")


def _list_len(lst):
    if isinstance(lst, list):
        return len(lst)
    if isinstance(lst, AbsList):
        return lst.n
    return lst.n0 + len(lst.appends)


def _setup_loop(interp):
    _setup(interp)

    def read_object_properties(interp_, f, args, kwargs):
        """contract of _read_object_properties (harness read_property): consumes the property block at the cursor;
        returns a list of properties or None (free choice); the end of the block is where the next entry starts"""
        st = sym.get_state()
        seg, file, order = args
        pos = file.pos
        adv = st.fresh_int("proplen")
        st.assume(adv >= 4)
        file.pos = pos + adv
        g = st.ghost.get("iter")
        tok = None
        if st.fresh_bool("has_props"):
            tok = [("props-at", pos)]
        if g is not None:
            g["prop_reads"].append((pos, order, tok))
            g["body_done"] = True
            st.assume(_lift(ENTRY(sym.z3int(g["k"] + 1))) == pos + adv)       # definition of ENTRY(k+1)
            lst = seg.ordered_objects
            if isinstance(lst, SlotList):                                     # definition of APPENDED(k+1)
                st.assume(_lift(APPENDED(sym.z3int(g["k"] + 1))) ==
                          _lift(APPENDED(sym.z3int(g["k"]))) + len(lst.appends))
        return tok

    interp.contracts_at_calls["nptdms.tdms_segment:TdmsSegment._read_object_properties"] = read_object_properties

    def havoc_properties(st, env):
        # heap locations the loop modifies are havocked together with the local: the object list and the cursor
        g = st.ghost["loop"]
        seg = env.vars["self"]
        lst = SlotList()
        lst.n0 = st.fresh_int("objects_so_far")
        st.assume(lst.n0 >= 0)
        seg._f["ordered_objects"] = lst
        g["list"] = lst
        g["file"].pos = st.fresh_int("cursor")
        g["file"].reads = []
        st.ghost["index_reads"] = []
        if st.fresh_bool("some_properties_seen"):
            pm = PropMap()
            g["propmap"] = pm
            return pm
        g["propmap"] = None
        return None

    def on_iter(env, k, st):
        g = st.ghost["loop"]
        f = g["file"]
        big = g["big"]
        cur = f.pos
        plen = uint(SBytes(f.content, cur, 4), 0, 4, big)
        path = SBytes(f.content, cur + 4, plen).decode("utf-8")
        hpos = cur + 4 + plen
        header = uint(SBytes(f.content, hpos, 4), 0, 4, big)
        st.ghost["iter"] = dict(k=k, path=path, header=header, after_header=hpos + 4, prop_reads=[], start=cur)

    def inv(env, k, st):
        g = st.ghost["loop"]
        seg = env.vars["self"]
        lst = seg.ordered_objects
        f = g["file"]
        props = env.vars["properties"]
        out = [("cursor-at-the-start-of-entry-k", f.pos == _lift(ENTRY(sym.z3int(k))))]
        if g["carried"] is None:
            out += [("one-object-per-listed-entry-so-far", _list_len(lst) == k),
                    ("no-slot-of-the-list-overwritten", isinstance(lst, list) or len(lst.stores) == 0)]
        else:
            out += [("list-is-the-carried-objects-plus-those-appended-so-far",
                     _list_len(lst) == g["carried"] + _lift(APPENDED(sym.z3int(k)))),
                    ("appended-so-far-within-0..k", And(_lift(APPENDED(sym.z3int(k))) >= 0,
                                                        _lift(APPENDED(sym.z3int(k))) <= k)),
                    ("the-list-is-a-copy-never-the-previous-segment's-own-list", lst is not g["prev_list"])]
        out.append(("properties-none-or-a-map", props is None or isinstance(props, (dict, PropMap))))
        it = st.ghost.get("iter")
        if it is not None and isinstance(lst, SlotList) and not isinstance(lst, CarriedList) \
                and it.get("body_done") and not it.get("checked"):
            it["checked"] = True
            out.extend(_iteration_post(g, it, lst, props, st, env))
        return out

    def _iteration_post(g, it, lst, props, st, env):
        interp_ = interp
        res = []
        prevmap = g["prevmap"]
        # was the path found among the carried-over objects?  (decided by the lookup the code made)
        existing = env.vars.get("existing_objects")
        carried_hit = None
        if existing is not None:
            from pyvc.interp import SymCompDict
            if not isinstance(existing, SymCompDict):
                raise sym.Unsupported("existing_objects is no longer a comprehension over the carried list")
            mine = [(x, hit, j, v) for (x, hit, j, v) in existing.lookups
                    if interp_.truth(interp_.compare(ast.Eq, x, it["path"]))]
            res.append(("the-carried-list-is-consulted-for-this-entry's-path", len(mine) >= 1))
            if not mine:
                return res
            if mine[-1][1]:
                carried_hit = mine[-1]
        if carried_hit is not None:
            return res + _carried_post(g, it, lst, props, st, carried_hit)
        res.append(("exactly-one-object-appended-for-an-entry-not-carried-over",
                    len(lst.appends) == 1 and len(lst.stores) == 0))
        if len(lst.appends) != 1:
            return res
        got = lst.appends[0]
        path, header, after_header = it["path"], it["header"], it["after_header"]
        order = ">" if g["big"] else "<"
        full = (_lift(z3.Function("IDX_NV", z3.IntSort(), z3.IntSort())(sym.z3int(after_header))),
                _lift(z3.Function("IDX_SIZE", z3.IntSort(), z3.IntSort())(sym.z3int(after_header))),
                TypeTok(_lift(z3.Function("IDX_TYPE", z3.IntSort(), z3.IntSort())(sym.z3int(after_header)))))
        # what the reader remembers for this path: decided by the lookups the code made; a path the code never
        # looked up would be a dispatch error, reported below
        looked = [(p, kn, o) for (p, kn, o) in prevmap.lookups if interp_.truth(interp_.compare(ast.Eq, p, path))]
        res.append(("the-reader's-memory-is-consulted-for-this-entry's-path", len(looked) >= 1))
        if not looked:
            return res
        (_, known, kobj) = looked[-1]
        last = [(path, prevmap.idx_of[id(kobj)])] if interp_.truth(known) else []
        try:
            exp = INH.denote([], last, False, [(path, header, full)])[0]
        except INH.Invalid:
            res.append(("reuse-of-undefined-index-is-rejected", False))
            return res
        (epath, ehas, eidx) = exp
        res.append(("appended-object/path", got.path == epath))
        res.append(("appended-object/has-data", got.has_data == ehas))
        if eidx is None:
            res.append(("appended-object/no-index", And(got.number_values == 0, got.data_size == 0,
                                                        got.data_type is None)))
        else:
            res.append(("appended-object/number-of-values", got.number_values == eidx[0]))
            res.append(("appended-object/data-size", got.data_size == eidx[1]))
            res.append(("appended-object/data-type", types_equal(got.data_type, eidx[2])))
        reads = st.ghost.get("index_reads", [])
        if interp_.truth(And(header != INH.NO_DATA, header != INH.SAME)):
            res.append(("full-index/read-once-right-after-the-header-in-segment-byte-order",
                        len(reads) == 1 and interp_.truth(And(reads[0][1] == after_header, reads[0][2] == header))
                        and reads[0][3] == order))
        else:
            res.append(("no-index-in-entry/no-index-read", len(reads) == 0))
        res.extend(_props_post(g, it, props, header, after_header, order))
        # earlier objects are not modified (the remembered object may be shared, never changed)
        for (o, opath, ohas, onv, osize, otyp) in [prevmap.snap_of[id(kobj)]]:
            res.append(("frame/remembered-object-unchanged", And(o.has_data == ohas, o.number_values == onv,
                                                                 o.data_size == osize, o.data_type is otyp)))
        return res

    def _carried_post(g, it, lst, props, st, hit):
        """entry whose path is in the carried-over list: at most one store, at the position the path has in the
        list, of the object the specification gives when applied to the object carried at that position"""
        interp_ = interp
        res = []
        (x, _, j, val) = hit
        path, header, after_header = it["path"], it["header"], it["after_header"]
        order = ">" if g["big"] else "<"
        res.append(("carried/dictionary-value-is-position-and-object", isinstance(val, tuple) and len(val) == 2))
        if not (isinstance(val, tuple) and len(val) == 2):
            return res
        (pos_, obj) = val
        origin = g["prev_list"]
        res.append(("carried/the-object-is-the-one-carried-at-that-position",
                    any(o is obj and interp_.truth(j0 == pos_) for (j0, o) in origin.elements)))
        if id(obj) not in origin.snaps:
            return res
        (before, snap) = origin.snaps[id(obj)]
        full = (_lift(z3.Function("IDX_NV", z3.IntSort(), z3.IntSort())(sym.z3int(after_header))),
                _lift(z3.Function("IDX_SIZE", z3.IntSort(), z3.IntSort())(sym.z3int(after_header))),
                TypeTok(_lift(z3.Function("IDX_TYPE", z3.IntSort(), z3.IntSort())(sym.z3int(after_header)))))
        exp = INH.denote([before], [], False, [(before[0], header, full)])[0]
        res.append(("carried/nothing-appended", len(lst.appends) == 0))
        res.append(("carried/at-most-one-store", len(lst.stores) <= 1))
        if len(lst.stores) == 1:
            (kk, got) = lst.stores[0]
            res.append(("carried/store-at-the-path's-position", kk == pos_))
        elif len(lst.stores) == 0:
            got = obj                         # slot left as it is: must already be what the entry means
        else:
            return res
        (epath, ehas, eidx) = exp
        res.append(("carried/object/path", got.path == epath))
        res.append(("carried/object/has-data", got.has_data == ehas))
        res.append(("carried/object/number-of-values", got.number_values == eidx[0]))
        res.append(("carried/object/data-size", got.data_size == eidx[1]))
        res.append(("carried/object/data-type", types_equal(got.data_type, eidx[2])))
        reads = st.ghost.get("index_reads", [])
        if interp_.truth(And(header != INH.NO_DATA, header != INH.SAME)):
            res.append(("full-index/read-once-right-after-the-header-in-segment-byte-order",
                        len(reads) == 1 and interp_.truth(And(reads[0][1] == after_header, reads[0][2] == header))
                        and reads[0][3] == order))
        else:
            res.append(("no-index-in-entry/no-index-read", len(reads) == 0))
        res.extend(_props_post(g, it, props, header, after_header, order))
        (o, opath, ohas, onv, osize, otyp) = snap
        res.append(("frame/carried-object-unchanged", And(o.has_data == ohas, o.number_values == onv,
                                                          o.data_size == osize, o.data_type is otyp,
                                                          o.path is opath)))
        return res

    def _props_post(g, it, props, header, after_header, order):
        interp_ = interp
        res = []
        path = it["path"]
        pr = it["prop_reads"]
        res.append(("properties/read-once-in-segment-byte-order", len(pr) == 1 and pr[0][1] == order))
        if len(pr) == 1:
            (ppos, _, tok) = pr[0]
            if not interp_.truth(And(header != INH.NO_DATA, header != INH.SAME)):
                res.append(("properties/right-after-the-header", ppos == after_header))
            before = g["propmap"]
            if tok is None:
                res.append(("properties/none-for-this-entry-nothing-recorded",
                            props is before and (before is None or len(before.stores) == 0)))
            elif before is None:
                res.append(("properties/first-entry-with-properties-starts-the-map",
                            isinstance(props, dict) and len(props) == 1
                            and interp_.truth(interp_.compare(ast.Eq, list(props.keys())[0], path))
                            and list(props.values())[0] is tok))
            else:
                res.append(("properties/recorded-under-this-entry's-path",
                            props is before and len(before.stores) == 1
                            and interp_.truth(interp_.compare(ast.Eq, before.stores[0][0], path))
                            and before.stores[0][1] is tok))
        return res

    interp.loop_specs[("nptdms.tdms_segment:TdmsSegment.read_segment_objects", 0)] = LoopSpec(
        inv, havoc={"properties": havoc_properties,
                    "__locals__": ("object_path", "raw_data_index_header_bytes", "raw_data_index_header",
                                   "existing_object_index", "existing_object", "previous_segment_obj", "segment_obj",
                                   "object_properties")},
        on_iter=on_iter, name="listed-objects")


@harness("read_segment_objects_all_listed", ["tdms_segment.TdmsSegment.read_segment_objects",
                                             "tdms_segment.TdmsSegment._reuse_previous_object",
                                             "tdms_segment.TdmsSegment._new_segment_object"],
         ["C02"], variants=[("first-segment", "first"), ("new-object-list", "newlist"),
                            ("carried-over-list", "carried")], setup=_setup_loop,
         level="proof",
         note="ANY number of listed objects (loop invariant), ANY number of carried-over objects (the previous "
              "list is abstract, the path dictionary built from it is a comprehension over a sequence of symbolic "
              "length), the reader's per-path memory is a map of any size; precondition: a path is listed once "
              "per segment (each entry is compared with the object carried at the start of the segment)")
def _read_segment_objects_all_listed(vc):
    st = vc.st
    f = SFile("f")
    pos0 = vc.int("pos0", lo=0)
    f.pos = pos0
    f.assume_present = True
    toc = vc.int("toc", lo=0)
    vc.assume((toc & L.TOC_META) != 0)
    seg = vc.new("tdms_segment.TdmsSegment", position=vc.int("position", lo=0), toc_mask=toc,
                 next_segment_pos=vc.int("next", lo=0), data_position=vc.int("datapos", lo=0), num_chunks=0,
                 final_chunk_lengths_override=None, ordered_objects=None, object_index=None,
                 segment_incomplete=False, has_daqmx_objects_cached=None, chunk_size_cached=None,
                 data_objects_cached=None)
    carried = None
    if vc.variant == "first":
        prev_seg = None
    elif vc.variant == "carried":
        vc.assume((toc & L.TOC_NEW_OBJ_LIST) == 0)
        carried = vc.int("carried", lo=0)
        prev_list = AbsList(vc, carried)
        prev_seg = vc.new("tdms_segment.TdmsSegment", ordered_objects=prev_list, object_index=Tok("prev-index"),
                          position=0, toc_mask=14, num_chunks=0)
    else:
        vc.assume((toc & L.TOC_NEW_OBJ_LIST) != 0)
        prev_list = SlotList()
        prev_seg = vc.new("tdms_segment.TdmsSegment", ordered_objects=prev_list, object_index=Tok("prev-index"),
                          position=0, toc_mask=14, num_chunks=0)
    big = vc.interp.truth((toc & L.TOC_BIG_ENDIAN) != 0)
    count = uint(SBytes(f.content, pos0, 4), 0, 4, big)
    vc.assume(f.size - pos0 >= 4)
    prevmap = AbsPrevMap(vc)
    st.ghost["loop"] = dict(file=f, big=big, prevmap=prevmap, list=None, propmap=None, carried=carried,
                            prev_list=prev_list if carried is not None else None)
    st.add_fact(ENTRY(0) == sym.z3int(pos0 + 4))                  # the first entry follows the object count
    st.add_fact(APPENDED(0) == 0)
    vc.cover("a-segment-with-many-listed-objects-is-within-the-precondition", count >= 1000)
    out = vc.call_method(seg, "read_segment_objects", f, prevmap, None, prev_seg)
    it = st.ghost.get("iter")
    if out.kind == "exc":
        # only one rejection is specified: 'same as before' for a path neither carried over nor remembered
        ok = False
        if out.raised(ValueError) and it is not None:
            looked = [(p_, kn, o) for (p_, kn, o) in prevmap.lookups]
            ok = len(looked) >= 1 and vc.interp.truth(And(it["header"] == INH.SAME, Not(looked[-1][1])))
        vc.ensure("only-reuse-of-an-undefined-index-is-rejected", ok)
        return
    lst = seg.ordered_objects
    if carried is None:
        vc.ensure("one-object-per-listed-entry", _list_len(lst) == count)
    else:
        vc.ensure("carried-objects-plus-at-most-one-per-listed-entry",
                  And(_list_len(lst) >= carried, _list_len(lst) <= carried + count))
        vc.ensure("the-list-is-a-copy-not-the-previous-segment's-list", lst is not prev_list)
    vc.ensure("cursor-after-the-last-entry", f.pos == _lift(ENTRY(sym.z3int(count))))
    vc.ensure("chunks-computed-once-on-the-final-list",
              st.ghost.get("calculated", 0) == 1 and st.ghost["calc_list_obj"] is lst)
    vc.ensure("index/not-built-when-not-required", seg.object_index is None)
    vc.ensure("returns-the-properties-map-or-none", out.value is None or isinstance(out.value, (dict, PropMap)))
    if prev_seg is not None and carried is None:
        vc.ensure("frame/previous-segment-list-untouched",
                  prev_seg.ordered_objects is prev_list and len(prev_list.stores) == 0
                  and len(prev_list.appends) == 0, kind="frame")
    if carried is not None:
        # stores or appends to the abstract previous list raise inside the function (AbsList refuses them)
        vc.ensure("frame/previous-segment-keeps-its-list", prev_seg.ordered_objects is prev_list, kind="frame")
