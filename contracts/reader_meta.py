"""reader.py metadata accumulation and index building (C01 O9/O10, C02, C04, C05, C06 (d))."""
import z3
from pyvc.harness import harness
from pyvc.models import SFile, SymStr, fresh_str
from pyvc.interp import Obj, LoopSpec, SymSeq
from pyvc import sym
from pyvc.sym import _lift
from spec import addr as A
from spec.base import And, Or, Not, Implies, Ite, Min, Max
from contracts.reader_leadin import mk_reader


class Tok(object):
    def __init__(self, n):
        self.n = n

    def __repr__(self):
        return "<%s>" % self.n


NSV_VARIANTS = [("override=%s" % o, o) for o in ("none", "present", "absent-key")]


@harness("number_of_segment_values", "reader._number_of_segment_values", ["C01", "C04", "C06", "C14"],
         variants=NSV_VARIANTS)
def _nsv(vc):
    mode = vc.variant
    has = vc.bool("has_data")
    nv = vc.int("nv", lo=0)
    nc = vc.int("num_chunks", lo=0)
    obj = vc.new("tdms_segment.TdmsSegmentObject", path="p", has_data=has, number_values=nv, data_size=0,
                 data_type=None)
    if mode == "none":
        ov, fin = None, None
    elif mode == "present":
        fin = vc.int("final", lo=0)
        ov = {"p": fin, "q": 5}
        vc.assume(nc >= 1)
    else:
        fin = 0
        ov = {"q": 5}
        vc.assume(nc >= 1)
    seg = vc.new("tdms_segment.TdmsSegment", num_chunks=nc, final_chunk_lengths_override=ov)
    out = vc.call("reader._number_of_segment_values", obj, seg)
    vc.ensure("no-exception", out.kind == "ret")
    if out.kind == "ret":
        vc.ensure("sum-of-values-over-the-chunks", out.value == A.segment_values(has, nv, nc, fin))


def mk_so(vc, path, tag, typ):
    return vc.new("tdms_segment.TdmsSegmentObject", path=path, has_data=vc.bool(tag + "_has"),
                  number_values=vc.int(tag + "_nv", lo=0), data_size=vc.int(tag + "_size", lo=0), data_type=typ)


UOM_VARIANTS = [("objects=%d,known=%s" % (n, k), (n, k)) for n in (0, 1, 2) for k in ("none", "first", "all")]


@harness("update_object_metadata", ["reader.TdmsReader._update_object_metadata",
                                    "reader.TdmsReader._get_or_create_object", "reader._update_object_data_type",
                                    "reader.ObjectMetadata.__init__"],
         ["C01", "C02", "C14"], variants=UOM_VARIANTS, level="shape-bounded",
         bound="<= 2 objects in the segment; each already known to the reader or new; counts symbolic")
def _uom(vc):
    n, known = vc.variant
    st = vc.st
    T1, T2 = Tok("T1"), Tok("T2")
    objs = [mk_so(vc, "/'g'/'c%d'" % i, "o%d" % i, T1) for i in range(n)]
    nc = vc.int("num_chunks", lo=0)
    seg = vc.new("tdms_segment.TdmsSegment", num_chunks=nc, final_chunk_lengths_override=None,
                 ordered_objects=list(objs))
    rd = mk_reader(vc, 100)
    from collections import OrderedDict
    rd.object_metadata = OrderedDict()
    rd._prev_segment_objects = {}
    before = {}
    for i, o in enumerate(objs):
        if known == "all" or (known == "first" and i == 0):
            m = vc.new("reader.ObjectMetadata", properties=OrderedDict(), data_type=(T1 if i == 0 else None),
                       scaler_data_types=None, num_values=vc.int("m%d_n" % i, lo=0))
            rd.object_metadata[o.path] = m
            before[o.path] = m.num_values
    keys_before = list(rd.object_metadata.keys())
    out = vc.call_method(rd, "_update_object_metadata", seg)
    vc.ensure("no-exception", out.kind == "ret")
    if out.kind != "ret":
        return
    for i, o in enumerate(objs):
        m = rd.object_metadata[o.path]
        add = A.segment_values(o.has_data, o.number_values, nc, None)
        vc.ensure("object[%d]/length-accumulates" % i, m.num_values == before.get(o.path, 0) + add)
        vc.ensure("object[%d]/data-type-recorded" % i, m.data_type is T1)
        vc.ensure("object[%d]/most-recent-segment-object-remembered" % i, rd._prev_segment_objects[o.path] is o)
    new_keys = [o.path for o in objs if o.path not in keys_before]
    vc.ensure("objects-keep-first-appearance-order", list(rd.object_metadata.keys()) == keys_before + new_keys)


@harness("update_object_data_type", "reader._update_object_data_type", ["C02", "C01"],
         variants=[("first", 0), ("same", 1), ("changed", 2)])
def _uodt(vc):
    T1, T2 = Tok("T1"), Tok("T2")
    mode = vc.variant
    m = vc.new("reader.ObjectMetadata", properties={}, data_type=(None if mode == 0 else T1),
               scaler_data_types=None, num_values=0)
    so = vc.new("tdms_segment.TdmsSegmentObject", path="p", has_data=True, number_values=1, data_size=1,
                data_type=(T2 if mode == 2 else T1))
    out = vc.call("reader._update_object_data_type", "p", m, so)
    if mode == 2:
        vc.ensure("type-change-is-rejected", out.raised(ValueError))
    else:
        vc.ensure("accepted", out.kind == "ret")
        vc.ensure("type-recorded", m.data_type is T1)


UOP_VARIANTS = [("none", None), ("new+existing", 1)]


@harness("update_object_properties", "reader.TdmsReader._update_object_properties", ["C01", "C07"],
         variants=UOP_VARIANTS, level="shape-bounded", bound="<= 2 objects with <= 2 properties each")
def _uop(vc):
    from collections import OrderedDict
    rd = mk_reader(vc, 100)
    rd.object_metadata = OrderedDict()
    m = vc.new("reader.ObjectMetadata", properties=OrderedDict([("a", 1), ("b", 2)]), data_type=None,
               scaler_data_types=None, num_values=0)
    rd.object_metadata["p"] = m
    if vc.variant is None:
        out = vc.call_method(rd, "_update_object_properties", None)
        vc.ensure("no-properties-no-change", out.kind == "ret" and list(m.properties.items()) == [("a", 1), ("b", 2)])
        return
    v1, v2, v3 = vc.int("v1"), vc.int("v2"), vc.int("v3")
    props = {"p": [("b", v1), ("c", v2), ("b", v3)], "q": [("x", v2)]}
    out = vc.call_method(rd, "_update_object_properties", props)
    vc.ensure("no-exception", out.kind == "ret")
    if out.kind != "ret":
        return
    vc.ensure("last-value-written-wins", And(m.properties["b"] == v3, m.properties["c"] == v2,
                                             m.properties["a"] == 1))
    vc.ensure("property-order-is-first-appearance", list(m.properties.keys()) == ["a", "b", "c"])
    vc.ensure("new-object-created", list(rd.object_metadata.keys()) == ["p", "q"]
              and rd.object_metadata["q"].properties["x"] == v2)


# ---------------------------------------------------------------------------- _build_index

BI_VARIANTS = [("segments=%d,cached=%d" % (n, c), (n, c)) for n in (0, 1, 2, 3) for c in (0, 1)]


@harness("build_index", ["reader.TdmsReader._build_index", "reader._deduplicate_array", "reader._array_equal"],
         ["C04", "C05", "C06", "C03"], variants=BI_VARIANTS, level="shape-bounded",
         thorough_variants=[("segments=%d,cached=%d" % (n, c), (n, c)) for n in (4, 5) for c in (0, 1)],
         thorough_bound="<= 5 segments",
         bound="<= 3 segments; per segment the channel is absent / present with symbolic value counts; "
               "<= 1 previously built index to de-duplicate against", split_variants=False)
def _build_index(vc):
    from pyvc.npmodel import ListArr
    nseg, ncached = vc.variant
    st = vc.st
    path = "/'g'/'P'"
    segs = []
    vals = []
    for s in range(nseg):
        present = vc.bool("s%d_present" % s)
        has = vc.bool("s%d_has" % s)
        nv = vc.int("s%d_nv" % s, lo=0)
        nc = vc.int("s%d_nc" % s, lo=0)
        o = vc.new("tdms_segment.TdmsSegmentObject", path=path, has_data=has, number_values=nv, data_size=0,
                   data_type=None)
        other = vc.new("tdms_segment.TdmsSegmentObject", path="/'g'/'Q'", has_data=True, number_values=1,
                       data_size=1, data_type=None)
        if vc.interp.truth(present):
            index = {"/'g'/'Q'": 0, path: 1}
            objs = [other, o]
            v = A.segment_values(has, nv, nc, None)
        else:
            index = {"/'g'/'Q'": 0}
            objs = [other]
            v = 0
        segs.append(vc.new("tdms_segment.TdmsSegment", num_chunks=nc, final_chunk_lengths_override=None,
                           ordered_objects=objs, object_index=index))
        vals.append(v)
    rd = mk_reader(vc, 100)
    rd._segments = segs
    rd._segment_channel_offsets = {}
    if ncached:
        old = ListArr([vc.int("old%d" % i, lo=0) for i in range(2)], "int64")
        rd._segment_channel_offsets["/'g'/'Q'"] = (0, old)
    out = vc.call_method(rd, "_build_index", path)
    vc.ensure("no-exception", out.kind == "ret")
    if out.kind != "ret":
        return
    (first, offs) = rd._segment_channel_offsets[path]
    # spec: first = first segment with values (number of segments if none); offs[j] = vals[first..first+j] summed
    # up to the last segment with values
    nz = [vc.interp.truth(v > 0) for v in vals]
    if not any(nz):
        vc.ensure("no-data/first-is-segment-count", first == nseg)
        vc.ensure("no-data/empty-index", len(offs) == 0)
    else:
        F = nz.index(True)
        Lst = len(nz) - 1 - nz[::-1].index(True)
        vc.ensure("first-segment-with-values", first == F)
        vc.ensure("one-entry-per-segment-up-to-the-last-with-values", len(offs) == Lst - F + 1)
        run = 0
        for j in range(Lst - F + 1):
            run = run + vals[F + j]
            vc.ensure("offsets[%d]-is-running-total" % j, vc.interp.getitem(offs, j) == run)
    vc.ensure("other-channels'-indexes-untouched",
              (not ncached) or rd._segment_channel_offsets["/'g'/'Q'"][1] is old)
    vc.ensure("reads-nothing", True)


# ---------------------------------------------------------------------------- _update_object_metadata, any number of objects
#
# The loop over segment.ordered_objects is cut by an invariant; the segment's object list is a sequence of symbolic
# length whose element k is a generic object, the reader's maps (object_metadata, _prev_segment_objects) are of
# any size: a lookup freely finds earlier metadata for the path or not, stores are recorded.  Iteration k must
# remember exactly object k as the most recent one for its path, add exactly the segment's value count for that
# object to the channel length, record its data type, and reject a change of data type.

class TypeCode(object):
    """a TDMS data type known by a symbolic code"""

    def __init__(self, code):
        self.code = code

    def __eq__(self, o):
        if isinstance(o, TypeCode):
            return self.code == o.code
        return False

    def __ne__(self, o):
        return sym.sym_not(self.__eq__(o))

    def __hash__(self):
        return id(self)


SC_A, SC_B = Tok("scalers-A"), Tok("scalers-B")


class ObjSeq(object):
    _absent = ()

    def __init__(self, vc, n, daqmx):
        self.vc, self.n, self.daqmx = vc, n, daqmx
        self.elements = []

    def element(self, j):
        for (j0, o, snap) in self.elements:
            if j0 is j:
                return o
        vc = self.vc
        tag = sym.fresh_name("so")
        typ = TypeCode(vc.int(tag + "_type", lo=0)) if vc.interp.truth(vc.bool(tag + "_typed")) else None
        o = mk_so(vc, fresh_str(vc.st, tag + "_path"), tag, typ)
        if self.daqmx:
            o = vc.new("daqmx.DaqmxSegmentObject", path=o.path, has_data=o.has_data, number_values=o.number_values,
                       data_size=o.data_size, data_type=typ, daqmx_metadata=None,
                       scaler_data_types=(SC_A if vc.interp.truth(vc.bool(tag + "_scA")) else SC_B))
        self.elements.append((j, o, (o.path, o.has_data, o.number_values, o.data_size, o.data_type)))
        return o

    def as_symseq(self):
        return SymSeq(self.n, self.element, "segment-objects")


class MetaMap(object):
    """reader.object_metadata of any size"""
    _absent = ()

    def __init__(self, vc, daqmx, recorders=False):
        self.vc, self.daqmx, self.recorders = vc, daqmx, recorders
        self.lookups = []      # (path, found, metadata or None, state before or None)
        self.stores = []

    def __getitem__(self, path):
        from pyvc.interp import ProgExc
        from collections import OrderedDict
        vc = self.vc
        for (p, found, m, _) in self.lookups:
            if p is path:
                if found:
                    return m
                raise ProgExc(KeyError, "path")
        for (p, m) in self.stores:
            if p is path:
                return m
        tag = sym.fresh_name("meta")
        if vc.interp.truth(vc.bool(tag + "_known")):
            typ = TypeCode(vc.int(tag + "_type", lo=0)) if vc.interp.truth(vc.bool(tag + "_typed")) else None
            sc = None
            if self.daqmx:
                sc = SC_A if vc.interp.truth(vc.bool(tag + "_scA")) else None
            props = PropRecorder(vc.st) if self.recorders else OrderedDict()
            m = vc.new("reader.ObjectMetadata", properties=props, data_type=typ, scaler_data_types=sc,
                       num_values=vc.int(tag + "_n", lo=0))
            self.lookups.append((path, True, m, (m.num_values, typ, sc, props)))
            return m
        self.lookups.append((path, False, None, None))
        raise ProgExc(KeyError, "path")

    def __setitem__(self, path, m):
        self.stores.append((path, m))


class Recorder(object):
    _absent = ()

    def __init__(self):
        self.stores = []

    def __setitem__(self, k, v):
        self.stores.append((k, v))


class Override(object):
    """final_chunk_lengths_override: path -> values in the final chunk (absent paths count 0)"""
    _absent = ()

    def __init__(self, vc):
        self.vc = vc
        self.gets = []

    def get(self, path, default=None):
        for (p, d, v) in self.gets:
            if p is path:
                return v
        v = self.vc.int(sym.fresh_name("final"), lo=0)
        self.gets.append((path, default, v))
        return v


def _setup_uom_all(interp):
    same_scalers = lambda a, b: a is b

    def on_iter(env, k, st):
        g = st.ghost["uom"]
        g["metamap"].lookups[:] = []
        g["metamap"].stores[:] = []
        g["prevmem"].stores[:] = []
        mine = [oo for (j0, oo, snap) in g["objs"].elements if j0 is k]
        st.ghost["iter"] = dict(k=k, obj=mine[0])

    def inv(env, k, st):
        g = st.ghost["uom"]
        rd = env.vars["self"]
        out = [("reader-keeps-its-maps", rd.object_metadata is g["metamap"]
                and rd._prev_segment_objects is g["prevmem"])]
        it = st.ghost.get("iter")
        if it is not None and not it.get("checked"):
            it["checked"] = True
            out.extend(_post(g, it, st))
        return out

    def _post(g, it, st):
        res = []
        o = it["obj"]
        mm, pm, seg = g["metamap"], g["prevmem"], g["segment"]
        snap = [s for (j0, oo, s) in g["objs"].elements if oo is o]
        res.append(("iterates-over-the-segment's-objects", len(snap) == 1))
        if len(snap) != 1:
            return res
        (path, has, nv, size, typ) = snap[0]
        res.append(("most-recent-object-for-the-path-is-this-segment's-object",
                    len(pm.stores) == 1 and pm.stores[0][0] is path and pm.stores[0][1] is o))
        res.append(("metadata-looked-up-once-under-the-object's-path",
                    len(mm.lookups) == 1 and mm.lookups[0][0] is path))
        if len(mm.lookups) != 1:
            return res
        (_, found, m, before) = mm.lookups[0]
        ov = seg.final_chunk_lengths_override
        fin = None
        if ov is not None:
            mine = [v for (p, d, v) in ov.gets if p is path]
            res.append(("truncated-final-chunk/override-asked-for-this-path-default-0",
                        (not interp.truth(has)) or (len(mine) == 1 and [d for (p, d, v) in ov.gets if p is path][0] == 0)))
            fin = mine[0] if mine else 0
        add = A.segment_values(has, nv, seg.num_chunks, fin)
        if found:
            (n0, t0, sc0, props0) = before
            res.append(("known-object/no-new-metadata-entry", len(mm.stores) == 0))
            res.append(("known-object/length-accumulates", m.num_values == n0 + add))
            res.append(("known-object/properties-untouched", m.properties is props0 and len(props0) == 0))
        else:
            res.append(("new-object/one-metadata-entry-under-its-path",
                        len(mm.stores) == 1 and mm.stores[0][0] is path))
            if len(mm.stores) != 1:
                return res
            m = mm.stores[0][1]
            res.append(("new-object/length-is-this-segment's-count", m.num_values == add))
            res.append(("new-object/no-properties-yet", len(m.properties) == 0))
        if found and before[1] is not None:
            res.append(("change-of-data-type-is-rejected", before[1] == typ if typ is not None else False))
        res.append(("data-type-recorded", (m.data_type is None) if typ is None else
                    (isinstance(m.data_type, TypeCode) and m.data_type.code == typ.code)))
        if g["daqmx"]:
            res.append(("scaler-types-recorded", m.scaler_data_types is o.scaler_data_types))
        res.append(("frame/segment-object-unchanged",
                    And(o.has_data == has, o.number_values == nv, o.data_size == size)
                    and o.data_type is typ and o.path is path))
        return res

    interp.loop_specs[("nptdms.reader:TdmsReader._update_object_metadata", 0)] = LoopSpec(
        inv, havoc={"__locals__": ("path", "object_metadata")}, on_iter=on_iter, name="segment-objects")
    interp._uom_same_scalers = same_scalers


@harness("update_object_metadata_all_objects", ["reader.TdmsReader._update_object_metadata",
                                                "reader.TdmsReader._get_or_create_object",
                                                "reader._update_object_data_type",
                                                "reader._update_object_scaler_data_types",
                                                "reader._number_of_segment_values",
                                                "reader.ObjectMetadata.__init__"],
         ["C02", "C01", "C04", "C09"], variants=[("plain", (False, False)), ("truncated-final-chunk", (False, True)),
                                          ("daqmx", (True, False))],
         setup=_setup_uom_all, level="proof",
         note="ANY number of objects in the segment (loop invariant), reader maps of any size; iteration k remembers "
              "object k as the most recent for its path, adds the segment's value count, records the type, "
              "rejects a change of data type (or of DAQmx scaler types)")
def _uom_all(vc):
    daqmx, truncated = vc.variant
    st = vc.st
    n = vc.int("objects", lo=0)
    objs = ObjSeq(vc, n, daqmx)
    nc = vc.int("num_chunks", lo=0)
    ov = None
    if truncated:
        ov = Override(vc)
        vc.assume(nc >= 1)
    seg = vc.new("tdms_segment.TdmsSegment", num_chunks=nc, final_chunk_lengths_override=ov, ordered_objects=objs)
    rd = mk_reader(vc, 100)
    mm, pm = MetaMap(vc, daqmx), Recorder()
    rd.object_metadata = mm
    rd._prev_segment_objects = pm
    st.ghost["uom"] = dict(metamap=mm, prevmem=pm, segment=seg, objs=objs, daqmx=daqmx)
    vc.cover("a-segment-with-many-objects-is-within-the-precondition", n >= 1000)
    out = vc.call_method(rd, "_update_object_metadata", seg)
    if out.kind == "exc":
        # the only rejection specified: the object's metadata has a data type (scaler types) and this segment's
        # object has another one
        it = st.ghost.get("iter")
        ok = False
        if out.raised(ValueError) and it is not None and len(mm.lookups) == 1 and mm.lookups[0][1]:
            (_, _, m, before) = mm.lookups[0]
            (n0, t0, sc0, props0) = before
            o = it["obj"]
            type_changed = t0 is not None and vc.interp.truth(t0 != o.data_type)
            sc_changed = False
            if daqmx and sc0 is not None:
                sc_changed = not vc.interp._uom_same_scalers(sc0, o.scaler_data_types)
            ok = type_changed or sc_changed
            if type_changed:
                vc.ensure("rejection/type-on-record-unchanged", m.data_type is t0)
        vc.ensure("only-a-change-of-data-type-is-rejected", ok)
        return
    vc.ensure("segment-keeps-its-object-list", seg.ordered_objects is objs, kind="frame")
    vc.ensure("reader-keeps-its-maps", rd.object_metadata is mm and rd._prev_segment_objects is pm, kind="frame")


# ---------------------------------------------------------------------------- _update_object_properties, any sizes
#
# Both loops are cut by invariants: any number of objects with properties in a segment, any number of properties
# per object, object_metadata of any size.  Outer iteration i looks the metadata of path i up (or creates it under
# that path) exactly once; inner iteration j stores exactly (name j -> value j) into that object's property map and
# nothing else - applied in file order, so the last value written for a name is the one that stays.

class PropList(object):
    _absent = ()

    def __init__(self, vc, tag):
        self.vc = vc
        self.n = vc.int(tag + "_count", lo=0)
        self.tag = tag
        self.elements = []

    def element(self, j):
        for (j0, pair) in self.elements:
            if j0 is j:
                return pair
        t = sym.fresh_name(self.tag + "_p")
        pair = (fresh_str(self.vc.st, t + "_name"), self.vc.int(t + "_value"))
        self.elements.append((j, pair))
        return pair

    def as_symseq(self):
        g = self.vc.st.ghost.get("uop")
        if g is not None:
            g["last_proplist"] = self
        return SymSeq(self.n, self.element, "properties")


class SegmentProps(object):
    """the properties dictionary returned by read_segment_objects: path -> list of (name, value)"""
    _absent = ()

    def __init__(self, vc):
        self.vc = vc
        self.n = vc.int("objects_with_properties", lo=0)
        self.elements = []

    def element(self, i):
        for (i0, pair) in self.elements:
            if i0 is i:
                return pair
        t = sym.fresh_name("entry")
        pair = (fresh_str(self.vc.st, t + "_path"), PropList(self.vc, t))
        self.elements.append((i, pair))
        return pair

    def items(self):
        return SymSeq(self.n, self.element, "segment-properties")


class PropRecorder(Recorder):
    """an object's property map after some stores: whether a name is already present is unknown"""

    def __init__(self, st):
        Recorder.__init__(self)
        self.st = st

    def __contains__(self, name):
        return self.st.fresh_bool("name_already_set")


def _setup_uop_all(interp):
    # The invariants speak about the reader's maps and the segment's entries only, never about the function's
    # local variables: renaming or dropping a temporary must not disturb them.
    def metadata_init(interp_, f, args, kwargs):
        """contract of ObjectMetadata.__init__ (executed for real in update_object_metadata_all_objects, which
        checks a new object's length, type and empty property map): the property map is a recorder here"""
        st = sym.get_state()
        m = args[0]
        interp_.setattr_value(m, "properties", PropRecorder(st))
        interp_.setattr_value(m, "data_type", None)
        interp_.setattr_value(m, "scaler_data_types", None)
        interp_.setattr_value(m, "num_values", 0)
        return None

    interp.contracts_at_calls["nptdms.reader:ObjectMetadata.__init__"] = metadata_init

    def target_of(g):
        mm = g["metamap"]
        if len(mm.lookups) == 1 and mm.lookups[0][1]:
            return mm.lookups[0][2], mm.lookups[0][3]
        if len(mm.lookups) == 1 and len(mm.stores) == 1:
            return mm.stores[0][1], (0, None, None, None)
        return None, None

    def on_outer(env, k, st):
        g = st.ghost["uop"]
        g["metamap"].lookups[:] = []
        g["metamap"].stores[:] = []
        mine = [pair for (i0, pair) in g["sprops"].elements if i0 is k]
        st.ghost["outer"] = dict(k=k, path=mine[0][0], plist=mine[0][1])
        st.ghost["inner"] = None

    def inv_outer(env, k, st):
        g = st.ghost["uop"]
        rd = env.vars["self"]
        out = [("reader-keeps-its-metadata-map", rd.object_metadata is g["metamap"])]
        it = st.ghost.get("outer")
        if it is not None and not it.get("checked") and it.get("inner_seen"):
            it["checked"] = True
            mm = g["metamap"]
            out.append(("metadata-looked-up-once-under-the-entry's-path",
                        len(mm.lookups) == 1 and mm.lookups[0][0] is it["path"]))
            if len(mm.lookups) == 1 and not mm.lookups[0][1]:
                out.append(("new-object/created-under-the-entry's-path",
                            len(mm.stores) == 1 and mm.stores[0][0] is it["path"]))
            elif len(mm.lookups) == 1:
                out.append(("known-object/no-new-metadata-entry", len(mm.stores) == 0))
            out.append(("the-entry's-own-property-list-was-walked", it.get("inner_list") is it["plist"]))
        return out

    def on_inner(env, j, st):
        g = st.ghost["uop"]
        o = st.ghost["outer"]
        plist = o["inner_list"]
        mine = [pair for (j0, pair) in plist.elements if j0 is j]
        m, before = target_of(g)
        if m is not None and isinstance(m.properties, PropRecorder):
            m.properties.stores[:] = []          # havoc: the map's state after j stores is unknown
        st.ghost["inner"] = dict(j=j, name=mine[0][0], value=mine[0][1])

    def inv_inner(env, j, st):
        g = st.ghost["uop"]
        o = st.ghost.get("outer")
        m, before = (None, None) if o is None else target_of(g)
        out = [("metadata-of-the-entry's-path-found-or-created-before-its-properties-are-applied",
                m is not None and isinstance(m.properties, PropRecorder))]
        if o is not None and not o.get("inner_seen"):
            o["inner_seen"] = True
            o["inner_list"] = g["last_proplist"]
        it = st.ghost.get("inner")
        if it is not None and not it.get("checked") and m is not None:
            it["checked"] = True
            rec = m.properties
            out.append(("exactly-one-property-stored-in-that-object's-map",
                        isinstance(rec, PropRecorder) and len(rec.stores) == 1))
            if isinstance(rec, PropRecorder) and len(rec.stores) == 1:
                out.append(("stored-under-its-name", rec.stores[0][0] is it["name"]))
                out.append(("stored-value-is-the-value-read", rec.stores[0][1] is it["value"]))
            (n0, t0, sc0, props0) = before
            out.append(("length-and-type-untouched", And(m.num_values == n0) and m.data_type is t0))
            others = [mm_ for (_, found, mm_, _) in g["metamap"].lookups if found and mm_ is not m]
            out.append(("no-other-object's-properties-touched", len(others) == 0))
        return out

    interp.loop_specs[("nptdms.reader:TdmsReader._update_object_properties", 0)] = LoopSpec(
        inv_outer, havoc={"__locals__": ("object_metadata", "prop", "val")}, on_iter=on_outer,
        name="objects-with-properties")
    interp.loop_specs[("nptdms.reader:TdmsReader._update_object_properties", 1)] = LoopSpec(
        inv_inner, havoc={}, on_iter=on_inner, name="properties-of-one-object")


@harness("update_object_properties_all", ["reader.TdmsReader._update_object_properties",
                                          "reader.TdmsReader._get_or_create_object",
                                          "reader.ObjectMetadata.__init__"],
         ["C01", "C07"], setup=_setup_uop_all, level="proof",
         note="ANY number of objects with properties and ANY number of properties per object (two loop invariants), "
              "object_metadata of any size: every (name, value) is stored once, in file order, into the metadata "
              "of its path")
def _uop_all(vc):
    st = vc.st
    rd = mk_reader(vc, 100)
    mm = MetaMap(vc, False, recorders=True)
    rd.object_metadata = mm
    sp = SegmentProps(vc)
    st.ghost["uop"] = dict(metamap=mm, sprops=sp, last_proplist=None)
    vc.cover("many-objects-with-properties-are-within-the-precondition", sp.n >= 1000)
    out = vc.call_method(rd, "_update_object_properties", sp)
    vc.ensure("no-exception", out.kind == "ret")
    vc.ensure("reader-keeps-its-metadata-map", rd.object_metadata is mm, kind="frame")
    none = vc.call_method(rd, "_update_object_properties", None)
    vc.ensure("no-properties-in-the-segment/nothing-happens", none.kind == "ret")
