"""reader.py metadata accumulation and index building (C01 O9/O10, C02, C04, C05, C06 (d))."""
import z3
from pyvc.harness import harness
from pyvc.models import SFile, SymStr, fresh_str
from pyvc.interp import Obj, LoopSpec, SymSeq
from pyvc import sym
from pyvc.sym import _lift
from spec import addr as A
from spec.base import And, Or, Not, Implies, Ite, Min, Max
from contracts.reader_leadin import mk_reader


class Tok(object):
    def __init__(self, n):
        self.n = n

    def __repr__(self):
        return "<%s>" % self.n


NSV_VARIANTS = [("override=%s" % o, o) for o in ("none", "present", "absent-key")]


@harness("number_of_segment_values", "reader._number_of_segment_values", ["C01", "C04", "C06", "C14"],
         variants=NSV_VARIANTS)
def _nsv(vc):
    mode = vc.variant
    has = vc.bool("has_data")
    nv = vc.int("nv", lo=0)
    nc = vc.int("num_chunks", lo=0)
    obj = vc.new("tdms_segment.TdmsSegmentObject", path="p", has_data=has, number_values=nv, data_size=0,
                 data_type=None)
    if mode == "none":
        ov, fin = None, None
    elif mode == "present":
        fin = vc.int("final", lo=0)
        ov = {"p": fin, "q": 5}
        vc.assume(nc >= 1)
    else:
        fin = 0
        ov = {"q": 5}
        vc.assume(nc >= 1)
    seg = vc.new("tdms_segment.TdmsSegment", num_chunks=nc, final_chunk_lengths_override=ov)
    out = vc.call("reader._number_of_segment_values", obj, seg)
    vc.ensure("no-exception", out.kind == "ret")
    if out.kind == "ret":
        vc.ensure("sum-of-values-over-the-chunks", out.value == A.segment_values(has, nv, nc, fin))


def mk_so(vc, path, tag, typ):
    return vc.new("tdms_segment.TdmsSegmentObject", path=path, has_data=vc.bool(tag + "_has"),
                  number_values=vc.int(tag + "_nv", lo=0), data_size=vc.int(tag + "_size", lo=0), data_type=typ)


UOM_VARIANTS = [("objects=%d,known=%s" % (n, k), (n, k)) for n in (0, 1, 2) for k in ("none", "first", "all")]


@harness("update_object_metadata", ["reader.TdmsReader._update_object_metadata",
                                    "reader.TdmsReader._get_or_create_object", "reader._update_object_data_type",
                                    "reader.ObjectMetadata.__init__"],
         ["C01", "C02", "C14"], variants=UOM_VARIANTS, level="shape-bounded",
         bound="<= 2 objects in the segment; each already known to the reader or new; counts symbolic")
def _uom(vc):
    n, known = vc.variant
    st = vc.st
    T1, T2 = Tok("T1"), Tok("T2")
    objs = [mk_so(vc, "/'g'/'c%d'" % i, "o%d" % i, T1) for i in range(n)]
    nc = vc.int("num_chunks", lo=0)
    seg = vc.new("tdms_segment.TdmsSegment", num_chunks=nc, final_chunk_lengths_override=None,
                 ordered_objects=list(objs))
    rd = mk_reader(vc, 100)
    from collections import OrderedDict
    rd.object_metadata = OrderedDict()
    rd._prev_segment_objects = {}
    before = {}
    for i, o in enumerate(objs):
        if known == "all" or (known == "first" and i == 0):
            m = vc.new("reader.ObjectMetadata", properties=OrderedDict(), data_type=(T1 if i == 0 else None),
                       scaler_data_types=None, num_values=vc.int("m%d_n" % i, lo=0))
            rd.object_metadata[o.path] = m
            before[o.path] = m.num_values
    keys_before = list(rd.object_metadata.keys())
    out = vc.call_method(rd, "_update_object_metadata", seg)
    vc.ensure("no-exception", out.kind == "ret")
    if out.kind != "ret":
        return
    for i, o in enumerate(objs):
        m = rd.object_metadata[o.path]
        add = A.segment_values(o.has_data, o.number_values, nc, None)
        vc.ensure("object[%d]/length-accumulates" % i, m.num_values == before.get(o.path, 0) + add)
        vc.ensure("object[%d]/data-type-recorded" % i, m.data_type is T1)
        vc.ensure("object[%d]/most-recent-segment-object-remembered" % i, rd._prev_segment_objects[o.path] is o)
    new_keys = [o.path for o in objs if o.path not in keys_before]
    vc.ensure("objects-keep-first-appearance-order", list(rd.object_metadata.keys()) == keys_before + new_keys)


@harness("update_object_data_type", "reader._update_object_data_type", ["C02", "C01"],
         variants=[("first", 0), ("same", 1), ("changed", 2)])
def _uodt(vc):
    T1, T2 = Tok("T1"), Tok("T2")
    mode = vc.variant
    m = vc.new("reader.ObjectMetadata", properties={}, data_type=(None if mode == 0 else T1),
               scaler_data_types=None, num_values=0)
    so = vc.new("tdms_segment.TdmsSegmentObject", path="p", has_data=True, number_values=1, data_size=1,
                data_type=(T2 if mode == 2 else T1))
    out = vc.call("reader._update_object_data_type", "p", m, so)
    if mode == 2:
        vc.ensure("type-change-is-rejected", out.raised(ValueError))
    else:
        vc.ensure("accepted", out.kind == "ret")
        vc.ensure("type-recorded", m.data_type is T1)


UOP_VARIANTS = [("none", None), ("new+existing", 1)]


@harness("update_object_properties", "reader.TdmsReader._update_object_properties", ["C01", "C07"],
         variants=UOP_VARIANTS, level="shape-bounded", bound="<= 2 objects with <= 2 properties each")
def _uop(vc):
    from collections import OrderedDict
    rd = mk_reader(vc, 100)
    rd.object_metadata = OrderedDict()
    m = vc.new("reader.ObjectMetadata", properties=OrderedDict([("a", 1), ("b", 2)]), data_type=None,
               scaler_data_types=None, num_values=0)
    rd.object_metadata["p"] = m
    if vc.variant is None:
        out = vc.call_method(rd, "_update_object_properties", None)
        vc.ensure("no-properties-no-change", out.kind == "ret" and list(m.properties.items()) == [("a", 1), ("b", 2)])
        return
    v1, v2, v3 = vc.int("v1"), vc.int("v2"), vc.int("v3")
    props = {"p": [("b", v1), ("c", v2), ("b", v3)], "q": [("x", v2)]}
    out = vc.call_method(rd, "_update_object_properties", props)
    vc.ensure("no-exception", out.kind == "ret")
    if out.kind != "ret":
        return
    vc.ensure("last-value-written-wins", And(m.properties["b"] == v3, m.properties["c"] == v2,
                                             m.properties["a"] == 1))
    vc.ensure("property-order-is-first-appearance", list(m.properties.keys()) == ["a", "b", "c"])
    vc.ensure("new-object-created", list(rd.object_metadata.keys()) == ["p", "q"]
              and rd.object_metadata["q"].properties["x"] == v2)


# ---------------------------------------------------------------------------- _build_index

BI_VARIANTS = [("segments=%d,cached=%d" % (n, c), (n, c)) for n in (0, 1, 2, 3) for c in (0, 1)]


@harness("build_index", ["reader.TdmsReader._build_index", "reader._deduplicate_array", "reader._array_equal"],
         ["C04", "C05", "C06", "C03"], variants=BI_VARIANTS, level="shape-bounded",
         thorough_variants=[("segments=%d,cached=%d" % (n, c), (n, c)) for n in (4, 5) for c in (0, 1)],
         thorough_bound="<= 5 segments",
         bound="<= 3 segments; per segment the channel is absent / present with symbolic value counts; "
               "<= 1 previously built index to de-duplicate against", split_variants=False)
def _build_index(vc):
    from pyvc.npmodel import ListArr
    nseg, ncached = vc.variant
    st = vc.st
    path = "/'g'/'P'"
    segs = []
    vals = []
    for s in range(nseg):
        present = vc.bool("s%d_present" % s)
        has = vc.bool("s%d_has" % s)
        nv = vc.int("s%d_nv" % s, lo=0)
        nc = vc.int("s%d_nc" % s, lo=0)
        o = vc.new("tdms_segment.TdmsSegmentObject", path=path, has_data=has, number_values=nv, data_size=0,
                   data_type=None)
        other = vc.new("tdms_segment.TdmsSegmentObject", path="/'g'/'Q'", has_data=True, number_values=1,
                       data_size=1, data_type=None)
        if vc.interp.truth(present):
            index = {"/'g'/'Q'": 0, path: 1}
            objs = [other, o]
            v = A.segment_values(has, nv, nc, None)
        else:
            index = {"/'g'/'Q'": 0}
            objs = [other]
            v = 0
        segs.append(vc.new("tdms_segment.TdmsSegment", num_chunks=nc, final_chunk_lengths_override=None,
                           ordered_objects=objs, object_index=index))
        vals.append(v)
    rd = mk_reader(vc, 100)
    rd._segments = segs
    rd._segment_channel_offsets = {}
    if ncached:
        old = ListArr([vc.int("old%d" % i, lo=0) for i in range(2)], "int64")
        rd._segment_channel_offsets["/'g'/'Q'"] = (0, old)
    out = vc.call_method(rd, "_build_index", path)
    vc.ensure("no-exception", out.kind == "ret")
    if out.kind != "ret":
        return
    (first, offs) = rd._segment_channel_offsets[path]
    # spec: first = first segment with values (number of segments if none); offs[j] = vals[first..first+j] summed
    # up to the last segment with values
    nz = [vc.interp.truth(v > 0) for v in vals]
    if not any(nz):
        vc.ensure("no-data/first-is-segment-count", first == nseg)
        vc.ensure("no-data/empty-index", len(offs) == 0)
    else:
        F = nz.index(True)
        Lst = len(nz) - 1 - nz[::-1].index(True)
        vc.ensure("first-segment-with-values", first == F)
        vc.ensure("one-entry-per-segment-up-to-the-last-with-values", len(offs) == Lst - F + 1)
        run = 0
        for j in range(Lst - F + 1):
            run = run + vals[F + j]
            vc.ensure("offsets[%d]-is-running-total" % j, vc.interp.getitem(offs, j) == run)
    vc.ensure("other-channels'-indexes-untouched",
              (not ncached) or rd._segment_channel_offsets["/'g'/'Q'"][1] is old)
    vc.ensure("reads-nothing", True)
