"""tdms.TdmsFile: hierarchy construction, eager data read, file-level stream, status, resources
(C01 O11/O12, C03, C06 (e), C16, C20)."""
from collections import OrderedDict
import itertools
from pyvc.harness import harness
from pyvc.absarr import Window
from pyvc.interp import Obj, ProgExc
from pyvc.models import SFile
from pyvc import sym
from spec.base import And, Or, Not, Implies, Ite


class Tok(object):
    def __init__(self, n):
        self.n = n

    def __repr__(self):
        return "<%s>" % self.n


def path_of(group=None, channel=None):
    """spec.pathlang.enc on concrete names"""
    def q(s):
        return "'" + s.replace("'", "''") + "'"
    if group is None:
        return "/"
    if channel is None:
        return "/" + q(group)
    return "/" + q(group) + "/" + q(channel)


# object lists: (group, channel) tuples in file order of first appearance
LISTS = {
    "plain": [(None, None), ("g", None), ("g", "a"), ("g", "b")],
    "channel-before-group": [("g", "a"), (None, None), ("g", None), ("g", "b")],
    "undeclared-group": [(None, None), ("g", None), ("h", "x"), ("g", "a"), ("h", "y")],
    "no-root": [("g", None), ("g", "a")],
    "two-groups-interleaved": [("g2", None), ("g1", "a"), ("g1", None), ("g2", "b"), ("g1", "c")],
    "quotes-and-slashes": [(None, None), ("a/'b", None), ("a/'b", "c''/d"), ("a/'b", ""), ("", "/")],
    "only-root": [(None, None)],
    "empty": [],
}


def expected_hierarchy(entries):
    declared = [g for (g, c) in entries if g is not None and c is None]
    via_channels = []
    for (g, c) in entries:
        if c is not None and g not in declared and g not in via_channels:
            via_channels.append(g)
    groups = declared + via_channels
    chans = {g: [c for (gg, c) in entries if gg == g and c is not None] for g in groups}
    return groups, chans


def _setup_read_file(interp):
    def read_metadata(interp_, f, args, kwargs):
        st = sym.get_state()
        st.ghost["read_metadata"] = kwargs.get("require_segment_indexes", args[1] if len(args) > 1 else False)

    def read_data(interp_, f, args, kwargs):
        st = sym.get_state()
        st.ghost["read_data"] = st.ghost.get("read_data", 0) + 1
    interp.contracts_at_calls["nptdms.reader:TdmsReader.read_metadata"] = read_metadata
    interp.contracts_at_calls["nptdms.tdms:TdmsFile._read_data"] = read_data


RF_VARIANTS = [("%s,meta_only=%s,keep_open=%s" % (k, m, o), (k, m, o)) for k in sorted(LISTS)
               for (m, o) in ((False, False), (True, True), (True, False))]


@harness("read_file_hierarchy", ["tdms.TdmsFile._read_file", "tdms.TdmsFile._convert_properties",
                                 "tdms.TdmsGroup.__init__", "tdms.TdmsChannel.__init__",
                                 "common.ObjectPath.from_string", "common.ObjectPath.__init__",
                                 "common.ObjectPath.group_path", "common._path_components",
                                 "common._components_to_path"],
         ["C01", "C16", "C03", "C13"], variants=RF_VARIANTS, setup=_setup_read_file, level="shape-bounded",
         bound="8 concrete object lists (orderings of root / groups / channels, undeclared groups, names with "
               "quotes, slashes and empty strings); lengths and types symbolic")
def _read_file(vc):
    kind, meta_only, keep_open = vc.variant
    st = vc.st
    entries = LISTS[kind]
    om = OrderedDict()
    T = Tok("type")
    for i, (g, c) in enumerate(entries):
        m = vc.new("reader.ObjectMetadata", properties=OrderedDict([("p%d" % i, i)]), data_type=T,
                   scaler_data_types=None, num_values=vc.int("n%d" % i, lo=0))
        om[path_of(g, c)] = m
    rd = vc.new("reader.TdmsReader", object_metadata=om, tdms_version=4713, _file=SFile("d"), _index_file=None)
    tf = vc.new("tdms.TdmsFile", _memmap_dir=None, _raw_timestamps=False, _groups=OrderedDict(),
                _properties=OrderedDict(), _channel_data={}, _tdms_version=0, data_read=False, _reader=rd)
    out = vc.call_method(tf, "_read_file", rd, meta_only, keep_open)
    vc.ensure("no-exception", out.kind == "ret")
    if out.kind != "ret":
        return
    groups, chans = expected_hierarchy(entries)
    vc.ensure("segment-indexes-requested-iff-file-stays-open", st.ghost.get("read_metadata") == keep_open)
    vc.ensure("version-recorded", tf._tdms_version == 4713)
    vc.ensure("groups: declared ones in first-appearance order, then groups named only through channels",
              list(tf._groups.keys()) == groups)
    for g in groups:
        grp = tf._groups[g]
        vc.ensure("group[%r]/name-and-path" % g, grp._path.group == g and grp._path.channel is None
                  and str(grp._path._path) == path_of(g))
        vc.ensure("group[%r]/channels-in-first-appearance-order" % g, list(grp._channels.keys()) == chans[g])
        for c in chans[g]:
            ch = grp._channels[c]
            i = entries.index((g, c))
            vc.ensure("channel[%r/%r]/names" % (g, c), ch._path.group == g and ch._path.channel == c)
            vc.ensure("channel[%r/%r]/path-string" % (g, c), ch._path._path == path_of(g, c))
            vc.ensure("channel[%r/%r]/length" % (g, c), ch._length == om[path_of(g, c)].num_values)
            vc.ensure("channel[%r/%r]/type" % (g, c), ch.data_type is T)
            vc.ensure("channel[%r/%r]/properties" % (g, c), list(ch.properties.items()) == [("p%d" % i, i)])
            gp = [("p%d" % entries.index((g, None)), entries.index((g, None)))] if (g, None) in entries else []
            vc.ensure("channel[%r/%r]/group-properties-for-scaling-lookup" % (g, c),
                      list(ch._group_properties.items()) == gp)
            vc.ensure("channel[%r/%r]/reader" % (g, c), ch._reader is rd)
        if (g, None) in entries:
            i = entries.index((g, None))
            vc.ensure("group[%r]/properties" % g, list(grp.properties.items()) == [("p%d" % i, i)])
    if (None, None) in entries:
        i = entries.index((None, None))
        vc.ensure("file-properties-are-the-root-object's", list(tf._properties.items()) == [("p%d" % i, i)])
    vc.ensure("data-read-iff-not-metadata-only", st.ghost.get("read_data", 0) == (0 if meta_only else 1))


# ---------------------------------------------------------------------------- _read_data

def _setup_read_data(interp):
    def get_data_receiver(interp_, f, args, kwargs):
        st = sym.get_state()
        ch, n = args[0], args[1]
        st.ghost.setdefault("capacity", {})[ch._path._path] = n
        if ch.data_type is None:
            return None
        r = Recorder(ch._path._path)
        return r

    def read_raw_data(interp_, f, args, kwargs):
        st = sym.get_state()
        return iter(st.ghost["chunks"])
    interp.contracts_at_calls["nptdms.channel_data:get_data_receiver"] = get_data_receiver
    interp.contracts_at_calls["nptdms.reader:TdmsReader.read_raw_data"] = read_raw_data


class Recorder(object):
    def __init__(self, path):
        self.path = path
        self.appended = []
        self.scaler_appended = []

    def append_data(self, d):
        self.appended.append(d)

    def append_scaler_data(self, sid, d):
        self.scaler_appended.append((sid, d))


@harness("read_data_eager", ["tdms.TdmsFile._read_data", "tdms.TdmsChannel._set_raw_data", "tdms.TdmsFile.groups",
                             "tdms.TdmsGroup.channels", "tdms.TdmsChannel.path"],
         ["C01", "C03", "C11"], variants=[("chunks=%d" % k, k) for k in (0, 1, 2, 3)], setup=_setup_read_data,
         level="shape-bounded", bound="2 groups / 3 channels (one typeless, one DAQmx), <= 3 chunks")
def _read_data_eager(vc):
    k = vc.variant
    st = vc.st
    T = Tok("type")
    OP = vc.interp.get("common.ObjectPath")
    chans = []
    tf = vc.new("tdms.TdmsFile", _memmap_dir=None, _raw_timestamps=False, _groups=OrderedDict(),
                _properties=OrderedDict(), _channel_data={}, _tdms_version=0, data_read=False, _reader=None)
    spec = [("g", "a", T), ("g", "typeless", None), ("h", "d", T)]
    for (g, c, typ) in spec:
        ch = vc.new("tdms.TdmsChannel", _path=vc.interp.instantiate(OP, [g, c], {}), _length=vc.int("n_" + c, lo=0),
                    data_type=typ, _raw_data=None)
        chans.append(ch)
    G = vc.interp.get("tdms.TdmsGroup")
    tf._groups["g"] = vc.new("tdms.TdmsGroup", _path=vc.interp.instantiate(OP, ["g"], {}),
                             _channels={"a": chans[0], "typeless": chans[1]})
    tf._groups["h"] = vc.new("tdms.TdmsGroup", _path=vc.interp.instantiate(OP, ["h"], {}),
                             _channels={"d": chans[2]})
    RD = vc.interp.get("base_segment.RawDataChunk")
    RC = vc.interp.get("base_segment.RawChannelDataChunk")
    chunks = []
    for i in range(k):
        cd = {}
        ca = Obj(RC)
        ca._f.update(data=Tok("a%d" % i), scaler_data=None)
        cd[path_of("g", "a")] = ca
        cdq = Obj(RC)
        cdq._f.update(data=None, scaler_data={0: Tok("d%d/0" % i), 1: Tok("d%d/1" % i)})
        cd[path_of("h", "d")] = cdq
        c = Obj(RD)
        c._f.update(channel_data=cd)
        chunks.append(c)
    st.ghost["chunks"] = chunks
    rd = vc.new("reader.TdmsReader", _file=SFile("d"))
    out = vc.call_method(tf, "_read_data", rd)
    vc.ensure("no-exception", out.kind == "ret")
    if out.kind != "ret":
        return
    cap = st.ghost["capacity"]
    for ch in chans:
        vc.ensure("receiver-capacity-is-len(channel)[%s]" % ch._path._path, cap[ch._path._path] is ch._length
                  or vc.interp.truth(cap[ch._path._path] == ch._length))
    ra = tf._channel_data[path_of("g", "a")]
    vc.ensure("channel-a-received-its-chunks-in-file-order", [t.n for t in ra.appended] == ["a%d" % i for i in range(k)])
    rdq = tf._channel_data[path_of("h", "d")]
    vc.ensure("daqmx-scaler-data-routed-per-scaler-in-order",
              [(s, t.n) for (s, t) in rdq.scaler_appended] == [(s, "d%d/%d" % (i, s)) for i in range(k) for s in (0, 1)])
    vc.ensure("raw-data-attached-to-each-typed-channel", chans[0]._raw_data is ra and chans[2]._raw_data is rdq)
    vc.ensure("typeless-channel-has-no-data", tf._channel_data[path_of("g", "typeless")] is None
              and chans[1]._raw_data is None)
    vc.ensure("data_read-flag", tf.data_read is True)


# ---------------------------------------------------------------------------- file-level chunk stream

def _setup_stream(interp):
    def read_raw_data(interp_, f, args, kwargs):
        st = sym.get_state()
        return iter(st.ghost["chunks"])
    interp.contracts_at_calls["nptdms.reader:TdmsReader.read_raw_data"] = read_raw_data
    interp.contracts_at_calls["nptdms.tdms:_convert_data_chunk"] = \
        lambda i, f, a, k: sym.get_state().ghost.setdefault("converted", []).append((a[0], a[1]))


@harness("file_data_chunks", ["tdms.TdmsFile.data_chunks", "tdms.DataChunk.__init__", "tdms.GroupDataChunk.__init__",
                              "tdms.ChannelDataChunk.__init__", "base_segment.RawChannelDataChunk.__len__",
                              "base_segment.RawChannelDataChunk.empty"],
         ["C03", "C05"], variants=[("chunks=%d" % k, k) for k in (0, 1, 2, 3)], setup=_setup_stream,
         level="shape-bounded", bound="1 group / 2 channels, <= 3 chunks of symbolic lengths; one channel is "
                                      "absent from the second chunk")
def _file_data_chunks(vc):
    k = vc.variant
    st = vc.st
    OP = vc.interp.get("common.ObjectPath")
    tf = vc.new("tdms.TdmsFile", _memmap_dir=None, _raw_timestamps=vc.bool("raw_ts"), _groups=OrderedDict(),
                _properties=OrderedDict(), _channel_data={}, _tdms_version=0, data_read=False)
    chans = [vc.new("tdms.TdmsChannel", _path=vc.interp.instantiate(OP, ["g", c], {}), _length=0, data_type=None,
                    _raw_data=None) for c in ("a", "b")]
    tf._groups["g"] = vc.new("tdms.TdmsGroup", _path=vc.interp.instantiate(OP, ["g"], {}),
                             _channels={"a": chans[0], "b": chans[1]})
    RD = vc.interp.get("base_segment.RawDataChunk")
    RC = vc.interp.get("base_segment.RawChannelDataChunk")
    chunks, lens = [], []
    pos = {"a": 0, "b": 0}
    for i in range(k):
        cd = {}
        ln = {}
        for c in ("a", "b"):
            if c == "b" and i == 1:
                ln[c] = 0
                continue
            n = vc.int("len_%s%d" % (c, i), lo=0)
            o = Obj(RC)
            o._f.update(data=Window(pos[c], pos[c] + n, c), scaler_data=None)
            pos[c] = pos[c] + n
            cd[path_of("g", c)] = o
            ln[c] = n
        ch = Obj(RD)
        ch._f.update(channel_data=cd)
        chunks.append(ch)
        lens.append(ln)
    st.ghost["chunks"] = chunks
    tf._reader = vc.new("reader.TdmsReader", _file=SFile("d"))
    g = vc.call_method(tf, "data_chunks")
    out = vc.drain(g.value)
    vc.ensure("no-exception", out.kind == "ret")
    res = out.value
    vc.ensure("one-DataChunk-per-raw-chunk", len(res) == k)
    run = {"a": 0, "b": 0}
    for i, dc in enumerate(res):
        for c in ("a", "b"):
            cc = dc._groups["g"]._channels[c]
            vc.ensure("chunk[%d]/%s/offset-is-values-delivered-so-far" % (i, c), cc.offset == run[c])
            ln = vc.interp.models[len](vc.interp, cc)
            vc.ensure("chunk[%d]/%s/length" % (i, c), ln == lens[i][c])
            run[c] = run[c] + lens[i][c]
    conv = st.ghost.get("converted", [])
    vc.ensure("every-chunk-converted-with-the-file's-timestamp-mode",
              len(conv) == k and all(a is b for (a, _), b in zip(conv, chunks))
              and all(m is tf._raw_timestamps for (_, m) in conv))


# ---------------------------------------------------------------------------- file_status

FS_VARIANTS = [("no-segments", 0), ("complete", 1), ("incomplete-exact", 2), ("override", 3)]


@harness("file_status", ["tdms.TdmsFile.file_status", "tdms.FileStatus.__init__", "tdms.ChannelSegmentStatus.__init__"],
         ["C06"], variants=FS_VARIANTS)
def _file_status(vc):
    mode = vc.variant
    segs = []
    inc = None
    if mode:
        o1 = vc.new("tdms_segment.TdmsSegmentObject", path="p1", has_data=True, number_values=vc.int("nv1", lo=0))
        o2 = vc.new("tdms_segment.TdmsSegmentObject", path="p2", has_data=False, number_values=vc.int("nv2", lo=0))
        o3 = vc.new("tdms_segment.TdmsSegmentObject", path="p3", has_data=True, number_values=vc.int("nv3", lo=0))
        inc = vc.bool("incomplete") if mode == 3 else (mode == 2)
        ov = {"p1": vc.int("f1", lo=0)} if mode == 3 else None
        first = vc.new("tdms_segment.TdmsSegment", segment_incomplete=True, final_chunk_lengths_override={},
                       ordered_objects=[])
        last = vc.new("tdms_segment.TdmsSegment", segment_incomplete=inc, final_chunk_lengths_override=ov,
                      ordered_objects=[o1, o2, o3])
        segs = [first, last]
    rd = vc.new("reader.TdmsReader", _segments=segs)
    tf = vc.new("tdms.TdmsFile", _reader=rd)
    out = vc.call(lambda: vc.interp.getattr_value(tf, "file_status"))
    vc.ensure("no-exception", out.kind == "ret")
    fs = out.value
    if mode == 0:
        vc.ensure("empty-file-is-complete", fs.incomplete_final_segment is False and fs.channel_statuses is None)
        return
    vc.ensure("incomplete-flag-is-the-last-segment's", fs.incomplete_final_segment == inc
              if not isinstance(inc, bool) else fs.incomplete_final_segment is inc)
    if mode == 1:
        vc.ensure("complete-file-has-no-channel-statuses", fs.channel_statuses is None)
        return
    cs = fs.channel_statuses
    vc.ensure("statuses-for-channels-with-data-in-the-last-segment", sorted(cs.keys()) == ["p1", "p3"])
    vc.ensure("expected-length-is-the-chunk-length", And(cs["p1"].expected_length == o1.number_values,
                                                        cs["p3"].expected_length == o3.number_values))
    if mode == 2:
        vc.ensure("all-values-read", And(cs["p1"].read_length == o1.number_values,
                                         cs["p3"].read_length == o3.number_values))
    else:
        vc.ensure("read-length-from-the-partial-chunk(absent=0)", And(cs["p1"].read_length == ov["p1"],
                                                                      cs["p3"].read_length == 0))


# ---------------------------------------------------------------------------- resources (C20)

def _setup_init(interp):
    class FakeReader(object):
        def __init__(self, st, index_only):
            self.closed = 0
            self.st = st
            self.index_only = index_only

        def close(self):
            self.closed += 1

        def is_index_file_only(self):
            return self.index_only

    def reader_ctor(interp_, cls, args, kwargs):
        st = sym.get_state()
        if st.ghost["ctor_fails"]:
            raise ProgExc(ValueError, "bad tag")
        r = FakeReader(st, st.ghost["index_only"])
        st.ghost["reader"] = r
        return r

    def read_file(interp_, f, args, kwargs):
        st = sym.get_state()
        st.ghost["read_file_args"] = args[1:]
        if st.ghost["read_fails"] is not None:
            raise ProgExc(st.ghost["read_fails"], "reading")
    interp.contracts_at_calls["nptdms.tdms:TdmsFile._read_file"] = read_file
    interp.models[("instantiate_cls", "nptdms.reader:TdmsReader")] = reader_ctor


INIT_VARIANTS = [("%s,keep_open=%s,meta_only=%s,index_only=%s" % (f.__name__ if f else ("ctor" if c else "ok"), k, m, io),
                  (f, c, k, m, io))
                 for (f, c) in ((None, False), (ValueError, False), (KeyError, False), (EOFError, False), (None, True))
                 for k in (False, True) for m in (False, True) for io in (False, True)]


@harness("tdmsfile_init_close", ["tdms.TdmsFile.__init__", "tdms.TdmsFile.close", "tdms.TdmsFile.__exit__",
                                 "tdms.TdmsFile.__enter__", "tdms.TdmsFile.read", "tdms.TdmsFile.open",
                                 "tdms.TdmsFile.read_metadata"],
         ["C20", "C09"], variants=INIT_VARIANTS, setup=_setup_init)
def _init_close(vc):
    fail, ctor_fails, keep_open, meta_only, index_only = vc.variant
    st = vc.st
    st.ghost.update(ctor_fails=ctor_fails, read_fails=fail, index_only=index_only)
    cls = vc.interp.get("tdms.TdmsFile")
    out = vc.call(cls, "file.tdms", False, None, meta_only, keep_open)
    if ctor_fails:
        vc.ensure("reader-construction-error-propagates", out.raised(ValueError))
        return
    r = st.ghost["reader"]
    if fail is not None:
        vc.ensure("read-error-propagates", out.raised(fail))
        vc.ensure("c20/reader-closed-on-error-unless-keep_open", r.closed == (0 if keep_open else 1),
                  kind="resource")
        return
    vc.ensure("no-exception", out.kind == "ret")
    tf = out.value
    vc.ensure("c20/reader-closed-after-read-unless-keep_open", r.closed == (0 if keep_open else 1), kind="resource")
    (rd_arg, meta_arg, keep_arg) = st.ghost["read_file_args"]
    vc.ensure("c09/index-only-forces-metadata-only", meta_arg == (True if index_only else meta_only))
    vc.ensure("keep_open-passed-through", keep_arg == keep_open)
    before = r.closed
    c1 = vc.call_method(tf, "close")
    vc.ensure("c20/close-closes-the-reader-once", c1.kind == "ret" and r.closed == before + 1 and tf._reader is None,
              kind="resource")
    c2 = vc.call_method(tf, "close")
    vc.ensure("c20/second-close-is-a-no-op", c2.kind == "ret" and r.closed == before + 1, kind="resource")
    e = vc.call_method(tf, "__exit__", None, None, None)
    vc.ensure("c20/exit-after-close-is-a-no-op", e.kind == "ret" and r.closed == before + 1, kind="resource")


@harness("tdmsfile_factories", ["tdms.TdmsFile.read", "tdms.TdmsFile.open", "tdms.TdmsFile.read_metadata"],
         ["C20", "C03"], variants=[("read", "read"), ("open", "open"), ("read_metadata", "read_metadata")],
         setup=_setup_init)
def _factories(vc):
    st = vc.st
    st.ghost.update(ctor_fails=False, read_fails=None, index_only=False)
    cls = vc.interp.get("tdms.TdmsFile")
    fn = vc.interp.getattr_value(cls, vc.variant)
    out = vc.call(fn, "file.tdms")
    vc.ensure("no-exception", out.kind == "ret")
    (rd_arg, meta_arg, keep_arg) = st.ghost["read_file_args"]
    exp = {"read": (False, False), "open": (True, True), "read_metadata": (True, False)}[vc.variant]
    vc.ensure("mode-flags", (meta_arg, keep_arg) == exp)
    vc.ensure("c20/file-left-open-only-by-open()", st.ghost["reader"].closed == (0 if vc.variant == "open" else 1),
              kind="resource")


# ---------------------------------------------------------------------------- file-level chunk stream, ANY number of chunks

import z3
from collections import defaultdict
from pyvc.interp import SymSeq, LoopSpec
from pyvc.sym import _lift, SymBool


def _setup_stream_all(interp):
    CA = z3.Function("CUTA", z3.IntSort(), z3.IntSort())
    CB = z3.Function("CUTB", z3.IntSort(), z3.IntSort())
    LA = z3.Function("LENA", z3.IntSort(), z3.IntSort())
    LB = z3.Function("LENB", z3.IntSort(), z3.IntSort())
    PB = z3.Function("HASB", z3.IntSort(), z3.BoolSort())
    pa, pb = path_of("g", "a"), path_of("g", "b")

    def facts(st, k):
        kz = sym.z3int(k)
        st.add_fact(z3.And(LA(kz) >= 0, LB(kz) >= 0, CA(kz + 1) == CA(kz) + LA(kz),
                           CB(kz + 1) == CB(kz) + z3.If(PB(kz), LB(kz), 0)))

    def read_raw_data(interp_, f, args, kwargs):
        """contract of TdmsReader.read_raw_data (harness seg_read_raw_data): K raw chunks; chunk k holds LENA(k)
        values of channel a starting at its running count, and LENB(k) values of channel b if b is present in it"""
        st = sym.get_state()
        K = st.fresh_int("K")
        st.assume(K >= 0)
        st.ghost["K"] = K
        st.add_fact(z3.And(CA(0) == 0, CB(0) == 0))
        RD = interp_.get("base_segment.RawDataChunk")
        RC = interp_.get("base_segment.RawChannelDataChunk")

        def item(k):
            facts(st, k)
            kz = sym.z3int(k)
            cd = {}
            a = Obj(RC)
            a._f.update(data=Window(_lift(CA(kz)), _lift(CA(kz + 1)), "a"), scaler_data=None)
            cd[pa] = a
            if interp_.truth(_lift(PB(kz))):
                b = Obj(RC)
                b._f.update(data=Window(_lift(CB(kz)), _lift(CB(kz)) + _lift(LB(kz)), "b"), scaler_data=None)
                cd[pb] = b
            ch = Obj(RD)
            ch._f.update(channel_data=cd)
            return ch
        return SymSeq(K, item, "raw chunks")
    interp.contracts_at_calls["nptdms.reader:TdmsReader.read_raw_data"] = read_raw_data
    interp.contracts_at_calls["nptdms.tdms:_convert_data_chunk"] = \
        lambda i, f, a, k: sym.get_state().check("call/chunk-converted-with-the-file's-timestamp-mode",
                                                 a[1] is sym.get_state().ghost["raw_ts"], kind="call-pre") and None

    def inv(env, k, st):
        offs = env.vars["channel_offsets"]
        kz = sym.z3int(k)
        facts(st, k)
        return [("offset-of-a-is-the-values-of-a-delivered", offs.get(pa, 0) == _lift(CA(kz))),
                ("offset-of-b-is-the-values-of-b-delivered", offs.get(pb, 0) == _lift(CB(kz))),
                ("offsets-only-for-the-file's-channels", all(p in (pa, pb) for p in offs.keys()))]

    def havoc_offsets(st, env):
        d = defaultdict(int)
        d[pa] = st.fresh_int("offa")
        d[pb] = st.fresh_int("offb")
        return d
    interp.loop_specs[("nptdms.tdms:TdmsFile.data_chunks", 0)] = LoopSpec(
        inv, havoc={"channel_offsets": havoc_offsets, "__locals__": ("chunk", "path", "data")}, name="chunks")

    def on_yield(qual, value, env):
        if qual != "nptdms.tdms:TdmsFile.data_chunks":
            return
        st = sym.get_state()
        k = env.vars["__k__"]
        kz = sym.z3int(k)
        ca = value._groups["g"]._channels["a"]
        cb = value._groups["g"]._channels["b"]
        st.check("yield/a/offset-is-values-delivered-so-far", ca.offset == _lift(CA(kz)), kind="yield")
        st.check("yield/b/offset-is-values-delivered-so-far", cb.offset == _lift(CB(kz)), kind="yield")
        st.check("yield/a/length", interp.models[len](interp, ca) == _lift(LA(kz)), kind="yield")
        st.check("yield/b/length(0 when b is absent from the chunk)",
                 interp.models[len](interp, cb) == _lift(z3.If(PB(kz), LB(kz), 0)), kind="yield")
    interp.yield_hook = on_yield


@harness("file_data_chunks_all", ["tdms.TdmsFile.data_chunks", "tdms.DataChunk.__init__", "tdms.GroupDataChunk.__init__",
                                  "tdms.ChannelDataChunk.__init__", "base_segment.RawChannelDataChunk.__len__",
                                  "base_segment.RawChannelDataChunk.empty"],
         ["C03", "C05"], setup=_setup_stream_all,
         note="for ANY number of chunks (1 group / 2 channels, one of them absent from arbitrary chunks): every "
              "DataChunk carries, per channel, offset = values delivered before it (loop invariant on "
              "channel_offsets) and the raw chunk's length; obligations at the yield")
def _file_data_chunks_all(vc):
    st = vc.st
    OP = vc.interp.get("common.ObjectPath")
    raw_ts = vc.bool("raw_ts")
    st.ghost["raw_ts"] = raw_ts
    tf = vc.new("tdms.TdmsFile", _memmap_dir=None, _raw_timestamps=raw_ts, _groups=OrderedDict(),
                _properties=OrderedDict(), _channel_data={}, _tdms_version=0, data_read=False)
    chans = [vc.new("tdms.TdmsChannel", _path=vc.interp.instantiate(OP, ["g", c], {}), _length=0, data_type=None,
                    _raw_data=None) for c in ("a", "b")]
    tf._groups["g"] = vc.new("tdms.TdmsGroup", _path=vc.interp.instantiate(OP, ["g"], {}),
                             _channels={"a": chans[0], "b": chans[1]})
    tf._reader = vc.new("reader.TdmsReader", _file=SFile("d"))
    g = vc.call_method(tf, "data_chunks")
    out = vc.drain(g.value)
    vc.ensure("no-exception", out.kind == "ret")


# ---------------------------------------------------------------------------- eager data read, ANY number of chunks

class FillRecv(object):
    """receiver (contract of NumpyDataReceiver / DaqmxDataReceiver.append*, harnesses numpy_receiver_append,
    read_channel_data_all_chunks): holds values[0:filled] of its channel; an append must continue that prefix"""
    _absent = ()

    def __init__(self, path, capacity):
        self.path = path
        self.capacity = capacity
        self.filled = 0
        self.sfilled = {0: 0, 1: 0}

    def append_data(self, w):
        st = sym.get_state()
        st.check("receiver/append-continues-the-channel(%s)" % self.path,
                 isinstance(w, Window) and And(w.lo == self.filled, w.lo <= w.hi), kind="call-pre")
        self.filled = w.hi

    def append_scaler_data(self, sid, w):
        st = sym.get_state()
        st.check("receiver/scaler-append-continues-the-scaler's-data(%s)" % self.path,
                 isinstance(w, Window) and sid in self.sfilled and
                 And(w.lo == self.sfilled[sid], w.lo <= w.hi, w.tag == "scaler%d" % sid), kind="call-pre")
        self.sfilled[sid] = w.hi


def _setup_read_data_all(interp):
    CA = z3.Function("EAGER_CUTA", z3.IntSort(), z3.IntSort())
    CD = z3.Function("EAGER_CUTD", z3.IntSort(), z3.IntSort())
    PA = z3.Function("EAGER_HASA", z3.IntSort(), z3.BoolSort())
    pa, pd = path_of("g", "a"), path_of("h", "d")

    def facts(st, k):
        kz = sym.z3int(k)
        st.add_fact(z3.And(CA(kz) <= CA(kz + 1), CD(kz) <= CD(kz + 1), z3.Implies(z3.Not(PA(kz)), CA(kz + 1) == CA(kz))))

    def get_data_receiver(interp_, f, args, kwargs):
        st = sym.get_state()
        ch, n = args[0], args[1]
        st.check("read_data/receiver-capacity-is-len(channel)", n == ch._length, kind="call-pre")
        if ch.data_type is None:
            return None
        return FillRecv(ch._path._path, n)

    def read_raw_data(interp_, f, args, kwargs):
        """contract of TdmsReader.read_raw_data: K chunks; chunk k holds values [CUTA(k), CUTA(k+1)) of channel a
        if a is present in it and rows [CUTD(k), CUTD(k+1)) of both scalers of the DAQmx channel d; the totals are
        the channel lengths"""
        st = sym.get_state()
        K = st.fresh_int("K")
        st.assume(K >= 0)
        g = st.ghost["eager"]
        st.add_fact(z3.And(CA(0) == 0, CD(0) == 0, CA(sym.z3int(K)) == sym.z3int(g["na"]),
                           CD(sym.z3int(K)) == sym.z3int(g["nd"])))
        RD = interp_.get("base_segment.RawDataChunk")
        RC = interp_.get("base_segment.RawChannelDataChunk")

        def item(k):
            facts(st, k)
            kz = sym.z3int(k)
            cd = {}
            if interp_.truth(_lift(PA(kz))):
                a = Obj(RC)
                a._f.update(data=Window(_lift(CA(kz)), _lift(CA(kz + 1)), "a"), scaler_data=None)
                cd[pa] = a
            d = Obj(RC)
            d._f.update(data=None, scaler_data={0: Window(_lift(CD(kz)), _lift(CD(kz + 1)), "scaler0"),
                                                1: Window(_lift(CD(kz)), _lift(CD(kz + 1)), "scaler1")})
            cd[pd] = d
            ch = Obj(RD)
            ch._f.update(channel_data=cd)
            return ch
        return SymSeq(K, item, "raw chunks")
    interp.contracts_at_calls["nptdms.channel_data:get_data_receiver"] = get_data_receiver
    interp.contracts_at_calls["nptdms.reader:TdmsReader.read_raw_data"] = read_raw_data

    def inv(env, k, st):
        tf = env.vars["self"]
        kz = sym.z3int(k)
        facts(st, k)
        ra, rd_ = tf._channel_data[pa], tf._channel_data[pd]
        return [("receiver-of-a-holds-the-values-delivered-so-far", ra.filled == _lift(CA(kz))),
                ("receiver-of-d-holds-the-rows-delivered-so-far(both scalers)",
                 And(rd_.sfilled[0] == _lift(CD(kz)), rd_.sfilled[1] == _lift(CD(kz)))),
                ("typeless-channel-has-no-receiver", tf._channel_data[path_of("g", "typeless")] is None)]

    def havoc_recv(st, env):
        tf = env.vars["self"]
        ra, rd_ = tf._channel_data[pa], tf._channel_data[pd]
        ra.filled = st.fresh_int("fa")
        rd_.sfilled = {0: st.fresh_int("fd0"), 1: st.fresh_int("fd1")}
        return tf
    interp.loop_specs[("nptdms.tdms:TdmsFile._read_data", 2)] = LoopSpec(
        inv, havoc={"self": havoc_recv, "__locals__": ("chunk", "path", "data", "channel_data", "scaler_id",
                                                       "scaler_data")}, name="chunks")


@harness("read_data_eager_all_chunks", ["tdms.TdmsFile._read_data", "tdms.TdmsChannel._set_raw_data",
                                        "tdms.TdmsFile.groups", "tdms.TdmsGroup.channels", "tdms.TdmsChannel.path"],
         ["C01", "C03", "C11"], setup=_setup_read_data_all,
         note="the eager data read for ANY number of chunks (2 groups / 3 channels: typed, typeless, DAQmx with two "
              "scalers; the typed channel absent from arbitrary chunks): every receiver is allocated with "
              "len(channel), receives its channel's chunks in file order (loop invariant) and ends full")
def _read_data_eager_all(vc):
    st = vc.st
    T = Tok("type")
    OP = vc.interp.get("common.ObjectPath")
    tf = vc.new("tdms.TdmsFile", _memmap_dir=None, _raw_timestamps=False, _groups=OrderedDict(),
                _properties=OrderedDict(), _channel_data={}, _tdms_version=0, data_read=False, _reader=None)
    na, nd = vc.int("n_a", lo=0), vc.int("n_d", lo=0)
    st.ghost["eager"] = dict(na=na, nd=nd)
    chans = []
    for (g, c, typ, n) in [("g", "a", T, na), ("g", "typeless", None, 0), ("h", "d", T, nd)]:
        chans.append(vc.new("tdms.TdmsChannel", _path=vc.interp.instantiate(OP, [g, c], {}), _length=n,
                            data_type=typ, _raw_data=None))
    tf._groups["g"] = vc.new("tdms.TdmsGroup", _path=vc.interp.instantiate(OP, ["g"], {}),
                             _channels={"a": chans[0], "typeless": chans[1]})
    tf._groups["h"] = vc.new("tdms.TdmsGroup", _path=vc.interp.instantiate(OP, ["h"], {}),
                             _channels={"d": chans[2]})
    rd = vc.new("reader.TdmsReader", _file=SFile("d"))
    out = vc.call_method(tf, "_read_data", rd)
    vc.ensure("no-exception", out.kind == "ret")
    if out.kind != "ret":
        return
    ra = tf._channel_data[path_of("g", "a")]
    rdq = tf._channel_data[path_of("h", "d")]
    vc.ensure("channel-a-received-all-its-values-in-order", And(ra.filled == na, ra.capacity == na))
    vc.ensure("daqmx-channel-received-all-rows-of-both-scalers", And(rdq.sfilled[0] == nd, rdq.sfilled[1] == nd,
                                                                      rdq.capacity == nd))
    vc.ensure("raw-data-attached-to-each-typed-channel", chans[0]._raw_data is ra and chans[2]._raw_data is rdq)
    vc.ensure("typeless-channel-has-no-data", tf._channel_data[path_of("g", "typeless")] is None
              and chans[1]._raw_data is None)
    vc.ensure("data_read-flag", tf.data_read is True)
