"""tdms.py: declared dtype, scaling application points (C14, C13)."""
import numpy as np
from pyvc.harness import harness
from pyvc.absarr import Window, Empty
from pyvc.interp import Obj, ProgExc
from pyvc import sym
from spec import layout as L
from spec.base import And, Or, Not, Implies, Ite
from contracts.tdms_index import mk_channel, Tok


def tclass(vc, code):
    return vc.interp.get("types.tds_data_types")[code]


RDT_VARIANTS = [(L.TYPES[c][0], c) for c in L.READABLE] + [("typeless", None), ("timestamp,raw", "rawts"),
                                                            ("daqmx", 0xFFFFFFFF)]


@harness("raw_data_dtype", "tdms.TdmsChannel._raw_data_dtype", ["C14"], variants=RDT_VARIANTS,
         note="one variant per readable data type (+ typeless, DAQmx raw, raw timestamps)")
def _raw_dtype(vc):
    c = vc.variant
    raw_ts = c == "rawts"
    code = 0x44 if raw_ts else c
    ch = mk_channel(vc, vc.int("n", lo=0), data_type=(None if code is None else tclass(vc, code)),
                    _raw_timestamps=raw_ts)
    out = vc.call_method(ch, "_raw_data_dtype")
    vc.ensure("no-exception", out.kind == "ret")
    dt = out.value
    if code is None or code == 0xFFFFFFFF:
        vc.ensure("no-numpy-type: placeholder-dtype", isinstance(dt, np.dtype))
        return
    if code == 0x20:
        vc.ensure("strings-are-object-arrays", dt == np.dtype("O"))
    elif code == 0x44:
        if raw_ts:
            vc.ensure("raw-timestamps: dtype-of-the-TimestampArray-delivered",
                      dt == np.dtype([("second_fractions", "<u8"), ("seconds", "<i8")]),
                      known=[("KF-C14-raw-timestamp-dtype", True)])
        else:
            vc.ensure("timestamps-are-datetime64[us]", dt == np.dtype("<M8[us]"))
    else:
        vc.ensure("numpy-dtype-of-the-tdms-type", dt == np.dtype(L.TYPES[code][2]))


def _setup_dtype(interp):
    interp.contracts_at_calls["nptdms.tdms:TdmsChannel._raw_data_dtype"] = lambda i, f, a, k: "RAWDT"

    def get_scaling(interp_, f, args, kwargs):
        st = sym.get_state()
        st.ghost["get_scaling_args"] = args
        return st.ghost["scaling"]
    interp.contracts_at_calls["nptdms.scaling:get_scaling"] = get_scaling


class FakeScaling(object):
    def __init__(self):
        self.calls = []

    def get_dtype(self, data_type, scaler_data_types):
        self.calls.append(("get_dtype", data_type, scaler_data_types))
        return "SCALED-DT"

    def scale(self, raw):
        self.calls.append(("scale", raw))
        return ("scaled", raw)


@harness("channel_dtype_and_scale_data", ["tdms.TdmsChannel.dtype", "tdms.TdmsChannel._scale_data",
                                          "tdms.TdmsChannel._scaling", "tdms.ChannelDataChunk._data"],
         ["C14", "C13", "C03"], variants=[("scaled", True), ("unscaled", False)], setup=_setup_dtype)
def _dtype(vc):
    scaled = vc.variant
    st = vc.st
    sc = FakeScaling() if scaled else None
    st.ghost["scaling"] = sc
    T = Tok("type")
    props, gprops, fprops = {"p": 1}, {"g": 2}, {"f": 3}
    ch = mk_channel(vc, vc.int("n", lo=0), data_type=T, scaler_data_types="SDT", properties=props,
                    _group_properties=gprops, _file_properties=fprops)
    ch._f.pop("_cached_prop_dtype", None)
    d = vc.call(lambda: vc.interp.getattr_value(ch, "dtype"))
    vc.ensure("no-exception", d.kind == "ret")
    a = st.ghost["get_scaling_args"]
    vc.ensure("scaling-looked-up-with(channel, group, file)-properties-in-that-order",
              a[0] is props and a[1] is gprops and a[2] is fprops)
    if scaled:
        vc.ensure("scaled-channel: dtype-of-the-scaling-for-this-raw-type",
                  d.value == "SCALED-DT" and sc.calls[0] == ("get_dtype", T, "SDT"))
    else:
        vc.ensure("unscaled-channel: raw-dtype", d.value == "RAWDT")
    raw = vc.new("base_segment.RawChannelDataChunk", data=Window(0, 5, "values"), scaler_data=None)
    r = vc.call_method(ch, "_scale_data", raw)
    if scaled:
        vc.ensure("scale_data-applies-the-channel's-scaling", r.value == ("scaled", raw))
    else:
        vc.ensure("no-scaling: raw-data-returned-as-is", r.value is raw.data)
    dq = vc.new("base_segment.RawChannelDataChunk", data=None, scaler_data={0: Window(0, 5, "s0")})
    r2 = vc.call_method(ch, "_scale_data", dq)
    if not scaled:
        vc.ensure("daqmx-data-without-scaling-is-an-error", r2.raised(ValueError))
    # chunk objects apply the same scaling (lazy == eager)
    ch._f["_cached_prop_dtype"] = "DECLARED"
    chunk = vc.new("tdms.ChannelDataChunk", _path=None, _channel=ch, name="c", offset=0, _raw_data=raw)
    r3 = vc.call_method(chunk, "_data")
    vc.ensure("chunk-data: same-scaling-as-the-channel", (r3.value == ("scaled", raw)) if scaled else (r3.value is raw.data))
    empty = vc.new("tdms.ChannelDataChunk", _path=None, _channel=ch, name="c", offset=0,
                   _raw_data=vc.new("base_segment.RawChannelDataChunk", data=None, scaler_data=None))
    r4 = vc.call_method(empty, "_data")
    vc.ensure("empty-chunk-has-the-declared-dtype", isinstance(r4.value, Empty) and r4.value.dtype == "DECLARED")


GRAPH_DT = [("raw", "raw"), ("linear", "linear"), ("add(raw,linear)", "add"), ("noop", "noop"),
            ("noop-after-linear", "noop-after-linear"), ("daqmx", "daqmx")]


@harness("compute_scale_dtype", ["scaling.MultiScaling.get_dtype", "scaling.MultiScaling._compute_scale_dtype"],
         ["C14"], variants=GRAPH_DT,
         note="the declared dtype follows the same graph as the evaluation: raw type at the raw-data source, the "
              "scaler's type for DAQmx scalers, NumPy's result_type for Add/Subtract, double otherwise")
def _compute_dtype(vc):
    it = vc.interp
    k = vc.variant
    RAWSRC = 0xFFFFFFFF
    lin = lambda src: it.instantiate(it.get("scaling.LinearScaling"), [0.0, 1.0, src], {})
    f32 = it.get("types.SingleFloat")
    i16 = it.get("types.Int16")
    if k == "raw":
        g = []
        return
    graphs = {
        "linear": [lin(RAWSRC)],
        "add": [lin(RAWSRC), it.instantiate(it.get("scaling.AddScaling"), [RAWSRC, 0], {})],
        "noop": [it.instantiate(it.get("scaling.NoOpScaling"), [RAWSRC], {})],
        "noop-after-linear": [lin(RAWSRC), it.instantiate(it.get("scaling.NoOpScaling"), [0], {})],
        "daqmx": [it.instantiate(it.get("scaling.DaqMxScalerScaling"), [0], {}), lin(0)],
    }
    ms = it.instantiate(it.get("scaling.MultiScaling"), [graphs[k]], {})
    out = vc.call_method(ms, "get_dtype", f32, {0: i16})
    vc.ensure("no-exception", out.kind == "ret")
    exp = {"linear": np.dtype("float64"), "add": np.dtype("float64"), "noop": np.dtype("float32"),
           "noop-after-linear": np.dtype("float64"), "daqmx": np.dtype("float64")}[k]
    vc.ensure("declared-dtype", out.value == exp)
