"""Chunk readers of tdms_segment: contiguous / interleaved address maps, segment-level generators
(C01 O6/O7, C04, C05 re-seek, C06 (c), C15, C19 seek arithmetic)."""
import itertools
import numpy as np
import z3
from pyvc.harness import harness
from pyvc.models import SFile, SBytes
from pyvc.npmodel import FileArr, as_filearr
from pyvc.interp import LoopSpec, SymSeq, Obj
from pyvc import sym
from pyvc.sym import _lift
from spec import layout as L
from spec.base import And, Or, Not, Implies, Ite, Min, Max
from contracts.base_segment import fromfile_contract
from contracts.seg_objects import mk_file
from pyvc.npmodel import TsArr

PALETTE = {"i2": 2, "f8": 10, "ts": 0x44, "str": 0x20}


def tclass(vc, code):
    return vc.interp.get("types.tds_data_types")[code]


def mk_objects(vc, kinds, prefix="o"):
    objs = []
    for i, k in enumerate(kinds):
        code = PALETTE[k]
        cls = tclass(vc, code)
        nv = vc.int("%s%d_nv" % (prefix, i), lo=0)
        width = L.TYPES[code][1]
        ds = nv * width if width is not None else vc.int("%s%d_size" % (prefix, i), lo=0)
        o = vc.new("tdms_segment.TdmsSegmentObject", path="/'g'/'c%d'" % i, number_values=nv, data_size=ds,
                   has_data=True, data_type=cls)
        o._f["__width"] = width
        objs.append(o)
    return objs


class ValArr(object):
    """result of read_values: n values of one object starting at file offset base"""

    def __init__(self, base, count, kind, content):
        self.base = base
        self.count = count
        self.kind = kind
        self.content = content

    def sym_len(self):
        return self.count


def read_values_contract(interp, f, args, kwargs):
    """call-site contract of TdmsSegmentObject.read_values (harness read_values / string_read_values)"""
    st = sym.get_state()
    obj, file, n, order = args[0], args[1], args[2], args[3]
    width = obj._f["__width"]
    pos0 = file.pos
    st.check("call-pre/read_values/count>=0", n >= 0, kind="call-pre")
    if width is None:
        used = st.fresh_int("strbytes")
        st.assume(used >= 0)
        file.reads.append((pos0, used))
        file.pos = pos0 + used
        return ValArr(pos0, n, "str", file.content)
    avail = Max(file.size - pos0, 0)
    m = Min(n * width, avail)
    if interp.truth(n * width <= avail):
        cnt = n
    else:
        cnt = st.fresh_int("items")
        st.assume(And(cnt >= 0, cnt * width <= m, m < (cnt + 1) * width))
    file.reads.append((pos0, m))
    file.pos = pos0 + m
    a = ValArr(pos0, cnt, order, file.content)
    return a


def _setup_l1(interp):
    interp.contracts_at_calls["nptdms.tdms_segment:TdmsSegmentObject.read_values"] = read_values_contract


def shapes(maxlen=3):
    out = []
    for n in range(1, maxlen + 1):
        for kinds in itertools.product(sorted(PALETTE), repeat=n):
            out.append(kinds)
    return out


def expected_counts(vc, objs, override, k, NCs):
    """values of each object in chunk k"""
    last = And(override is not None, k == NCs - 1)
    return [Ite(last, override[o.path], o.number_values) if override is not None else o.number_values
            for o in objs]


def mk_override(vc, objs, present, strings_whole=False):
    if not present:
        return None
    d = {}
    for i, o in enumerate(objs):
        c = vc.int("ov%d" % i, lo=0)
        vc.assume(c <= o.number_values)
        if strings_whole and o._f["__width"] is None:
            # documented limitation (C06 statement): truncated chunks with string data are not skipped over
            vc.assume(c == o.number_values)
        d[o.path] = c
    return d


L1_VARIANTS = [("%s,t=%d,%s" % ("+".join(kinds), t, "override" if ov else "full"), (kinds, t, ov))
               for kinds in shapes(3) for t in range(len(kinds) + 1) for ov in (False, True)
               if not (t < len(kinds) and False)]


@harness("contiguous_read_channel_chunk", ["tdms_segment.ContiguousDataReader._read_channel_data_chunk",
                                           "tdms_segment.ContiguousDataReader._get_channel_number_values"],
         ["C01", "C04", "C06", "C19"], variants=L1_VARIANTS, setup=_setup_l1, level="shape-bounded",
         thorough_variants=[("%s,t=%d,%s" % ("+".join(kinds), t, "override" if ov else "full"), (kinds, t, ov))
                            for kinds in itertools.product(sorted(PALETTE), repeat=4) for t in range(5)
                            for ov in (False, True)],
         thorough_bound="4 data objects per segment over the same palette",
         bound="<= 3 data objects per segment over the type palette {Int16, DoubleFloat, TimeStamp, String}; "
               "target channel at every position or absent; value counts, sizes, chunk index, cursor symbolic")
def _contig_channel_chunk(vc):
    kinds, t, has_ov = vc.variant
    objs = mk_objects(vc, kinds)
    f, pos0 = mk_file(vc)
    NCs = vc.int("num_chunks", lo=1)
    k = vc.int("chunk_index", lo=0)
    vc.assume(k < NCs)
    ov = mk_override(vc, objs, has_ov)
    rd = vc.new("tdms_segment.ContiguousDataReader", num_chunks=NCs, final_chunk_lengths_override=ov,
                endianness="<")
    path = objs[t].path if t < len(objs) else "/'g'/'absent'"
    out = vc.call_method(rd, "_read_channel_data_chunk", f, objs, k, path)
    counts = expected_counts(vc, objs, ov, k, NCs)
    # a truncated string object before the target cannot be skipped (documented limitation, raises)
    blocked = Or(*[And(objs[i]._f["__width"] is None, counts[i] != objs[i].number_values)
                   for i in range(min(t, len(objs)))]) if t > 0 else False
    if out.kind == "exc":
        vc.ensure("raises-only-when-a-truncated-unsized-channel-precedes", blocked)
        return
    vc.ensure("truncated-unsized-predecessor-raises", Not(blocked))
    r = out.value
    if t >= len(objs):
        vc.ensure("absent-channel-gives-empty-chunk", And(r.data is None, r.scaler_data is None))
        vc.ensure("absent-channel-reads-nothing", len(f.reads) == 0, kind="read-set")
        return
    before = 0
    for i in range(t):
        w = objs[i]._f["__width"]
        full = counts[i] == objs[i].number_values
        before = before + (Ite(full, objs[i].data_size, w * counts[i]) if w is not None else objs[i].data_size)
    a = r.data
    vc.ensure("values-come-from-the-channel's-slot-in-the-chunk", a.base == pos0 + before)
    wt = objs[t]._f["__width"]
    if wt is not None:
        avail = Max(f.size - (pos0 + before), 0)
        vc.ensure("value-count", Implies(counts[t] * wt <= avail, a.count == counts[t]))
        vc.ensure("never-more-than-the-chunk-holds", a.count <= counts[t])
        for (p, n) in f.reads:
            vc.ensure("reads-only-the-channel's-bytes",
                      And(p >= pos0 + before, p + n <= pos0 + before + counts[t] * wt), kind="read-set")
    else:
        vc.ensure("value-count", a.count == counts[t])
    vc.ensure("one-read-per-chunk", len(f.reads) == 1, kind="read-set")


ALL_VARIANTS = [("%s,%s" % ("+".join(kinds), "override" if ov else "full"), (kinds, ov))
                for kinds in shapes(3) for ov in (False, True)]


@harness("contiguous_read_data_chunk", ["tdms_segment.ContiguousDataReader._read_data_chunk"],
         ["C01", "C06", "C15"], variants=ALL_VARIANTS, setup=_setup_l1, level="shape-bounded",
         thorough_variants=[("%s,%s" % ("+".join(kinds), "override" if ov else "full"), (kinds, ov))
                            for kinds in itertools.product(sorted(PALETTE), repeat=4) for ov in (False, True)],
         thorough_bound="4 data objects per segment over the same palette",
         bound="<= 3 data objects per segment over the type palette; counts, sizes, chunk index symbolic")
def _contig_data_chunk(vc):
    kinds, has_ov = vc.variant
    objs = mk_objects(vc, kinds)
    f, pos0 = mk_file(vc)
    NCs = vc.int("num_chunks", lo=1)
    k = vc.int("chunk_index", lo=0)
    vc.assume(k < NCs)
    ov = mk_override(vc, objs, has_ov)
    order = "<"
    rd = vc.new("tdms_segment.ContiguousDataReader", num_chunks=NCs, final_chunk_lengths_override=ov,
                endianness=order)
    # well-formed: the chunk's bytes are present (truncation is expressed through the override)
    out = vc.call_method(rd, "_read_data_chunk", f, objs, k)
    vc.ensure("no-exception", out.kind == "ret")
    if out.kind != "ret":
        return
    counts = expected_counts(vc, objs, ov, k, NCs)
    chunk = out.value
    vc.ensure("one-entry-per-data-object", len(chunk.channel_data) == len(objs))
    # objects are read in list order, each from where the previous one ended
    cur = pos0
    for i, o in enumerate(objs):
        a = chunk.channel_data[o.path].data
        vc.ensure("object[%d]-read-at-running-cursor" % i, a.base == f.reads[i][0])
        vc.ensure("object[%d]-asked-for-its-count" % i, Or(a.count == counts[i], a.count <= counts[i]))
        vc.ensure("object[%d]-byte-order" % i, a.kind in (order, "str"))
    vc.ensure("first-object-at-chunk-start", f.reads[0][0] == pos0)
    for i in range(1, len(objs)):
        vc.ensure("object[%d]-follows-object[%d]" % (i, i - 1),
                  f.reads[i][0] == f.reads[i - 1][0] + f.reads[i - 1][1])


# ---------------------------------------------------------------------------- interleaved

ISIZED = [c for c in L.READABLE if L.TYPES[c][1] is not None]


def ishapes():
    out = [(c,) for c in ISIZED]
    pal = [2, 10, 0x44, 0x21]
    for n in (2, 3):
        for cs in itertools.product(pal, repeat=n):
            out.append(cs)
    return out


def _setup_il(interp):
    interp.contracts_at_calls["nptdms.base_segment:fromfile"] = fromfile_contract


IL_VARIANTS = [("%s,%s" % ("+".join(L.TYPES[c][0] for c in cs), o), (cs, o)) for cs in ishapes() for o in "<>"]


@harness("interleaved_read_chunks", ["tdms_segment.InterleavedDataReader._read_interleaved_chunks",
                                     "tdms_segment.InterleavedDataReader.read_data_chunks",
                                     "base_segment.read_interleaved_segment_bytes",
                                     "types.StructType.from_bytes", "types.TimeStamp.from_bytes"],
         ["C01", "C06", "C15", "C11"], variants=IL_VARIANTS, setup=_setup_il, level="shape-bounded",
         bound="every sized data type alone, and all 2- and 3-channel combinations over {Int16, DoubleFloat, "
               "TimeStamp, Boolean}; value count, chunk count, cursor, file size symbolic")
def _interleaved(vc):
    codes, order = vc.variant
    f, pos0 = mk_file(vc)
    nv = vc.int("nv", lo=0)
    objs = []
    for i, c in enumerate(codes):
        objs.append(vc.new("tdms_segment.TdmsSegmentObject", path="/'g'/'c%d'" % i, number_values=nv,
                           data_size=nv * L.TYPES[c][1], has_data=True, data_type=tclass(vc, c)))
    nch = vc.int("num_chunks", lo=0)
    rd = vc.new("tdms_segment.InterleavedDataReader", num_chunks=nch, final_chunk_lengths_override=None,
                endianness=order)
    out = vc.call_method(rd, "read_data_chunks", f, objs, nch)
    vc.ensure("no-exception", out.kind == "ret")
    if out.kind != "ret":
        return
    chunks = list(out.value)
    vc.ensure("all-chunks-in-one", len(chunks) == 1)
    W = sum(L.TYPES[c][1] for c in codes)
    avail = Max(f.size - pos0, 0)
    want = nv * nch
    m = Min(want * W, avail)
    col = 0
    for i, c in enumerate(codes):
        d = chunks[0].channel_data[objs[i].path].data
        a = d.arr if isinstance(d, TsArr) else d
        w = L.TYPES[c][1]
        vc.ensure("channel[%d]/row-stride-is-total-width" % i, a.stride == W)
        vc.ensure("channel[%d]/column-offset-is-sum-of-preceding-widths" % i,
                  Or(a.count == 0, a.base == pos0 + col))
        vc.ensure("channel[%d]/item-width" % i, a.itemsize == w)
        vc.ensure("channel[%d]/whole-rows-only" % i, And(a.count * W <= m, m < (a.count + 1) * W))
        vc.ensure("channel[%d]/all-rows-when-complete" % i, Implies(want * W <= avail, a.count == want))
        if c == 0x44:
            exp_names = ("second_fractions", "seconds") if order == "<" else ("seconds", "second_fractions")
            vc.ensure("channel[%d]/timestamp-field-order" % i, d.names == exp_names)
        else:
            vc.ensure("channel[%d]/dtype-in-segment-byte-order" % i,
                      a.dtype_ == np.dtype(L.TYPES[c][2]).newbyteorder(order))
        col += w
    for (p, n) in f.reads:
        vc.ensure("reads-within-the-requested-rows", And(p >= pos0, p + n <= pos0 + want * W), kind="read-set")


# ---------------------------------------------------------------------------- segment-level channel stream

def l1_effect(interp, file, objs, t, ov, NCs, idx, order="<"):
    """effect of ContiguousDataReader._read_channel_data_chunk at the current cursor (its proved contract)"""
    st = sym.get_state()
    pos0 = file.pos
    last = And(ov is not None, idx == NCs - 1)
    counts = [Ite(last, ov[o.path], o.number_values) if ov is not None else o.number_values for o in objs]
    RC = interp.get("base_segment.RawChannelDataChunk")
    if t >= len(objs):
        o = Obj(RC)
        o._f.update(data=None, scaler_data=None)
        return o, None
    before = 0
    for i in range(t):
        w = objs[i]._f["__width"]
        full = counts[i] == objs[i].number_values
        if w is None:
            st.check("call-pre/_read_channel_data_chunk/no-truncated-unsized-predecessor", full, kind="call-pre")
            before = before + objs[i].data_size
        else:
            before = before + Ite(full, objs[i].data_size, w * counts[i])
    wt = objs[t]._f["__width"]
    base = pos0 + before
    nbytes = counts[t] * wt if wt is not None else objs[t].data_size
    file.reads.append((base, nbytes))
    file.pos = base + nbytes
    o = Obj(RC)
    o._f.update(data=ValArr(base, counts[t], order, file.content), scaler_data=None)
    return o, (before, counts[t], nbytes)


SEG_PALETTE_SHAPES = [k for k in shapes(2) if "ts" not in k]
SEG_VARIANTS = [("%s,t=%d,%s" % ("+".join(kinds), t, "override" if ov else "full"), (kinds, t, ov))
                for kinds in SEG_PALETTE_SHAPES for t in range(len(kinds) + 1) for ov in (False, True)]


def _setup_seg_stream(interp):
    def get_chunk_size(interp, f, args, kwargs):
        return args[0]._f["__chunk_bytes"]

    def get_data_objects(interp, f, args, kwargs):
        return args[0]._f["__objs"]

    def read_channel_data_chunks(interp, f, args, kwargs):
        rd, file, data_objects, channel_path, chunk_offset, stop_chunk = args
        st = sym.get_state()
        g = st.ghost["seg"]
        n = Max(stop_chunk - chunk_offset, 0)

        def item(k):
            idx = chunk_offset + k
            chunk, info = l1_effect(interp, file, g["objs"], g["t"], g["ov"], g["NCs"], idx)
            st.ghost["last_item"] = (idx, info, chunk)
            return chunk
        return SymSeq(n, item, "channel-chunks")

    interp.contracts_at_calls["nptdms.tdms_segment:TdmsSegment._get_chunk_size"] = get_chunk_size
    interp.contracts_at_calls["nptdms.tdms_segment:TdmsSegment._get_data_objects"] = get_data_objects
    interp.contracts_at_calls["nptdms.base_segment:BaseDataReader.read_channel_data_chunks"] = \
        read_channel_data_chunks

    def inv(env, i, st):
        v = env.vars
        file = v["file"]
        return [("cursor-at-start-of-chunk-i", file.pos == v["initial_position"] + i * v["chunk_size"])]

    interp.loop_specs[("nptdms.tdms_segment:TdmsSegment._read_channel_data_chunks", 0)] = LoopSpec(
        inv, havoc={"__locals__": ("i", "chunk"),
                    "__filepos": lambda st, env: setattr(env.vars["file"], "pos", st.fresh_int("pos")) or 0},
        name="channel-chunks")

    def on_yield(qual, value, env):
        st = sym.get_state()
        if qual == "nptdms.tdms_segment:TdmsSegment._read_channel_data_chunks":
            g = st.ghost["seg"]
            (idx, info, chunk) = st.ghost["last_item"]
            i = env.vars["i"]
            st.check("yield/chunk-index-follows-the-request", idx == g["chunk_offset"] + i, kind="yield")
            if info is not None:
                before, cnt, nbytes = info
                lo = g["data_position"] + idx * g["chunk_bytes"]
                st.check("yield/values-at-the-channel's-slot-of-chunk-idx", value.data.base == lo + before,
                         kind="yield")
                st.check("yield/value-count-of-chunk-idx", value.data.count == cnt, kind="yield")
                # C19: the bytes fetched lie inside this channel's slot of this chunk
                st.check("c19/read-inside-the-chunk", And(lo + before >= lo, lo + before + nbytes <= lo + g["chunk_bytes"]),
                         kind="read-set")
            # C05: any other operation may run while the generator is suspended
            env.vars["file"].pos = st.fresh_int("pos_after_yield")
    interp.yield_hook = on_yield


@harness("seg_read_for_channel", ["tdms_segment.TdmsSegment.read_raw_data_for_channel",
                                  "tdms_segment.TdmsSegment._read_channel_data_chunks",
                                  "tdms_segment.TdmsSegment._get_data_reader",
                                  "tdms_segment.TdmsSegment._have_daqmx_objects",
                                  "tdms_segment.TdmsSegment._have_interleaved_data"],
         ["C04", "C05", "C19", "C01"], variants=SEG_VARIANTS, setup=_setup_seg_stream, level="shape-bounded",
         thorough_variants=[("%s,t=%d,%s" % ("+".join(kinds), t, "override" if ov else "full"), (kinds, t, ov))
                            for kinds in itertools.product(("i2", "f8", "str"), repeat=3) for t in range(4)
                            for ov in (False, True)],
         thorough_bound="3 data objects per segment over {Int16, DoubleFloat, String}",
         bound="<= 2 data objects per segment over {Int16, DoubleFloat, String}, target at every position or "
               "absent; unbounded number of chunks (loop invariant), symbolic counts / offsets; the file "
               "cursor is havocked at every yield")
def _seg_read_for_channel(vc):
    kinds, t, has_ov = vc.variant
    st = vc.st
    objs = mk_objects(vc, kinds)
    f = SFile("f")
    f.pos = vc.int("pos0", lo=0)
    vc.assume(f.size >= 0)
    NCs = vc.int("num_chunks", lo=0)
    ov = mk_override(vc, objs, has_ov, strings_whole=True)
    if has_ov:
        vc.assume(NCs >= 1)
    chunk_bytes = 0
    for o in objs:
        chunk_bytes = chunk_bytes + o.data_size
    vc.assume(chunk_bytes > 0)
    data_position = vc.int("data_position", lo=28)
    seg = vc.new("tdms_segment.TdmsSegment", position=vc.int("position", lo=0), toc_mask=2 | 4 | 8,
                 next_segment_pos=vc.int("next", lo=0), data_position=data_position, num_chunks=NCs,
                 final_chunk_lengths_override=ov, ordered_objects=list(objs), object_index=None,
                 segment_incomplete=False, has_daqmx_objects_cached=None, chunk_size_cached=None,
                 data_objects_cached=None)
    seg._f["__chunk_bytes"] = chunk_bytes
    seg._f["__objs"] = objs
    chunk_offset = vc.int("chunk_offset", lo=0)
    num = vc.int("num", lo=0)
    vc.assume(chunk_offset + num <= NCs)            # precondition established by the caller (harness read_window)
    st.ghost["seg"] = dict(objs=objs, t=t, ov=ov, NCs=NCs, chunk_offset=chunk_offset, data_position=data_position,
                           chunk_bytes=chunk_bytes)
    path = objs[t].path if t < len(objs) else "/'g'/'absent'"
    g = vc.call_method(seg, "read_raw_data_for_channel", f, path, chunk_offset, num)
    out = vc.drain(g.value)
    vc.ensure("no-exception", out.kind == "ret")


# ---------------------------------------------------------------------------- segment-level full stream

def _setup_seg_all(interp):
    def get_chunk_size(interp, f, args, kwargs):
        return args[0]._f["__chunk_bytes"]

    def read_data_chunks(interp, f, args, kwargs):
        """contract of BaseDataReader.read_data_chunks over ContiguousDataReader._read_data_chunk
        (harnesses base_read_data_chunks, contiguous_read_data_chunk): item k reads chunk k at the cursor"""
        rd, file, data_objects, num_chunks = args
        st = sym.get_state()
        g = st.ghost["seg"]
        objs, ov, NCs = g["objs"], g["ov"], g["NCs"]
        RC = interp.get("base_segment.RawChannelDataChunk")
        RD = interp.get("base_segment.RawDataChunk")

        def item(k):
            last = And(ov is not None, k == NCs - 1)
            cd = {}
            start = file.pos
            for o in objs:
                cnt = Ite(last, ov[o.path], o.number_values) if ov is not None else o.number_values
                w = o._f["__width"]
                nbytes = cnt * w if w is not None else o.data_size
                c = Obj(RC)
                c._f.update(data=ValArr(file.pos, cnt, "<", file.content), scaler_data=None)
                cd[o.path] = c
                file.reads.append((file.pos, nbytes))
                file.pos = file.pos + nbytes
            r = Obj(RD)
            r._f.update(channel_data=cd)
            st.ghost["last_chunk"] = (k, start)
            return r
        return SymSeq(Max(num_chunks, 0), item, "chunks")

    interp.contracts_at_calls["nptdms.tdms_segment:TdmsSegment._get_chunk_size"] = get_chunk_size
    interp.contracts_at_calls["nptdms.base_segment:BaseDataReader.read_data_chunks"] = read_data_chunks

    def inv(env, i, st):
        v = env.vars
        return [("cursor-at-start-of-chunk-i", v["file"].pos == v["initial_position"] + i * v["chunk_size"])]

    interp.loop_specs[("nptdms.tdms_segment:TdmsSegment._read_data_chunks", 0)] = LoopSpec(
        inv, havoc={"__locals__": ("i", "chunk"),
                    "__filepos": lambda st, env: setattr(env.vars["file"], "pos", st.fresh_int("pos")) or 0},
        name="chunks")

    def on_yield(qual, value, env):
        st = sym.get_state()
        if qual != "nptdms.tdms_segment:TdmsSegment._read_data_chunks":
            return
        g = st.ghost["seg"]
        (k, start) = st.ghost["last_chunk"]
        st.check("yield/chunks-in-order", k == env.vars["i"], kind="yield")
        lo = g["data_position"] + k * g["chunk_bytes"]
        off = 0
        ov, NCs = g["ov"], g["NCs"]
        last = And(ov is not None, k == NCs - 1)
        for o in g["objs"]:
            a = value.channel_data[o.path].data
            st.check("yield/object-at-its-slot-of-chunk-k[%s]" % o.path, a.base == lo + off, kind="yield")
            w = o._f["__width"]
            cnt = Ite(last, ov[o.path], o.number_values) if ov is not None else o.number_values
            st.check("yield/object-value-count[%s]" % o.path, a.count == cnt, kind="yield")
            off = off + (cnt * w if w is not None else o.data_size)
        if g["interruptible"]:
            # C05: TdmsFile.data_chunks() may be suspended here while other reads use the same file
            env.vars["file"].pos = st.fresh_int("pos_after_yield")
    interp.yield_hook = on_yield


ALL_SEG_VARIANTS = [("%s,%s,%s" % ("+".join(kinds), "override" if ov else "full", mode), (kinds, ov, mode))
                    for kinds in SEG_PALETTE_SHAPES for ov in (False, True)
                    for mode in ("uninterrupted", "interruptible")]


@harness("seg_read_raw_data", ["tdms_segment.TdmsSegment.read_raw_data", "tdms_segment.TdmsSegment._read_data_chunks"],
         ["C01", "C05", "C03"], variants=ALL_SEG_VARIANTS, setup=_setup_seg_all, level="shape-bounded",
         thorough_variants=[("%s,%s,%s" % ("+".join(kinds), "override" if ov else "full", mode), (kinds, ov, mode))
                            for kinds in itertools.product(("i2", "f8", "str"), repeat=3) for ov in (False, True)
                            for mode in ("uninterrupted", "interruptible")],
         thorough_bound="3 data objects per segment over {Int16, DoubleFloat, String}",
         bound="<= 2 data objects per segment over {Int16, DoubleFloat, String}; unbounded number of chunks "
               "(loop invariant); in mode `interruptible` the file cursor is havocked at every yield")
def _seg_read_raw_data(vc):
    kinds, has_ov, mode = vc.variant
    st = vc.st
    objs = mk_objects(vc, kinds)
    f = SFile("f")
    f.pos = vc.int("pos0", lo=0)
    vc.assume(f.size >= 0)
    NCs = vc.int("num_chunks", lo=0)
    ov = mk_override(vc, objs, has_ov, strings_whole=True)
    if has_ov:
        vc.assume(NCs >= 1)
    chunk_bytes = 0
    for o in objs:
        chunk_bytes = chunk_bytes + o.data_size
    data_position = vc.int("data_position", lo=28)
    seg = vc.new("tdms_segment.TdmsSegment", position=vc.int("position", lo=0), toc_mask=2 | 4 | 8,
                 next_segment_pos=vc.int("next", lo=0), data_position=data_position, num_chunks=NCs,
                 final_chunk_lengths_override=ov, ordered_objects=list(objs), object_index=None,
                 segment_incomplete=False, has_daqmx_objects_cached=None, chunk_size_cached=None,
                 data_objects_cached=None)
    seg._f["__chunk_bytes"] = chunk_bytes
    st.ghost["seg"] = dict(objs=objs, ov=ov, NCs=NCs, data_position=data_position, chunk_bytes=chunk_bytes,
                           interruptible=(mode == "interruptible"))
    g = vc.call_method(seg, "read_raw_data", f)
    out = vc.drain(g.value)
    vc.ensure("no-exception", out.kind == "ret")


# =====================================================================================================================
# ContiguousDataReader._read_channel_data_chunk for ANY number of data objects in the segment
# =====================================================================================================================

from pyvc.sym import SymBool

I_ = z3.IntSort()
NVo = z3.Function("OBJ_NV", I_, I_)          # number_values of data object j
DSo = z3.Function("OBJ_DS", I_, I_)          # data_size of data object j (bytes per full chunk)
Wo = z3.Function("OBJ_W", I_, I_)            # value width of a sized type
UNS = z3.Function("OBJ_UNSIZED", I_, z3.BoolSort())
CNTO = z3.Function("OBJ_OVCNT", I_, I_)      # final_chunk_lengths_override entry (0 if absent)
PRE = z3.Function("OBJ_PRE", I_, I_)         # bytes of objects 0..j-1 in the chunk being read


def zi_(v):
    return sym.z3int(v)


class PathTok(object):
    """path of data object j; equal to the requested path iff j is the target index"""
    _absent = ()

    def __init__(self, j, T):
        self.j, self.T = j, T

    def __eq__(self, o):
        if isinstance(o, PathTok):
            return _lift(zi_(self.j) == zi_(o.j))
        if o == "<requested path>":
            return _lift(zi_(self.j) == zi_(self.T))
        return False

    def __hash__(self):
        return id(self)


class TypeOf(object):
    """obj.data_type of data object j: `size` is None for an unsized (string) type"""
    _absent = ()

    def __init__(self, j):
        self.j = j

    @property
    def size(self):
        st = sym.get_state()
        if st.decide(UNS(zi_(self.j))):
            return None
        return _lift(Wo(zi_(self.j)))


class OvMap(object):
    """final_chunk_lengths_override: path -> values in the final chunk (absent paths count 0)"""
    _absent = ()

    def get(self, path, default=None):
        if isinstance(path, PathTok):
            return _lift(CNTO(zi_(path.j)))
        raise sym.Unsupported("override lookup of a foreign path")


def obj_facts(st, j, lastov):
    """Segment.wf() for data object j and the defining equation of the skip prefix"""
    j = zi_(j)
    cnt = z3.If(lastov, CNTO(j), NVo(j))
    by = z3.If(cnt == NVo(j), DSo(j), Wo(j) * cnt)
    st.add_fact(z3.And(NVo(j) >= 0, DSo(j) >= 0, Wo(j) > 0, CNTO(j) >= 0, CNTO(j) <= NVo(j),
                       z3.Implies(z3.Not(UNS(j)), DSo(j) == NVo(j) * Wo(j)),
                       PRE(j + 1) == PRE(j) + by))


def _setup_l1_all(interp):
    interp.contracts_at_calls["nptdms.tdms_segment:TdmsSegmentObject.read_values"] = read_values_contract

    def inv(env, k, st):
        g = st.ghost["l1"]
        obj_facts(st, k, g["lastov"])
        j = z3.Int(sym.fresh_name("j"))
        cntj = z3.If(g["lastov"], CNTO(j), NVo(j))
        f = g["file"]
        ch = env.vars["channel_data"]
        return [("target-not-passed", k <= g["T"]),
                ("position-skips-exactly-the-preceding-objects' bytes",
                 env.vars["current_position"] == g["pos0"] + _lift(PRE(zi_(k)))),
                ("nothing-read-and-cursor-untouched-before-the-target", len(f.reads) == 0 and
                 _lift(zi_(f.pos) == zi_(g["pos0"]))),
                ("result-still-the-empty-chunk", ch.data is None and ch.scaler_data is None),
                ("no-truncated-unsized-object-was-skipped",
                 SymBool(z3.ForAll([j], z3.Implies(z3.And(0 <= j, j < zi_(k)),
                                                  z3.Not(z3.And(UNS(j), cntj != NVo(j))))))),
                ]
    def empty_chunk(st, env):
        # the invariant pins channel_data to the empty chunk at every loop head (it is assigned only right
        # before `break`), so the havocked value is an arbitrary chunk object satisfying that clause
        o = Obj(interp.get("base_segment.RawChannelDataChunk"))
        o._f.update(data=None, scaler_data=None)
        return o
    interp.loop_specs[("nptdms.tdms_segment:ContiguousDataReader._read_channel_data_chunk", 0)] = LoopSpec(
        inv, havoc={"current_position": "int", "channel_data": empty_chunk,
                    "__locals__": ("obj", "number_values")}, name="objects")


L1ALL_VARIANTS = [("target=%s,%s" % (k, "override" if ov else "full"), (k, ov))
                  for k in ("i2", "f8", "ts", "str", "absent") for ov in (False, True)]


@harness("contiguous_read_channel_chunk_all_objects",
         ["tdms_segment.ContiguousDataReader._read_channel_data_chunk",
          "tdms_segment.ContiguousDataReader._get_channel_number_values"],
         ["C01", "C04", "C06", "C19"], variants=L1ALL_VARIANTS, setup=_setup_l1_all, timeout_ms=60000,
         note="ANY number of data objects in the segment (loop invariant: the position skipped so far is the sum of "
              "the preceding objects' bytes in this chunk): the requested channel is read from its slot, once, "
              "and nothing else is read; a truncated unsized object before it raises")
def _contig_channel_chunk_all(vc):
    kind, has_ov = vc.variant
    st = vc.st
    it = vc.interp
    f, pos0 = mk_file(vc)
    NOBJ = vc.int("nobj", lo=0)
    T = vc.int("target", lo=0)
    vc.assume(T <= NOBJ)
    if kind == "absent":
        vc.assume(T == NOBJ)
    else:
        vc.assume(T < NOBJ)
    NCs = vc.int("num_chunks", lo=1)
    k = vc.int("chunk_index", lo=0)
    vc.assume(k < NCs)
    lastov = z3.And(z3.BoolVal(bool(has_ov)), zi_(k) == zi_(NCs) - 1)
    st.add_fact(PRE(0) == 0)
    st.ghost["l1"] = dict(T=T, pos0=pos0, file=f, lastov=lastov)
    width = None if kind in ("str", "absent") else L.TYPES[PALETTE[kind]][1]
    if kind not in ("absent",):
        Tz = zi_(T)
        st.add_fact(UNS(Tz) == z3.BoolVal(kind == "str"))
        if width is not None:
            st.add_fact(Wo(Tz) == width)

    def item(j):
        obj_facts(st, j, lastov)
        is_t = kind != "absent" and it.truth(_lift(zi_(j) == zi_(T)))
        o = Obj(it.get("tdms_segment.TdmsSegmentObject"))
        jz = zi_(j)
        o._f.update(path=PathTok(j, T), number_values=_lift(NVo(jz)), data_size=_lift(DSo(jz)), has_data=True,
                    data_type=(tclass(vc, PALETTE[kind]) if is_t else TypeOf(j)))
        o._f["__width"] = width if is_t else "symbolic"
        object.__setattr__(o, "_partial", True)
        return o
    objs = SymSeq(NOBJ, item, "data objects")
    rd = vc.new("tdms_segment.ContiguousDataReader", num_chunks=NCs,
                final_chunk_lengths_override=(OvMap() if has_ov else None), endianness="<")
    out = vc.call_method(rd, "_read_channel_data_chunk", f, objs, k, "<requested path>")
    j = vc.int("j")
    jz = zi_(j)
    cntj = z3.If(lastov, CNTO(jz), NVo(jz))
    blocked_j = z3.And(UNS(jz), cntj != NVo(jz))
    if out.kind == "exc":
        # some object before the target is unsized and truncated (the code cannot skip it): witnessed by the
        # iteration that raised (__k__ of the loop)
        vc.ensure("raises-only-when-a-truncated-unsized-channel-precedes", out.exc is Exception)
        return
    vc.ensure("no-truncated-unsized-object-before-the-target",
              Implies(And(0 <= j, j < T), SymBool(z3.Not(blocked_j))))
    r = out.value
    if kind == "absent":
        vc.ensure("absent-channel-gives-empty-chunk", And(r.data is None, r.scaler_data is None))
        vc.ensure("absent-channel-reads-nothing", len(f.reads) == 0, kind="read-set")
        return
    Tz = zi_(T)
    before = _lift(PRE(Tz))
    cntT = _lift(z3.If(lastov, CNTO(Tz), NVo(Tz)))
    a = r.data
    vc.ensure("channel-found", a is not None)
    if a is None:
        return
    vc.ensure("values-come-from-the-channel's-slot-in-the-chunk", a.base == pos0 + before)
    if width is not None:
        avail = Max(f.size - (pos0 + before), 0)
        vc.ensure("value-count", Implies(cntT * width <= avail, a.count == cntT))
        vc.ensure("never-more-than-the-chunk-holds", a.count <= cntT)
        for (p, n) in f.reads:
            vc.ensure("reads-only-the-channel's-bytes",
                      And(p >= pos0 + before, p + n <= pos0 + before + cntT * width), kind="read-set")
    else:
        vc.ensure("value-count", a.count == cntT)
    vc.ensure("one-read-per-chunk", len(f.reads) == 1, kind="read-set")
