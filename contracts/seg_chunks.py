"""Chunk readers of tdms_segment: contiguous / interleaved address maps, segment-level generators
(C01 O6/O7, C04, C05 re-seek, C06 (c), C15, C19 seek arithmetic)."""
import itertools
import numpy as np
import z3
from pyvc.harness import harness
from pyvc.models import SFile, SBytes
from pyvc.npmodel import FileArr, as_filearr
from pyvc.interp import LoopSpec, SymSeq, Obj
from pyvc import sym
from pyvc.sym import _lift
from spec import layout as L
from spec.base import And, Or, Not, Implies, Ite, Min, Max
from contracts.base_segment import fromfile_contract
from contracts.seg_objects import mk_file
from contracts.seg_decode import _instantiate_ndarray_subclass, TsArr

PALETTE = {"i2": 2, "f8": 10, "ts": 0x44, "str": 0x20}


def tclass(vc, code):
    return vc.interp.get("types.tds_data_types")[code]


def mk_objects(vc, kinds, prefix="o"):
    objs = []
    for i, k in enumerate(kinds):
        code = PALETTE[k]
        cls = tclass(vc, code)
        nv = vc.int("%s%d_nv" % (prefix, i), lo=0)
        width = L.TYPES[code][1]
        ds = nv * width if width is not None else vc.int("%s%d_size" % (prefix, i), lo=0)
        o = vc.new("tdms_segment.TdmsSegmentObject", path="/'g'/'c%d'" % i, number_values=nv, data_size=ds,
                   has_data=True, data_type=cls)
        o._f["__width"] = width
        objs.append(o)
    return objs


class ValArr(object):
    """result of read_values: n values of one object starting at file offset base"""

    def __init__(self, base, count, kind, content):
        self.base = base
        self.count = count
        self.kind = kind
        self.content = content

    def sym_len(self):
        return self.count


def read_values_contract(interp, f, args, kwargs):
    """call-site contract of TdmsSegmentObject.read_values (harness read_values / string_read_values)"""
    st = sym.get_state()
    obj, file, n, order = args[0], args[1], args[2], args[3]
    width = obj._f["__width"]
    pos0 = file.pos
    st.check("call-pre/read_values/count>=0", n >= 0, kind="call-pre")
    if width is None:
        used = st.fresh_int("strbytes")
        st.assume(used >= 0)
        file.reads.append((pos0, used))
        file.pos = pos0 + used
        return ValArr(pos0, n, "str", file.content)
    avail = Max(file.size - pos0, 0)
    m = Min(n * width, avail)
    if interp.truth(n * width <= avail):
        cnt = n
    else:
        cnt = st.fresh_int("items")
        st.assume(And(cnt >= 0, cnt * width <= m, m < (cnt + 1) * width))
    file.reads.append((pos0, m))
    file.pos = pos0 + m
    a = ValArr(pos0, cnt, order, file.content)
    return a


def _setup_l1(interp):
    interp.contracts_at_calls["nptdms.tdms_segment:TdmsSegmentObject.read_values"] = read_values_contract


def shapes(maxlen=3):
    out = []
    for n in range(1, maxlen + 1):
        for kinds in itertools.product(sorted(PALETTE), repeat=n):
            out.append(kinds)
    return out


def expected_counts(vc, objs, override, k, NCs):
    """values of each object in chunk k"""
    last = And(override is not None, k == NCs - 1)
    return [Ite(last, override[o.path], o.number_values) if override is not None else o.number_values
            for o in objs]


def mk_override(vc, objs, present):
    if not present:
        return None
    d = {}
    for i, o in enumerate(objs):
        c = vc.int("ov%d" % i, lo=0)
        vc.assume(c <= o.number_values)
        d[o.path] = c
    return d


L1_VARIANTS = [("%s,t=%d,%s" % ("+".join(kinds), t, "override" if ov else "full"), (kinds, t, ov))
               for kinds in shapes(3) for t in range(len(kinds) + 1) for ov in (False, True)
               if not (t < len(kinds) and False)]


@harness("contiguous_read_channel_chunk", ["tdms_segment.ContiguousDataReader._read_channel_data_chunk",
                                           "tdms_segment.ContiguousDataReader._get_channel_number_values"],
         ["C01", "C04", "C06", "C19"], variants=L1_VARIANTS, setup=_setup_l1, level="shape-bounded",
         bound="<= 3 data objects per segment over the type palette {Int16, DoubleFloat, TimeStamp, String}; "
               "target channel at every position or absent; value counts, sizes, chunk index, cursor symbolic")
def _contig_channel_chunk(vc):
    kinds, t, has_ov = vc.variant
    objs = mk_objects(vc, kinds)
    f, pos0 = mk_file(vc)
    NCs = vc.int("num_chunks", lo=1)
    k = vc.int("chunk_index", lo=0)
    vc.assume(k < NCs)
    ov = mk_override(vc, objs, has_ov)
    rd = vc.new("tdms_segment.ContiguousDataReader", num_chunks=NCs, final_chunk_lengths_override=ov,
                endianness="<")
    path = objs[t].path if t < len(objs) else "/'g'/'absent'"
    out = vc.call_method(rd, "_read_channel_data_chunk", f, objs, k, path)
    counts = expected_counts(vc, objs, ov, k, NCs)
    # a truncated string object before the target cannot be skipped (documented limitation, raises)
    blocked = Or(*[And(objs[i]._f["__width"] is None, counts[i] != objs[i].number_values)
                   for i in range(min(t, len(objs)))]) if t > 0 else False
    if out.kind == "exc":
        vc.ensure("raises-only-when-a-truncated-unsized-channel-precedes", blocked)
        return
    vc.ensure("truncated-unsized-predecessor-raises", Not(blocked))
    r = out.value
    if t >= len(objs):
        vc.ensure("absent-channel-gives-empty-chunk", And(r.data is None, r.scaler_data is None))
        vc.ensure("absent-channel-reads-nothing", len(f.reads) == 0, kind="read-set")
        return
    before = 0
    for i in range(t):
        w = objs[i]._f["__width"]
        full = counts[i] == objs[i].number_values
        before = before + (Ite(full, objs[i].data_size, w * counts[i]) if w is not None else objs[i].data_size)
    a = r.data
    vc.ensure("values-come-from-the-channel's-slot-in-the-chunk", a.base == pos0 + before)
    wt = objs[t]._f["__width"]
    if wt is not None:
        avail = Max(f.size - (pos0 + before), 0)
        vc.ensure("value-count", Implies(counts[t] * wt <= avail, a.count == counts[t]))
        vc.ensure("never-more-than-the-chunk-holds", a.count <= counts[t])
        for (p, n) in f.reads:
            vc.ensure("reads-only-the-channel's-bytes",
                      And(p >= pos0 + before, p + n <= pos0 + before + counts[t] * wt), kind="read-set")
    else:
        vc.ensure("value-count", a.count == counts[t])
    vc.ensure("one-read-per-chunk", len(f.reads) == 1, kind="read-set")


ALL_VARIANTS = [("%s,%s" % ("+".join(kinds), "override" if ov else "full"), (kinds, ov))
                for kinds in shapes(3) for ov in (False, True)]


@harness("contiguous_read_data_chunk", ["tdms_segment.ContiguousDataReader._read_data_chunk"],
         ["C01", "C06", "C15"], variants=ALL_VARIANTS, setup=_setup_l1, level="shape-bounded",
         bound="<= 3 data objects per segment over the type palette; counts, sizes, chunk index symbolic")
def _contig_data_chunk(vc):
    kinds, has_ov = vc.variant
    objs = mk_objects(vc, kinds)
    f, pos0 = mk_file(vc)
    NCs = vc.int("num_chunks", lo=1)
    k = vc.int("chunk_index", lo=0)
    vc.assume(k < NCs)
    ov = mk_override(vc, objs, has_ov)
    order = "<"
    rd = vc.new("tdms_segment.ContiguousDataReader", num_chunks=NCs, final_chunk_lengths_override=ov,
                endianness=order)
    # well-formed: the chunk's bytes are present (truncation is expressed through the override)
    out = vc.call_method(rd, "_read_data_chunk", f, objs, k)
    vc.ensure("no-exception", out.kind == "ret")
    if out.kind != "ret":
        return
    counts = expected_counts(vc, objs, ov, k, NCs)
    chunk = out.value
    vc.ensure("one-entry-per-data-object", len(chunk.channel_data) == len(objs))
    # objects are read in list order, each from where the previous one ended
    cur = pos0
    for i, o in enumerate(objs):
        a = chunk.channel_data[o.path].data
        vc.ensure("object[%d]-read-at-running-cursor" % i, a.base == f.reads[i][0])
        vc.ensure("object[%d]-asked-for-its-count" % i, Or(a.count == counts[i], a.count <= counts[i]))
        vc.ensure("object[%d]-byte-order" % i, a.kind in (order, "str"))
    vc.ensure("first-object-at-chunk-start", f.reads[0][0] == pos0)
    for i in range(1, len(objs)):
        vc.ensure("object[%d]-follows-object[%d]" % (i, i - 1),
                  f.reads[i][0] == f.reads[i - 1][0] + f.reads[i - 1][1])


# ---------------------------------------------------------------------------- interleaved

ISIZED = [c for c in L.READABLE if L.TYPES[c][1] is not None]


def ishapes():
    out = [(c,) for c in ISIZED]
    pal = [2, 10, 0x44, 0x21]
    for n in (2, 3):
        for cs in itertools.product(pal, repeat=n):
            out.append(cs)
    return out


def _setup_il(interp):
    interp.contracts_at_calls["nptdms.base_segment:fromfile"] = fromfile_contract
    interp.models[("instantiate", np.ndarray)] = _instantiate_ndarray_subclass


IL_VARIANTS = [("%s,%s" % ("+".join(L.TYPES[c][0] for c in cs), o), (cs, o)) for cs in ishapes() for o in "<>"]


@harness("interleaved_read_chunks", ["tdms_segment.InterleavedDataReader._read_interleaved_chunks",
                                     "tdms_segment.InterleavedDataReader.read_data_chunks",
                                     "base_segment.read_interleaved_segment_bytes",
                                     "types.StructType.from_bytes", "types.TimeStamp.from_bytes"],
         ["C01", "C06", "C15", "C11"], variants=IL_VARIANTS, setup=_setup_il, level="shape-bounded",
         bound="every sized data type alone, and all 2- and 3-channel combinations over {Int16, DoubleFloat, "
               "TimeStamp, Boolean}; value count, chunk count, cursor, file size symbolic")
def _interleaved(vc):
    codes, order = vc.variant
    f, pos0 = mk_file(vc)
    nv = vc.int("nv", lo=0)
    objs = []
    for i, c in enumerate(codes):
        objs.append(vc.new("tdms_segment.TdmsSegmentObject", path="/'g'/'c%d'" % i, number_values=nv,
                           data_size=nv * L.TYPES[c][1], has_data=True, data_type=tclass(vc, c)))
    nch = vc.int("num_chunks", lo=0)
    rd = vc.new("tdms_segment.InterleavedDataReader", num_chunks=nch, final_chunk_lengths_override=None,
                endianness=order)
    out = vc.call_method(rd, "read_data_chunks", f, objs, nch)
    vc.ensure("no-exception", out.kind == "ret",
              known=[("KF-C01-interleaved-complex", any(c in (0x08000C, 0x10000D) for c in codes))])
    if out.kind != "ret":
        return
    chunks = list(out.value)
    vc.ensure("all-chunks-in-one", len(chunks) == 1)
    W = sum(L.TYPES[c][1] for c in codes)
    avail = Max(f.size - pos0, 0)
    want = nv * nch
    m = Min(want * W, avail)
    col = 0
    for i, c in enumerate(codes):
        d = chunks[0].channel_data[objs[i].path].data
        a = d.arr if isinstance(d, TsArr) else d
        w = L.TYPES[c][1]
        vc.ensure("channel[%d]/row-stride-is-total-width" % i, a.stride == W)
        vc.ensure("channel[%d]/column-offset-is-sum-of-preceding-widths" % i,
                  Or(a.count == 0, a.base == pos0 + col))
        vc.ensure("channel[%d]/item-width" % i, a.itemsize == w)
        vc.ensure("channel[%d]/whole-rows-only" % i, And(a.count * W <= m, m < (a.count + 1) * W))
        vc.ensure("channel[%d]/all-rows-when-complete" % i, Implies(want * W <= avail, a.count == want))
        if c == 0x44:
            exp_names = ("second_fractions", "seconds") if order == "<" else ("seconds", "second_fractions")
            vc.ensure("channel[%d]/timestamp-field-order" % i, d.names == exp_names)
        else:
            vc.ensure("channel[%d]/dtype-in-segment-byte-order" % i,
                      a.dtype_ == np.dtype(L.TYPES[c][2]).newbyteorder(order))
        col += w
    for (p, n) in f.reads:
        vc.ensure("reads-within-the-requested-rows", And(p >= pos0, p + n <= pos0 + want * W), kind="read-set")
