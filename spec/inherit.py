"""spec.inherit.denote: the explicit active-object list a segment's metadata means (property C02).

Written from the TDMS layout description: without kTocNewObjList the previous segment's list carries
over; a listed object replaces its entry in place (or is appended); index header 0xFFFFFFFF = no data in
this segment, 0x00000000 = same index as the most recent one for that path, anything else = a new index.
Works on concrete values and on pyvc symbolic strings (equality is decided by `bool(a == b)`).
"""
NO_DATA = 0xFFFFFFFF
SAME = 0x00000000


class Invalid(Exception):
    """encoding the format forbids"""


def denote(prev_list, last_by_path, new_obj_list, entries):
    """prev_list: [(path, has_data, idx)] of the previous segment or None (first segment);
    last_by_path: [(path, idx)] most recent index per path over all earlier segments;
    entries: [(path, header, idx_if_full)] in file order.
    Returns [(path, has_data, idx)]; idx None = never defined (object without data index)."""
    acc = [] if (new_obj_list or prev_list is None) else list(prev_list)
    carried = 0 if (new_obj_list or prev_list is None) else len(acc)
    for (path, header, idx_full) in entries:
        pos = None
        for i, (p, h, ix) in enumerate(acc[:carried]):
            if bool(p == path):
                pos = i
                break
        known = None
        if pos is not None:
            known = ("yes", acc[pos][2])
        else:
            for (p, ix) in last_by_path:
                if bool(p == path):
                    known = ("yes", ix)
                    break
        if bool(header == NO_DATA):
            new = (path, False, known[1] if known else None)
        elif bool(header == SAME):
            if known is None:
                raise Invalid("reuse of an index that was never defined")
            new = (path, True, known[1])
        else:
            new = (path, True, idx_full)
        if pos is not None:
            acc[pos] = new
        else:
            acc.append(new)
    return acc
