"""Helpers usable on both concrete Python values and pyvc symbolic values (dual use)."""
try:
    from pyvc import sym as _S
    from pyvc import models as _M
    HAVE_SYM = True
except Exception:           # replay / bounded layer under /venv/bin/python: no z3
    _S = None
    _M = None
    HAVE_SYM = False


def _is_sym(*vs):
    return HAVE_SYM and any(_S.is_sym(v) for v in vs)


def And(*vs):
    if HAVE_SYM:
        return _S.sym_and(*vs)
    return all(vs)


def Or(*vs):
    if HAVE_SYM:
        return _S.sym_or(*vs)
    return any(vs)


def Not(v):
    if HAVE_SYM:
        return _S.sym_not(v)
    return not v


def Implies(a, b):
    return Or(Not(a), b)


def Iff(a, b):
    return And(Implies(a, b), Implies(b, a))


def Ite(c, a, b):
    if HAVE_SYM:
        return _S.sym_ite(c, a, b)
    return a if c else b


def Min(a, b):
    return Ite(a <= b, a, b)


def Max(a, b):
    return Ite(a >= b, a, b)


def uint(b, off, n, big=False):
    """unsigned integer of n bytes at offset off of a bytes-like (bytes or pyvc SBytes)"""
    if HAVE_SYM and isinstance(b, _M.SBytes):
        return _S._lift(_M.uint_at(b.content, b.off + off, n, big))
    return int.from_bytes(bytes(b[off:off + n]), "big" if big else "little", signed=False)


def sint(b, off, n, big=False):
    if HAVE_SYM and isinstance(b, _M.SBytes):
        return _S._lift(_M.int_at(b.content, b.off + off, n, big))
    return int.from_bytes(bytes(b[off:off + n]), "big" if big else "little", signed=True)
