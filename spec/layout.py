"""TDMS on-disk layout, written from NI's published format description and the property statements
(not from the code).  All functions work on concrete and symbolic values."""
from .base import And, Or, Not, Ite, Min, uint, sint

LEAD_IN_SIZE = 28
TOC_META = 1 << 1
TOC_NEW_OBJ_LIST = 1 << 2
TOC_RAW = 1 << 3
TOC_INTERLEAVED = 1 << 5
TOC_BIG_ENDIAN = 1 << 6
TOC_DAQMX = 1 << 7
UNKNOWN_LENGTH = 0xFFFFFFFFFFFFFFFF
NO_DATA = 0xFFFFFFFF
SAME_AS_BEFORE = 0x00000000

# type code -> (name, width or None, numpy dtype string or None)
TYPES = {
    0: ("Void", None, None),
    1: ("Int8", 1, "int8"), 2: ("Int16", 2, "int16"), 3: ("Int32", 4, "int32"), 4: ("Int64", 8, "int64"),
    5: ("Uint8", 1, "uint8"), 6: ("Uint16", 2, "uint16"), 7: ("Uint32", 4, "uint32"), 8: ("Uint64", 8, "uint64"),
    9: ("SingleFloat", 4, "float32"), 10: ("DoubleFloat", 8, "float64"),
    11: ("ExtendedFloat", None, None),
    0x19: ("SingleFloatWithUnit", 4, "float32"), 0x1A: ("DoubleFloatWithUnit", 8, "float64"),
    0x1B: ("ExtendedFloatWithUnit", None, None),
    0x20: ("String", None, None), 0x21: ("Boolean", 1, "bool"), 0x44: ("TimeStamp", 16, None),
    0x08000C: ("ComplexSingleFloat", 8, "complex64"), 0x10000D: ("ComplexDoubleFloat", 16, "complex128"),
    0xFFFFFFFF: ("DaqMxRawData", None, None),
}
# the 17 readable channel data types of the property statements
READABLE = [1, 2, 3, 4, 5, 6, 7, 8, 9, 10, 0x19, 0x1A, 0x20, 0x21, 0x44, 0x08000C, 0x10000D]


def lead_in_fields(b):
    """b: the 28 lead-in bytes.  Returns (toc, big_endian, version, next_off, raw_off).
    The ToC mask is always little-endian; the remaining fields follow the segment's byte order."""
    toc = sint(b, 4, 4, False)
    return toc


def lead_in_rest(b, big):
    version = sint(b, 8, 4, big)
    next_off = uint(b, 12, 8, big)
    raw_off = uint(b, 20, 8, big)
    return version, next_off, raw_off


def segment_extent(seg_pos, next_off, raw_off, file_size):
    """-> (data_position, next_segment_pos, incomplete).  file_size None = unknown (index-only)."""
    data_pos = seg_pos + LEAD_IN_SIZE + raw_off
    unknown = next_off == UNKNOWN_LENGTH
    declared_end = seg_pos + LEAD_IN_SIZE + next_off
    if file_size is None:
        nxt = Ite(unknown, -1, declared_end)      # -1: not defined (no size to fall back on)
        incomplete = unknown
    else:
        nxt = Ite(unknown, file_size, Min(declared_end, file_size))
        incomplete = Or(unknown, declared_end > file_size)
    return data_pos, nxt, incomplete


# ---------------------------------------------------------------------------- parsing produced bytes

class LayoutError(Exception):
    pass


class PartStream(object):
    """A cursor over the typed parts of bytes produced by the program (pyvc.models.WBytes) or over real
    bytes.  u(n) consumes an n-byte little-endian field and returns its value; blob(length) consumes
    variable-length content and reports (via `check`) that the declared length equals what follows.
    Concrete (raw) parts may hold several fields and are consumed piecewise."""

    def __init__(self, parts, check):
        self.parts = list(parts)
        self.i = 0
        self.off = 0           # offset inside the current raw part
        self.check = check
        self.consumed = 0

    def _skip_empty(self):
        while self.i < len(self.parts):
            p = self.parts[self.i]
            if p[0] == "raw" and self.off >= len(p[1]):
                self.i += 1
                self.off = 0
            elif p[0] == "opaque" and isinstance(p[2], int) and p[2] == 0:
                self.i += 1
            else:
                break

    def done(self):
        self._skip_empty()
        return self.i >= len(self.parts)

    def u(self, n, what):
        if self.done():
            raise LayoutError("missing field " + what)
        p = self.parts[self.i]
        if p[0] == "u" and p[1] == n and not p[3]:
            self.i += 1
            self.consumed = self.consumed + n
            return p[2]
        if p[0] == "raw" and len(p[1]) - self.off >= n:
            v = int.from_bytes(p[1][self.off:self.off + n], "little")
            self.off += n
            self.consumed = self.consumed + n
            return v
        raise LayoutError("expected %d-byte little-endian field %s, found %r" % (n, what, p[:2]))

    def blob(self, length, what):
        """content of declared `length` bytes"""
        if isinstance(length, int) and length == 0:
            if self.done() or self.parts[self.i][0] != "opaque":
                return None
        if self.done():
            raise LayoutError("missing content " + what)
        p = self.parts[self.i]
        if p[0] == "opaque":
            self.i += 1
            self.check("length-field-equals-bytes-that-follow/" + what, p[2] == length)
            self.consumed = self.consumed + p[2]
            return p
        if p[0] == "raw":
            if not isinstance(length, int):
                raise LayoutError("symbolic length over concrete bytes for " + what)
            avail = len(p[1]) - self.off
            self.check("length-field-equals-bytes-that-follow/" + what, length <= avail)
            r = ("raw", p[1][self.off:self.off + length])
            self.off += length
            self.consumed = self.consumed + length
            return r
        raise LayoutError("expected content for %s, found a fixed field" % what)


def parse_metadata_parts(ps, truth):
    """metadata grammar; returns [(path_part, index, props)] where index is None or (type, nv, total)"""
    out = []
    count = ps.u(4, "object-count")
    k = 0
    while truth(k < count):
        if k > 64:
            raise LayoutError("object count too large")
        plen = ps.u(4, "path-length")
        path = ps.blob(plen, "object-path")
        start = ps.consumed
        idx_len = ps.u(4, "raw-index-length")
        index = None
        if not truth(idx_len == NO_DATA):
            tcode = ps.u(4, "data-type")
            dim = ps.u(4, "dimension")
            nv = ps.u(8, "number-of-values")
            total = None
            if truth(tcode == 0x20):
                total = ps.u(8, "total-string-bytes")
            ps.check("raw-index-length-field-equals-the-index-structure-it-heads", idx_len == ps.consumed - start)
            ps.check("dimension-is-1", dim == 1)
            index = (tcode, nv, total)
        nprops = ps.u(4, "property-count")
        props = []
        j = 0
        while truth(j < nprops):
            if j > 64:
                raise LayoutError("property count too large")
            nlen = ps.u(4, "property-name-length")
            name = ps.blob(nlen, "property-name")
            ptype = ps.u(4, "property-type")
            value = None
            known = False
            for c in sorted(TYPES):
                if truth(ptype == c):
                    known = True
                    w = TYPES[c][1]
                    if c == 0x20:
                        sl = ps.u(4, "string-value-length")
                        value = ("str", ps.blob(sl, "string-value"))
                    elif c == 0x44:
                        fr = ps.u(8, "timestamp-fractions")
                        se = ps.u(8, "timestamp-seconds")
                        value = ("ts", se, fr)
                    elif w is not None and c not in (0x08000C, 0x10000D):
                        value = ("num", c, ps.u(w, "value"))
                    else:
                        raise LayoutError("property type %x has no value encoding" % c)
                    break
            if not known:
                raise LayoutError("unknown property type")
            props.append((name, ptype, value))
            j += 1
        out.append((path, index, props))
        k += 1
    return out
