"""TDMS on-disk layout, written from NI's published format description and the property statements
(not from the code).  All functions work on concrete and symbolic values."""
from .base import And, Or, Not, Ite, Min, uint, sint

LEAD_IN_SIZE = 28
TOC_META = 1 << 1
TOC_NEW_OBJ_LIST = 1 << 2
TOC_RAW = 1 << 3
TOC_INTERLEAVED = 1 << 5
TOC_BIG_ENDIAN = 1 << 6
TOC_DAQMX = 1 << 7
UNKNOWN_LENGTH = 0xFFFFFFFFFFFFFFFF
NO_DATA = 0xFFFFFFFF
SAME_AS_BEFORE = 0x00000000

# type code -> (name, width or None, numpy dtype string or None)
TYPES = {
    0: ("Void", None, None),
    1: ("Int8", 1, "int8"), 2: ("Int16", 2, "int16"), 3: ("Int32", 4, "int32"), 4: ("Int64", 8, "int64"),
    5: ("Uint8", 1, "uint8"), 6: ("Uint16", 2, "uint16"), 7: ("Uint32", 4, "uint32"), 8: ("Uint64", 8, "uint64"),
    9: ("SingleFloat", 4, "float32"), 10: ("DoubleFloat", 8, "float64"),
    11: ("ExtendedFloat", None, None),
    0x19: ("SingleFloatWithUnit", 4, "float32"), 0x1A: ("DoubleFloatWithUnit", 8, "float64"),
    0x1B: ("ExtendedFloatWithUnit", None, None),
    0x20: ("String", None, None), 0x21: ("Boolean", 1, "bool"), 0x44: ("TimeStamp", 16, None),
    0x08000C: ("ComplexSingleFloat", 8, "complex64"), 0x10000D: ("ComplexDoubleFloat", 16, "complex128"),
    0xFFFFFFFF: ("DaqMxRawData", None, None),
}
# the 17 readable channel data types of the property statements
READABLE = [1, 2, 3, 4, 5, 6, 7, 8, 9, 10, 0x19, 0x1A, 0x20, 0x21, 0x44, 0x08000C, 0x10000D]


def lead_in_fields(b):
    """b: the 28 lead-in bytes.  Returns (toc, big_endian, version, next_off, raw_off).
    The ToC mask is always little-endian; the remaining fields follow the segment's byte order."""
    toc = sint(b, 4, 4, False)
    return toc


def lead_in_rest(b, big):
    version = sint(b, 8, 4, big)
    next_off = uint(b, 12, 8, big)
    raw_off = uint(b, 20, 8, big)
    return version, next_off, raw_off


def segment_extent(seg_pos, next_off, raw_off, file_size):
    """-> (data_position, next_segment_pos, incomplete).  file_size None = unknown (index-only)."""
    data_pos = seg_pos + LEAD_IN_SIZE + raw_off
    unknown = next_off == UNKNOWN_LENGTH
    declared_end = seg_pos + LEAD_IN_SIZE + next_off
    if file_size is None:
        nxt = Ite(unknown, -1, declared_end)      # -1: not defined (no size to fall back on)
        incomplete = unknown
    else:
        nxt = Ite(unknown, file_size, Min(declared_end, file_size))
        incomplete = Or(unknown, declared_end > file_size)
    return data_pos, nxt, incomplete
