"""Python's slice semantics on a sequence of length n (language reference / PySlice_AdjustIndices),
as integer functions usable on concrete and symbolic values."""
from .base import And, Or, Not, Ite


def adjust(start, stop, step, n):
    """-> (s, e, st): the indices are s, s+st, s+2st, ... while (st>0 and i<e) or (st<0 and i>e).
    step must be non-zero (None = 1)."""
    st = 1 if step is None else step
    pos = st > 0
    if start is None:
        s = Ite(pos, 0, n - 1)
    else:
        s1 = Ite(start < 0, start + n, start)
        s = Ite(s1 < 0, Ite(pos, 0, -1), Ite(s1 >= n, Ite(pos, n, n - 1), s1))
    if stop is None:
        e = Ite(pos, n, -1)
    else:
        e1 = Ite(stop < 0, stop + n, stop)
        e = Ite(e1 < 0, Ite(pos, 0, -1), Ite(e1 >= n, Ite(pos, n, n - 1), e1))
    return s, e, st


def is_empty(s, e, st):
    return Or(And(st > 0, s >= e), And(st < 0, s <= e))


def window(offset, length, n):
    """read_data(offset, length) on a channel of n values: full[offset : offset+length] -> (lo, hi)"""
    lo = Ite(offset > n, n, offset)
    if length is None:
        hi = n
    else:
        hi = Ite(offset + length > n, n, offset + length)
    hi = Ite(hi < lo, lo, hi)
    return lo, hi


def index(i, n):
    """integer index -> (position, in_range)"""
    p = Ite(i < 0, i + n, i)
    return p, And(p >= 0, p < n)
