"""Chunk structure of a segment's raw data (from the TDMS layout description): chunk size, number of
chunks, values per chunk, and the prefix rule for a truncated final chunk.  Dual use (concrete / symbolic)."""
from .base import And, Or, Not, Ite, Min, Max, Implies


def segment_values(has_data, nv, num_chunks, final_count):
    """values of one object in a segment = sum over its chunks of the values each chunk holds;
    final_count is None when every chunk is complete, else the value count of the last chunk"""
    if final_count is None:
        return Ite(has_data, nv * num_chunks, 0)
    return Ite(has_data, nv * (num_chunks - 1) + final_count, 0)


def contiguous_final_lengths(objs, remainder):
    """objs: [(has_data, nv, width)] in list order; remainder: bytes of the partial chunk.
    Largest prefix-closed counts whose bytes fit: leading objects whole, then one partial, rest 0.
    Returns list of counts (None for objects without data)."""
    out = []
    rem = remainder
    stopped = False
    for (has, nv, w) in objs:
        if not has:
            out.append(None)
            continue
        if stopped:
            out.append(0)
            continue
        size = nv * w
        if rem > size:
            out.append(nv)
            rem -= size
        else:
            out.append(rem // w)
            stopped = True
    return out
