"""canary run: every mutant must be caught by its property's check (exit 1), every harmless edit must stay quiet
(exit 0) on all properties given.  usage: python3 selftest/run.py [name-substring]"""
import json, os, shutil, subprocess, sys, tempfile, time
HERE = os.path.dirname(os.path.dirname(os.path.abspath(__file__)))
idx = json.load(open(os.path.join(HERE, "selftest", "mutants", "index.json")))
sel = sys.argv[1] if len(sys.argv) > 1 else ""
results = []
for m in idx:
    if sel not in m["name"]:
        continue
    tmp = tempfile.mkdtemp(prefix="verif_canary_", dir=os.environ.get("TMPDIR", "/tmp"))
    try:
        shutil.copytree("/repo/nptdms", os.path.join(tmp, "nptdms"))
        p = subprocess.run(["patch", "-p1", "-s", "-d", tmp, "-i", os.path.join(HERE, "selftest", "mutants", m["name"] + ".diff")],
                           capture_output=True, text=True)
        if p.returncode:
            results.append((m["name"], "PATCH-FAILED"))
            continue
        props = [m["property"]] if m["property"] else ["C04", "C06", "C19"]
        t0 = time.time()
        verdicts = []
        for prop in props:
            r = subprocess.run([os.path.join(HERE, "check"), prop], capture_output=True, text=True,
                               env=dict(os.environ, REPO=tmp, VERIF_EVIDENCE_DIR=os.path.join(tmp, "evidence")),
                               cwd=HERE)
            v = [l for l in r.stdout.splitlines() if l.startswith("VIOLATION")]
            verdicts.append((prop, r.returncode, len(v), v[0][:150] if v else ""))
        ok = all(rc == 1 for (_, rc, _, _) in verdicts) if m["property"] else all(rc == 0 for (_, rc, _, _) in verdicts)
        results.append((m["name"], "OK" if ok else "MISSED" if m["property"] else "FALSE-ALARM", verdicts, round(time.time() - t0)))
        print(results[-1], flush=True)
    finally:
        shutil.rmtree(tmp, ignore_errors=True)
bad = [r for r in results if r[1] != "OK"]
print("canaries: %d, not ok: %d" % (len(results), len(bad)))
sys.exit(1 if bad else 0)
