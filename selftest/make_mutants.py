"""(re)generate the canary patches under selftest/mutants from the current /repo by textual replacement.
Each entry: name, property expected to catch it (None = harmless edit that must NOT raise an alarm), file, old, new."""
import difflib, json, os, sys
HERE = os.path.dirname(os.path.abspath(__file__))
M = [
 ("c06-clamp-off-by-one", "C06", "nptdms/reader.py",
  "if self._data_file_size is not None and next_segment_pos > self._data_file_size:",
  "if self._data_file_size is not None and next_segment_pos >= self._data_file_size:"),
 ("c06-crop-one-row-too-many", "C06", "nptdms/base_segment.py",
  "        crop_len = (combined_data.shape[0] // bytes_per_row)\n", "        crop_len = (combined_data.shape[0] // bytes_per_row) - 1\n"),
 ("c01-string-offsets-not-differenced", "C01", "nptdms/types.py",
  "            s = file.read(offsets[i + 1] - offsets[i])", "            s = file.read(offsets[i + 1])"),
 ("c15-big-endian-timestamp-field-order", "C15", "nptdms/types.py",
  "            dtype = np.dtype([('seconds', '>i8'), ('second_fractions', '>u8')])",
  "            dtype = np.dtype([('second_fractions', '>u8'), ('seconds', '>i8')])"),
 ("c05-channel-stream-no-reseek", "C05", "nptdms/tdms_segment.py",
  "            yield chunk\n            file.seek(initial_position + (i + 1) * chunk_size)\n\n    def _get_data_reader",
  "            yield chunk\n\n    def _get_data_reader"),
 ("c02-shared-object-mutated", "C02", "nptdms/tdms_segment.py",
  "            if previous_segment_obj.has_data:\n                segment_obj = copy(previous_segment_obj)\n                segment_obj.has_data = False",
  "            if previous_segment_obj.has_data:\n                segment_obj = previous_segment_obj\n                segment_obj.has_data = False"),
 ("c02-previous-list-aliased", "C02", "nptdms/tdms_segment.py",
  "            self.ordered_objects = previous_segment.ordered_objects[:]", "            self.ordered_objects = previous_segment.ordered_objects"),
 ("c16-doubled-quote-not-consumed", "C16", "nptdms/common.py",
  "                    component += \"'\"\n                    # Consume second \"'\"\n                    next(chars)", "                    component += \"'\""),
 ("c18-range-boundaries-swapped", "C18", "nptdms/thermocouples.py",
  "        return (self.start <= value) & (value < self.end)", "        return (self.start < value) & (value <= self.end)"),
 ("c18-type-k-inverse-coefficient", "C18", "nptdms/thermocouples.py", "2.5173462E+01", "2.5273462E+01"),
 ("c17-strain-full-bridge-3-sign", "C17", "nptdms/scaling.py",
  "temp += common_factor * self.voltage_excitation * self.gage_factor * (1.0 + self.poisson_ratio)",
  "temp += common_factor * self.voltage_excitation * self.gage_factor * (1.0 - self.poisson_ratio)"),
 ("c17-three-wire-lead-compensation", "C17", "nptdms/scaling.py",
  "    if resistance_configuration == 3:\n        return measured_resistance - lead_wire_resistance",
  "    if resistance_configuration == 3:\n        return measured_resistance - 2.0 * lead_wire_resistance"),
 ("c04-window-trim-off-by-one", "C04", "nptdms/reader.py",
  "                if num_values_to_trim >= final_chunk_size:", "                if num_values_to_trim > final_chunk_size:"),
 ("c19-reads-whole-chunk", "C19", "nptdms/tdms_segment.py",
  "            elif number_values == obj.number_values:\n                # Seek over data for other channel data\n                current_position += obj.data_size",
  "            elif number_values == obj.number_values:\n                # Seek over data for other channel data\n                obj.read_values(file, number_values, self.endianness)\n                current_position += obj.data_size"),
 ("c20-close-borrowed-stream", "C20", "nptdms/reader.py",
  "        if self._file_path is not None:\n            # File path was provided so we opened the file and should close it.\n            self._file.close()",
  "        if self._file is not None:\n            # File path was provided so we opened the file and should close it.\n            self._file.close()"),
 ("c08-next-offset-ignores-strings", "C08", "nptdms/writer.py",
  "        next_segment_offset = metadata_size + self._data_size()", "        next_segment_offset = metadata_size + self._data_size() + 0 * len(self.objects) - (4 if any(hasattr(o, 'data') and o.data_type == String and len(o.data) for o in self.objects) else 0)"),
 ("c07-int64-boundary", "C07", "nptdms/writer.py",
  "    if value >= 2 ** 31 or value < -2 ** 31:", "    if value > 2 ** 31 or value < -2 ** 31:"),
 ("c12-guard-removed", "C12", "nptdms/types.py",
  "        second_fractions = (microseconds * 2**64) // 10**6 + 2**24", "        second_fractions = (microseconds * 2**64) // 10**6"),
 ("c13-subtract-operands-swapped", "C13", "nptdms/scaling.py", "        return right_data - left_data", "        return left_data - right_data"),
 ("c11-digital-bit-offset", "C11", "nptdms/daqmx.py", "        bit_offset = self.raw_bit_offset % 8", "        bit_offset = self.raw_bit_offset % 7"),
 ("c09-index-seek-uses-next-segment", "C09", "nptdms/reader.py",
  "                        file.seek(start_position + segment.data_position - segment.position, os.SEEK_SET)",
  "                        file.seek(start_position + segment.next_segment_pos - segment.position, os.SEEK_SET)"),
 ("c10-defragment-scaled-data", "C10", "nptdms/writer.py", "                        channel.read_data(scaled=False),", "                        channel.read_data(),"),
 ("c03-eager-read-data-ignores-offset", "C03", "nptdms/channel_data.py",
  "    data = None if raw_data.data is None else raw_data.data[offset:end]", "    data = None if raw_data.data is None else raw_data.data[:end]"),
 ("c14-empty-slice-raw-dtype", "C14", "nptdms/tdms.py",
  "        if stop == start:\n            return np.empty((0, ), dtype=self.dtype)", "        if stop == start:\n            return np.empty((0, ), dtype=self._raw_data_dtype())"),
 # harmless edits: must stay quiet
 ("harmless-renamed-local", None, "nptdms/reader.py", "num_values_to_skip", "values_to_skip"),
 ("harmless-extra-logging", None, "nptdms/tdms_segment.py",
  "        data_size = self._get_chunk_size()\n\n        total_data_size", "        data_size = self._get_chunk_size()\n        log.debug(\"chunk size %d\", data_size)\n\n        total_data_size"),
 ("harmless-reordered-statements", None, "nptdms/reader.py",
  "        segment_index = start_segment\n        values_read = 0\n", "        values_read = 0\n        segment_index = start_segment\n"),
]
out = os.path.join(HERE, "mutants")
os.makedirs(out, exist_ok=True)
index = []
for (name, prop, path, old, new) in M:
    src = open(os.path.join("/repo", path)).read()
    if old not in src:
        print("NOT APPLICABLE (text not found):", name)
        continue
    dst = src.replace(old, new) if prop is None else src.replace(old, new, 1)
    diff = "".join(difflib.unified_diff(src.splitlines(True), dst.splitlines(True), "a/" + path, "b/" + path))
    open(os.path.join(out, name + ".diff"), "w").write(diff)
    index.append({"name": name, "property": prop, "file": path})
json.dump(index, open(os.path.join(out, "index.json"), "w"), indent=1)
print(len(index), "mutants written")
