"""Independent TDMS encoder written from spec/layout.py (NI's published layout), used to turn solver
counter-models into real files (replay) and to enumerate small files for the bounded stand-ins.
Runs under /venv/bin/python (numpy only); never imports nptdms.writer.
"""
import struct
import numpy as np

TOC_META, TOC_NEW, TOC_RAW, TOC_INTERLEAVED, TOC_BIG, TOC_DAQMX = 2, 4, 8, 32, 64, 128

# type code -> (numpy dtype string or None, width)
TYPES = {
    1: ("i1", 1), 2: ("i2", 2), 3: ("i4", 4), 4: ("i8", 8), 5: ("u1", 1), 6: ("u2", 2), 7: ("u4", 4),
    8: ("u8", 8), 9: ("f4", 4), 10: ("f8", 8), 0x19: ("f4", 4), 0x1A: ("f8", 8), 0x21: ("?", 1),
    0x08000C: ("c8", 8), 0x10000D: ("c16", 16), 0x44: (None, 16), 0x20: (None, None),
}
NP2CODE = {"int8": 1, "int16": 2, "int32": 3, "int64": 4, "uint8": 5, "uint16": 6, "uint32": 7, "uint64": 8,
           "float32": 9, "float64": 10, "bool": 0x21, "complex64": 0x08000C, "complex128": 0x10000D}


def _o(big):
    return ">" if big else "<"


def enc_string(s, big=False):
    b = s.encode("utf-8")
    return struct.pack(_o(big) + "L", len(b)) + b


def enc_timestamp(seconds, fractions, big=False):
    if big:
        return struct.pack(">qQ", seconds, fractions)
    return struct.pack("<Qq", fractions, seconds)


def enc_value(tcode, value, big=False):
    """property / single value encoding"""
    o = _o(big)
    if tcode == 0x20:
        return enc_string(value, big)
    if tcode == 0x44:
        return enc_timestamp(value[0], value[1], big)
    if tcode == 0x21:
        return struct.pack(o + "b", 1 if value else 0)
    fmt = {1: "b", 2: "h", 3: "l", 4: "q", 5: "B", 6: "H", 7: "L", 8: "Q", 9: "f", 10: "d", 0x19: "f",
           0x1A: "d"}[tcode]
    return struct.pack(o + fmt, value)


def enc_values(tcode, values, big=False):
    """raw data of one channel in one chunk (contiguous layout)"""
    if tcode == 0x20:
        offs = b""
        tot = 0
        bs = [v.encode("utf-8") for v in values]
        for b in bs:
            tot += len(b)
            offs += struct.pack(_o(big) + "L", tot)
        return offs + b"".join(bs)
    if tcode == 0x44:
        return b"".join(enc_timestamp(s, f, big) for (s, f) in values)
    dt = np.dtype(TYPES[tcode][0]).newbyteorder(_o(big))
    return np.asarray(values).astype(dt).tobytes()


def enc_metadata(objects, big=False):
    """objects: list of dict(path, index, props) ; index: ('full', tcode, nv[, total_bytes]) | 'same' | 'none'
    | ('raw', bytes) ; props: list of (name, tcode, value)"""
    o = _o(big)
    out = struct.pack(o + "L", len(objects))
    for ob in objects:
        out += enc_string(ob["path"], big)
        ix = ob.get("index", "none")
        if ix == "none":
            out += struct.pack(o + "L", 0xFFFFFFFF)
        elif ix == "same":
            out += struct.pack(o + "L", 0)
        elif ix[0] == "raw":
            out += ix[1]
        else:
            tcode, nv = ix[1], ix[2]
            if tcode == 0x20:
                out += struct.pack(o + "LLLQQ", 28, tcode, 1, nv, ix[3])
            else:
                out += struct.pack(o + "LLLQ", 20, tcode, 1, nv)
        props = ob.get("props", [])
        out += struct.pack(o + "L", len(props))
        for (name, tcode, value) in props:
            out += enc_string(name, big) + struct.pack(o + "L", tcode) + enc_value(tcode, value, big)
    return out


def enc_segment(objects, data=b"", toc=None, big=False, version=4713, meta=True, next_off=None, raw_off=None,
                tag=b"TDSm", with_data=True):
    md = enc_metadata(objects, big) if meta else b""
    if toc is None:
        toc = (TOC_META if meta else 0) | TOC_NEW | (TOC_RAW if data else 0)
    if big:
        toc |= TOC_BIG
    o = _o(big)
    no = len(md) + len(data) if next_off is None else next_off
    ro = len(md) if raw_off is None else raw_off
    lead = tag + struct.pack("<l", toc) + struct.pack(o + "lQQ", version, no, ro)
    return lead + md + (data if with_data else b"")


def simple_file(channels, chunks=1, big=False, interleaved=False):
    """channels: list of (path, ndarray) of equal dtype handling; one segment, `chunks` equal chunks"""
    objects = []
    groups = []
    for (path, arr) in channels:
        g = path.rsplit("/", 1)[0]
        if g not in groups:
            groups.append(g)
    objects.append({"path": "/", "index": "none"})
    for g in groups:
        objects.append({"path": g, "index": "none"})
    data = b""
    per = []
    for (path, arr) in channels:
        arr = np.asarray(arr)
        n = len(arr)
        nv = n // chunks if chunks else 0
        tcode = NP2CODE[arr.dtype.name]
        if n:
            objects.append({"path": path, "index": ("full", tcode, nv)})
        else:
            objects.append({"path": path, "index": ("full", tcode, 0)})
        per.append((arr, nv, tcode))
    if interleaved:
        nv = per[0][1] * chunks
        rows = []
        for i in range(nv):
            for (arr, _, tcode) in per:
                rows.append(enc_values(tcode, arr[i:i + 1], big))
        data = b"".join(rows)
    else:
        for c in range(chunks):
            for (arr, nv, tcode) in per:
                data += enc_values(tcode, arr[c * nv:(c + 1) * nv], big)
    toc = TOC_META | TOC_NEW | (TOC_RAW if data else 0) | (TOC_INTERLEAVED if interleaved else 0)
    return enc_segment(objects, data, toc=toc, big=big)


def file_from_segment_shapes(segs, path="/'g'/'P'"):
    """segs: list of dict(has, nv, nc, ov, fin) describing channel P per segment (int32 values 0,1,2,...).
    Returns (bytes, full ndarray) or (None, reason) when the shape cannot be encoded."""
    out = b""
    full = []
    nxt = 0
    last = len(segs) - 1
    for si, s in enumerate(segs):
        objs = [{"path": "/", "index": "none"}, {"path": "/'g'", "index": "none"}]
        if not s["has"] or s["nv"] == 0 or (s["nc"] == 0 and not s["ov"]):
            # segment without data for P: a companion channel keeps it a data segment
            objs.append({"path": "/'g'/'Q'", "index": ("full", 1, 1)})
            if s.get("listed_no_data"):
                objs.append({"path": path, "index": "none"})
            out += enc_segment(objs, b"\x07")
            continue
        nv, nc, ov, fin = s["nv"], s["nc"], s["ov"], s["fin"]
        objs.append({"path": path, "index": ("full", 3, nv)})
        data = b""
        full_chunks = nc - 1 if ov else nc
        if full_chunks < 0:
            return None, "negative chunk count"
        for c in range(full_chunks):
            vals = list(range(nxt, nxt + nv))
            nxt += nv
            full.extend(vals)
            data += enc_values(3, vals)
        if ov:
            if fin >= nv or fin < 0:
                return None, "override with fin >= nv needs a companion channel"
            vals = list(range(nxt, nxt + fin))
            nxt += fin
            full.extend(vals)
            data += enc_values(3, vals)
            if fin == 0:
                data += b"\x00\x00"          # stray bytes: a partial chunk holding 0 whole values
        out += enc_segment(objs, data)
    return out, np.array(full, dtype=np.int32)
