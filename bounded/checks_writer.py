"""bounded stand-ins: writer side (C07, C08, C10, C12, C16)"""
