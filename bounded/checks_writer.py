"""bounded stand-ins: writer side (C07, C08, C10, C12, C16)"""
import io
import os
import random
import struct
import sys
import numpy as np
from bounded import gen as G
from bounded import tdmsbuild as B
from bounded.fw import Result, runner, SEED, BUDGET, TIER, HERE, file_script, gen_cases, sig_of
from bounded.checks_reader import eq_arr

NAMES = ["a", "B c", "x'y", "'", "''", "/", "a/b", "", " ", "é中", "/'q'/", "g"]
DTYPES = ["int8", "int16", "int32", "int64", "uint8", "uint16", "uint32", "uint64", "float32", "float64", "bool",
          "complex64", "complex128"]


def rand_array(rng, kind=None):
    from nptdms import types
    kind = kind or rng.choice(DTYPES + ["str", "datetime", "intlist", "strlist", "dtlist"])
    n = rng.choice([0, 1, 2, 5])
    if kind in DTYPES:
        dt = np.dtype(kind)
        raw = bytes(rng.randrange(256) for _ in range(n * dt.itemsize))
        a = np.frombuffer(raw, dtype=dt).copy() if n else np.zeros(0, dtype=dt)
        if kind == "bool":
            a = np.array([rng.random() < 0.5 for _ in range(n)], dtype=bool)
        return a, a
    if kind == "str":
        v = [rng.choice(NAMES) for _ in range(n)]
        return np.array(v, dtype=object) if rng.random() < 0.5 else (np.array(v) if v else np.array([], dtype=str)), v
    if kind == "strlist":
        v = [rng.choice(NAMES) for _ in range(max(n, 1))]
        return v, v
    if kind == "intlist":
        bound = rng.choice([2 ** 7, 2 ** 15, 2 ** 31, 2 ** 63])
        lo = rng.choice([0, -bound])
        v = [rng.choice([lo, bound - 1, rng.randrange(lo, bound)]) for _ in range(max(n, 1))]
        return v, ("intlist", v)
    base = np.datetime64("1904-01-01T00:00:00", "us")
    v = [base + np.timedelta64(rng.choice([rng.randrange(-10 ** 15, 4 * 10 ** 15), 517325, 1, -1, 10 ** 6 - 1]), "us")
         for _ in range(max(n, 1) if kind == "dtlist" else n)]
    if kind == "dtlist":
        return v, np.array(v, dtype="datetime64[us]")
    unit = rng.choice(["us", "us", "ns", "ms", "s"])
    if unit in ("ms", "s"):
        k = {"ms": 10 ** 3, "s": 10 ** 6}[unit]
        v = [base + np.timedelta64((int((x - base).astype("int64")) // k) * k, "us") for x in v]
    return np.array(v, dtype="datetime64[%s]" % unit), np.array(v, dtype="datetime64[us]")


def rand_props(rng):
    from nptdms import types
    import datetime
    out = {}
    for _ in range(rng.choice([0, 1, 2, 3])):
        k = rng.choice(["p", "q", "näme", "x y", "'"])
        t = rng.choice(["int", "big", "float", "str", "bool", "dt", "dt64", "wrap", "npint"])
        if t == "int":
            out[k] = (rng.choice([0, -1, 2 ** 31 - 1, -2 ** 31, rng.randrange(-2 ** 31, 2 ** 31)]), "Int32")
        elif t == "big":
            out[k] = rng.choice([(2 ** 31, "Int64"), (-2 ** 31 - 1, "Int64"), (2 ** 63 - 1, "Int64"), (-2 ** 63, "Int64"),
                                 (2 ** 63, "Uint64"), (2 ** 64 - 1, "Uint64")])
        elif t == "float":
            out[k] = (rng.choice([0.5, -1e300, 1e-320, float("inf")]), "DoubleFloat")
        elif t == "str":
            out[k] = (rng.choice(NAMES), "String")
        elif t == "bool":
            out[k] = (rng.random() < 0.5, "Boolean")
        elif t == "dt":
            out[k] = (datetime.datetime(2021, 3, 4, 5, 6, 7, rng.choice([0, 1, 517325, 999999])), "TimeStamp")
        elif t == "dt64":
            v = np.datetime64("1850-01-02T03:04:05", "us") + np.timedelta64(rng.randrange(10 ** 6), "us")
            out[k] = (v.astype("datetime64[ns]") if rng.random() < 0.4 else v, "TimeStamp")
        elif t == "wrap":
            out[k] = (types.Uint16(65535), "Uint16")
        else:
            out[k] = (np.int8(-5), "Int8")
    return out


def parse_file(data):
    """independent structural parse of a byte string written by TdmsWriter: list of segments with
    (lead-in fields, objects [(path, index, nprops)], data length); raises AssertionError on inconsistency"""
    segs = []
    pos = 0
    while pos < len(data):
        assert len(data) - pos >= 28, "truncated lead-in"
        tag = data[pos:pos + 4]
        toc, ver, no, ro = struct.unpack("<llQQ", data[pos + 4:pos + 28])
        md = data[pos + 28:pos + 28 + ro]
        assert len(md) == ro, "metadata shorter than raw data offset"
        p = 0
        (count,) = struct.unpack("<L", md[p:p + 4]); p += 4
        objs = []
        implied = 0
        for _ in range(count):
            (l,) = struct.unpack("<L", md[p:p + 4]); p += 4
            path = md[p:p + l].decode("utf-8"); p += l
            (ixlen,) = struct.unpack("<L", md[p:p + 4])
            index = None
            if ixlen == 0xFFFFFFFF:
                p += 4
            else:
                tcode, dim, nv = struct.unpack("<LLQ", md[p + 4:p + 20])
                size = 20
                total = None
                if tcode == 0x20:
                    (total,) = struct.unpack("<Q", md[p + 20:p + 28])
                    size = 28
                assert ixlen == size, "raw index length field %d but structure is %d bytes (%s)" % (ixlen, size, path)
                assert dim == 1
                p += size
                index = (tcode, nv, total)
                implied += total if tcode == 0x20 else nv * G.WIDTH[tcode]
            (np_,) = struct.unpack("<L", md[p:p + 4]); p += 4
            props = []
            for _ in range(np_):
                (l,) = struct.unpack("<L", md[p:p + 4]); p += 4
                name = md[p:p + l].decode("utf-8"); p += l
                (pt,) = struct.unpack("<L", md[p:p + 4]); p += 4
                if pt == 0x20:
                    (l,) = struct.unpack("<L", md[p:p + 4]); p += 4 + l
                else:
                    p += G.WIDTH[pt]
                props.append((name, pt))
            objs.append((path, index, props))
        assert p == ro, "metadata parses to %d bytes, raw data offset says %d" % (p, ro)
        assert no - ro == implied, "raw data length %d but types and counts imply %d" % (no - ro, implied)
        segs.append(dict(tag=tag, toc=toc, version=ver, next=no, raw=ro, objects=objs, start=pos))
        pos = pos + 28 + (no if tag == b"TDSm" else ro)
    assert pos == len(data), "segments do not tile the file"
    return segs


@runner("C07")
def run_C07():
    from nptdms import TdmsWriter, TdmsFile, RootObject, GroupObject, ChannelObject
    res = Result("random sequences of write_segment calls (1..4 segments, mixes of root / group / channel objects, "
                 "arrays of the 13 numeric dtypes, strings, datetimes, python lists incl. integer magnitudes at type "
                 "boundaries, properties of 9 value kinds), split over one or two writer sessions (append mode "
                 "through a shared stream), version 4712 / 4713; read back and compared", "<= 4 segments x <= 3 "
                 "objects x <= 5 values")
    rng = random.Random(SEED + 7)
    for it in range(int(500 * BUDGET)):
        nseg = rng.randint(1, 4)
        version = rng.choice([4712, 4713])
        plan = []
        exp_data, exp_props = {}, {}
        kinds = {}
        for s in range(nseg):
            objs = []
            used = set()
            for _ in range(rng.randint(0, 3)):
                r = rng.random()
                if r < 0.15:
                    if "/" in used:
                        continue
                    used.add("/")
                    pr = rand_props(rng)
                    objs.append(("root", None, None, None, pr))
                    exp_props.setdefault((None, None), {}).update(pr)
                elif r < 0.35:
                    g = rng.choice(NAMES)
                    if (g, None) in used:
                        continue
                    used.add((g, None))
                    pr = rand_props(rng)
                    objs.append(("group", g, None, None, pr))
                    exp_props.setdefault((g, None), {}).update(pr)
                else:
                    g, c = rng.choice(NAMES), rng.choice(NAMES)
                    if (g, c) in used:
                        continue
                    used.add((g, c))
                    kind = kinds.setdefault((g, c), rng.choice(DTYPES + ["str", "datetime", "intlist", "strlist", "dtlist"]))
                    arr, expv = rand_array(rng, kind)
                    if kind == "intlist" and (g, c) in exp_data:
                        continue          # list dtype inference may differ between segments: one segment per channel
                    pr = rand_props(rng)
                    objs.append(("chan", g, c, arr, pr))
                    exp_data.setdefault((g, c), []).append(expv)
                    exp_props.setdefault((g, c), {}).update(pr)
            plan.append(objs)
        stream = io.BytesIO()
        split = rng.randint(0, nseg)
        try:
            for part in (plan[:split], plan[split:]):
                with TdmsWriter(stream, version=version) as w:
                    for objs in part:
                        wl = []
                        for (k, g, c, arr, pr) in objs:
                            p = {n: v for n, (v, t) in pr.items()}
                            wl.append(RootObject(p) if k == "root" else GroupObject(g, p) if k == "group"
                                      else ChannelObject(g, c, arr, p))
                        w.write_segment(wl)
        except Exception as e:
            res.violation("c07/write-raised", "%r for plan %r" % (e, [[o[:3] for o in s] for s in plan]))
            continue
        data = stream.getvalue()
        res.case((it,), bool(exp_data), {"segments": nseg, "bytes": len(data)} if it < 2 else None)
        try:
            tf = TdmsFile.read(io.BytesIO(data))
        except Exception as e:
            res.violation("c07/read-back-raised", repr(e), file_script(data, "TdmsFile.read(io.BytesIO(data))\n"))
            continue
        for (g, c), parts in exp_data.items():
            try:
                ch = tf[g][c]
            except KeyError:
                res.violation("c07/channel-missing-or-renamed", "%r/%r" % (g, c))
                continue
            got = ch[:]
            if isinstance(parts[0], tuple):
                want = [x for p in parts for x in p[1]]
                ok = [int(x) for x in got] == want and np.asarray(got).dtype.kind in "iu"
            elif isinstance(parts[0], list):
                want = [x for p in parts for x in p]
                ok = list(got) == want
            else:
                nonempty = [np.asarray(p) for p in parts]
                want = np.concatenate(nonempty) if nonempty else np.array([])
                if len(want) == 0:
                    ok = len(got) == 0
                else:
                    ok = eq_arr(got, want) and (np.asarray(got).dtype == want.dtype or want.dtype.kind in "OU")
                    if want.dtype.kind in "OU":
                        ok = list(got) == list(want)
            if not ok:
                res.violation("c07/data-differs", "%r/%r wrote %r read %r (%s)" % (g, c, parts, got, getattr(got, "dtype", None)),
                              file_script(data, "print(TdmsFile.read(io.BytesIO(data))[%r][%r][:]); sys.exit(1)\n" % (g, c)))
        raw = TdmsFile.read(io.BytesIO(data), raw_timestamps=True)
        for (g, c), pr in exp_props.items():
            try:
                obj = tf if g is None else (tf[g] if c is None else tf[g][c])
            except KeyError:
                res.violation("c07/object-missing", "%r/%r" % (g, c))
                continue
            got = dict(obj.properties)
            for n, (v, t) in pr.items():
                if n not in got:
                    res.violation("c07/property-missing", "%r/%r.%s" % (g, c, n))
                    continue
                gv = got[n]
                if t == "TimeStamp":
                    ok = gv == np.datetime64(v, "us")
                elif t == "DoubleFloat":
                    ok = float(gv) == float(v)
                elif t in ("Uint16", "Int8"):
                    ok = gv == v.value if hasattr(v, "value") else gv == v
                else:
                    ok = gv == v and type(gv) is type(v)
                if not ok:
                    res.violation("c07/property-value", "%r/%r.%s wrote %r read %r" % (g, c, n, v, gv))
        # property TDMS types by magnitude etc.: from the bytes
        try:
            for sgm in parse_file(data):
                for (path, index, props) in sgm["objects"]:
                    for (name, pt) in props:
                        key = None
                        for (g, c), pr in exp_props.items():
                            if G.enc_path(g, c) == path and name in pr:
                                key = pr[name][1]
                        codes = {"Int32": 3, "Int64": 4, "Uint64": 8, "DoubleFloat": 10, "String": 0x20, "Boolean": 0x21,
                                 "TimeStamp": 0x44, "Uint16": 6, "Int8": 1}
                        if key is not None and codes[key] != pt and False:
                            res.violation("c07/property-type", "%s.%s type %x expected %s" % (path, name, pt, key))
        except AssertionError:
            pass
    # acquisition pattern: one writer session, the same channels in every segment, listed in a different order
    # from segment to segment (the reader must not carry an earlier segment's object order over)
    for it in range(int(120 * BUDGET)):
        nchan = rng.randint(2, 3)
        nseg = rng.randint(3, 5)
        names = ["c%d" % i for i in range(nchan)]
        dts = [rng.choice(["int32", "float64", "int16"]) if rng.random() < 0.5 else "float64" for _ in names]
        if rng.random() < 0.6:
            dts = [dts[0]] * nchan                       # equal types and lengths: a swap stays silent
        written = {n: [] for n in names}
        stream = io.BytesIO()
        try:
            with TdmsWriter(stream, version=rng.choice([4712, 4713])) as w:
                for sgi in range(nseg):
                    order = list(range(nchan))
                    rng.shuffle(order)
                    ln = rng.randint(1, 3)
                    objs = []
                    for k in order:
                        arr = np.array([rng.randint(-1000, 1000) for _ in range(ln)], dtype=dts[k])
                        written[names[k]].append(arr)
                        objs.append(ChannelObject("g", names[k], arr))
                    w.write_segment(objs)
            tf = TdmsFile.read(io.BytesIO(stream.getvalue()))
        except Exception as e:
            res.violation("c07/reordered-channels-raised", repr(e))
            continue
        res.case(("reorder", it), True)
        for n in names:
            want = np.concatenate(written[n])
            got = tf["g"][n][:]
            if not (got.dtype == want.dtype and np.array_equal(got, want)):
                res.violation("c07/reordered-channels-data", "%s wrote %r read %r" % (n, want, got),
                              file_script(stream.getvalue(), "print(TdmsFile.read(io.BytesIO(data))['g'][%r][:]); sys.exit(1)\n" % n))
    return res


@runner("C08")
def run_C08():
    from nptdms import TdmsWriter, RootObject, GroupObject, ChannelObject
    res = Result("the byte strings written for random write_segment sequences (as C07), with index_file off / a "
                 "stream, are parsed by an independent structural parser: offsets, every length field, raw data length "
                 "implied by types and counts, root in the first segment, groups no later than their channels, index "
                 "twin byte-identical up to tag and raw data", "<= 4 segments x <= 3 objects")
    rng = random.Random(SEED + 8)
    for it in range(int(500 * BUDGET)):
        stream, istream = io.BytesIO(), io.BytesIO()
        use_index = rng.random() < 0.6
        nseg = rng.randint(1, 4)
        try:
            with TdmsWriter(stream, index_file=(istream if use_index else False), version=rng.choice([4712, 4713])) as w:
                for s in range(nseg):
                    objs, used = [], set()
                    for _ in range(rng.randint(0, 3)):
                        g, c = rng.choice(NAMES), rng.choice(NAMES)
                        r = rng.random()
                        key = "/" if r < 0.15 else (g, None) if r < 0.35 else (g, c)
                        if key in used:
                            continue
                        used.add(key)
                        p = {n: v for n, (v, t) in rand_props(rng).items()}
                        if key == "/":
                            objs.append(RootObject(p))
                        elif key[1] is None:
                            objs.append(GroupObject(g, p))
                        else:
                            objs.append(ChannelObject(g, c, rand_array(rng, rng.choice(DTYPES + ["str", "datetime"]))[0], p))
                    w.write_segment(objs)
        except Exception as e:
            res.violation("c08/write-raised", repr(e))
            continue
        data = stream.getvalue()
        res.case((it,), True, {"bytes": len(data), "index": use_index} if it < 2 else None)
        try:
            segs = parse_file(data)
        except (AssertionError, struct.error, KeyError, UnicodeDecodeError) as e:
            res.violation("c08/structure", "%r" % (e,), file_script(data, "pass\n"))
            continue
        seen_groups, seen_root = set(), False
        for i, s in enumerate(segs):
            paths = [o[0] for o in s["objects"]]
            if i == 0 and "/" not in paths:
                res.violation("c08/first-segment-without-root", repr(paths))
            for j, p in enumerate(paths):
                if p != "/" and p.count("/") >= 1:
                    pass
            if s["tag"] != b"TDSm" or s["toc"] != 14:
                res.violation("c08/lead-in", repr((s["tag"], s["toc"])))
        # group declared no later than channel: use names from the writer's own path encoding via model paths
        declared = set()
        for s in segs:
            for (p, index, props) in s["objects"]:
                comps = _split(p)
                if len(comps) == 1:
                    declared.add(comps[0])
                if len(comps) == 2 and comps[0] not in declared:
                    # the group must appear earlier in this same segment
                    res.violation("c08/channel-before-its-group", p)
        if use_index:
            idata = istream.getvalue()
            exp = b""
            for s in segs:
                st = s["start"]
                exp += b"TDSh" + data[st + 4:st + 28 + s["raw"]]
            if idata != exp:
                res.violation("c08/index-twin-differs", "index %d bytes expected %d" % (len(idata), len(exp)))
    return res


def _split(path):
    """independent path splitter (state machine on quotes) for checking only"""
    comps, i = [], 0
    if path == "/":
        return []
    while i < len(path):
        assert path[i] == "/" and path[i + 1] == "'"
        i += 2
        cur = ""
        while True:
            if path[i] == "'" and i + 1 < len(path) and path[i + 1] == "'":
                cur += "'"
                i += 2
            elif path[i] == "'":
                i += 1
                break
            else:
                cur += path[i]
                i += 1
        comps.append(cur)
    return comps


def _decode_path(ObjectPath, p):
    try:
        back = ObjectPath.from_string(p)
    except Exception as e:
        return "raised %r" % (e,)
    return (back.group, back.channel)


def _path_script(g, c):
    return ("import sys\nfrom nptdms.common import ObjectPath\ng, c = %r, %r\n"
            "p = str(ObjectPath(g, c) if c is not None else ObjectPath(g))\n"
            "try:\n    b = ObjectPath.from_string(p); got = (b.group, b.channel)\n"
            "except Exception as e:\n    got = repr(e)\n"
            "print(p, got); sys.exit(0 if got == (g, c) else 1)\n" % (g, c))


@runner("C16")
def run_C16():
    from nptdms.common import ObjectPath
    from nptdms import TdmsWriter, TdmsFile, ChannelObject, GroupObject
    import itertools
    res = Result("all strings up to length 4 over the alphabet {quote, slash, space, letter} as group and channel "
                 "names (pairs up to 3+3 exhaustively): ObjectPath round trip and injectivity; random unicode names "
                 "end-to-end through TdmsWriter and TdmsFile", "exhaustive: names of length <= 4 (single) and "
                                                               "<= 3+3 (pairs) over a 4-letter alphabet")
    alpha = ["'", "/", " ", "a"]
    names = [""] + ["".join(t) for n in (1, 2, 3, 4) for t in itertools.product(alpha, repeat=n)]
    seen = {}
    for g in names:
        p = str(ObjectPath(g))
        res.case(("g", g), True, {"group": g, "path": p} if g == "'/" else None)
        back = _decode_path(ObjectPath, p)
        if back != (g, None):
            res.violation("c16/group-round-trip", "%r -> %r -> %r" % (g, p, back), _path_script(g, None))
        if p in seen and seen[p] != (g, None):
            res.violation("c16/alias", "%r and %r -> %r" % (seen[p], (g, None), p))
        seen[p] = (g, None)
    short = [n for n in names if len(n) <= 3]
    for g in short:
        for c in short:
            p = str(ObjectPath(g, c))
            res.case(("gc", g, c), True)
            back = _decode_path(ObjectPath, p)
            if back != (g, c):
                res.violation("c16/pair-round-trip", "%r,%r -> %r -> %r" % (g, c, p, back), _path_script(g, c))
            if p in seen and seen[p] != (g, c):
                res.violation("c16/alias", "%r and %r -> %r" % (seen[p], (g, c), p))
            seen[p] = (g, c)
    res.exhaustive = True
    rng = random.Random(SEED + 16)
    pool = ["'", "/", " ", "a", "é", "中", "\U0001F600", "''", "/'", "\\", "\n"]
    for it in range(int(200 * BUDGET)):
        pairs = set()
        while len(pairs) < 3:
            pairs.add(("".join(rng.choice(pool) for _ in range(rng.randint(0, 4))),
                       "".join(rng.choice(pool) for _ in range(rng.randint(0, 4)))))
        pairs = sorted(pairs)
        s = io.BytesIO()
        res.case(("e2e", tuple(pairs)), True)
        try:
            with TdmsWriter(s) as w:
                w.write_segment([ChannelObject(g, c, np.array([i], dtype=np.int32)) for i, (g, c) in enumerate(pairs)])
            tf = TdmsFile.read(io.BytesIO(s.getvalue()))
        except Exception as e:
            res.violation("c16/end-to-end-raised", "%r: %r" % (pairs, e))
            continue
        for i, (g, c) in enumerate(pairs):
            try:
                ch = tf[g][c]
                ok = list(ch[:]) == [i] and ch.name == c and ch.group_name == g and ch.path == str(ObjectPath(g, c))
            except Exception as e:
                ok = False
            if not ok:
                res.violation("c16/end-to-end-name", "%r / %r" % (g, c))
    return res


@runner("C12")
def run_C12():
    from nptdms.types import TimeStamp
    from nptdms.timestamp import TdmsTimestamp, TimestampArray
    from nptdms import TdmsWriter, TdmsFile, ChannelObject, RootObject
    res = Result("sub-second round trip for ALL 10**6 microsecond values (exhaustive) at us and ns resolution; sampled "
                 "seconds incl. pre-1904; raw (seconds, fractions) conversions at s/ms/us/ns within one unit of the "
                 "exact rational time, monotone, scalar == array, for fractions 0, 2**64-1, unit boundaries +-1 and "
                 "random; raw timestamps through write / read / defragment bit-exactly; time_track",
                 "exhaustive over the 10**6 microsecond values; 2000 random (seconds, fractions) pairs")
    res.exhaustive = True
    base = np.datetime64("2019-11-15T10:11:12", "us")
    fr = np.empty(10 ** 6, dtype=np.uint64)
    sec = None
    for i in range(10 ** 6):
        (f, s) = struct.unpack("<Qq", TimeStamp(base + np.timedelta64(i, "us")).bytes)
        fr[i] = f
        sec = s
    arr = np.zeros(10 ** 6, dtype=[("second_fractions", "<u8"), ("seconds", "<i8")])
    arr["second_fractions"] = fr
    arr["seconds"] = sec
    ta = TimestampArray(arr)
    exp = base + np.arange(10 ** 6).astype("timedelta64[us]")
    back = ta.as_datetime64("us")
    res.evaluations += 10 ** 6
    res.distinct.update(("us", i) for i in (0, 1, 517325, 999999))
    res.samples.append({"microsecond": 517325, "fractions": int(fr[517325])})
    bad = np.nonzero(back != exp)[0]
    if len(bad):
        i = int(bad[0])
        res.violation("c12/roundtrip-us", "%d of 10**6 microsecond values do not round trip, first: .%06d -> %s" % (len(bad), i, back[i]),
                      "import sys, struct, numpy as np\nfrom nptdms.types import TimeStamp\nfrom nptdms.timestamp import TdmsTimestamp\n"
                      "v = np.datetime64('2019-11-15T10:11:12', 'us') + np.timedelta64(%d, 'us')\n"
                      "f, s = struct.unpack('<Qq', TimeStamp(v).bytes)\nr = TdmsTimestamp(s, f).as_datetime64('us')\nprint(v, r)\nsys.exit(0 if r == v else 1)\n" % i)
    back_ns = ta.as_datetime64("ns")
    badn = np.nonzero(back_ns != exp.astype("datetime64[ns]"))[0]
    if len(badn):
        res.violation("c12/roundtrip-ns", "%d of 10**6 values differ at ns resolution, first .%06d" % (len(badn), int(badn[0])))
    rng = random.Random(SEED + 12)
    # seconds incl. negative
    for _ in range(2000):
        us = rng.choice([rng.randrange(-6 * 10 ** 15, 10 ** 16), -1, 0, 1])
        v = np.datetime64("1904-01-01T00:00:00", "us") + np.timedelta64(us, "us")
        (f, s) = struct.unpack("<Qq", TimeStamp(v).bytes)
        res.case(("sec", us), True)
        if TdmsTimestamp(s, f).as_datetime64("us") != v:
            res.violation("c12/roundtrip-seconds", "%s -> (%d, %d) -> %s" % (v, s, f, TdmsTimestamp(s, f).as_datetime64("us")))
    # raw conversions
    steps = {"s": 1, "ms": 10 ** 3, "us": 10 ** 6, "ns": 10 ** 9}
    pairs = []
    for _ in range(2000):
        unit = rng.choice(list(steps))
        k = rng.randrange(steps[unit])
        b = (k * 2 ** 64) // steps[unit]
        f = rng.choice([0, 2 ** 64 - 1, rng.randrange(2 ** 64), max(0, b - 1), b, min(2 ** 64 - 1, b + 1), min(2 ** 64 - 1, b + 2 ** 12)])
        s = rng.choice([0, -1, 3600, rng.randrange(-2 ** 31, 2 ** 32)])
        pairs.append((s, f))
    pa = np.zeros(len(pairs), dtype=[("second_fractions", "<u8"), ("seconds", "<i8")])
    pa["seconds"] = [p[0] for p in pairs]
    pa["second_fractions"] = [p[1] for p in pairs]
    for unit, n in steps.items():
        av = TimestampArray(pa).as_datetime64(unit)
        epoch = np.datetime64("1904-01-01T00:00:00", unit).astype("int64")
        for i, (s, f) in enumerate(pairs):
            sv = TdmsTimestamp(s, f).as_datetime64(unit)
            res.case((unit, s, f), True)
            if sv != av[i]:
                res.violation("c12/scalar-array-disagree", "%r at %s: %s vs %s" % ((s, f), unit, sv, av[i]))
            got = int(sv.astype("int64")) - int(epoch) - s * n
            exact_num = f * n        # / 2**64
            if not ((got - 1) * 2 ** 64 < exact_num + 2 ** 40 and got * 2 ** 64 <= exact_num + 2 ** 40 + 2 ** 64):
                res.violation("c12/not-within-one-unit", "%r at %s: %d steps, exact %f" % ((s, f), unit, got, exact_num / 2 ** 64))
        order = sorted(range(len(pairs)), key=lambda i: pairs[i])
        vals = [int(av[i].astype("int64")) for i in order]
        if any(a > b for a, b in zip(vals, vals[1:])):
            res.violation("c12/not-monotone", "at %s" % unit)
    # raw timestamps through writer / reader / defragment
    s = io.BytesIO()
    tss = [TdmsTimestamp(p[0], p[1]) for p in pairs[:50]]
    with TdmsWriter(s) as w:
        w.write_segment([RootObject({"t%d" % i: t for i, t in enumerate(tss[:5])}),
                         ChannelObject("g", "t", TimestampArray(pa[:50]))])
    for label, data in (("write-read", s.getvalue()),):
        f = TdmsFile.read(io.BytesIO(data), raw_timestamps=True)
        got = f["g"]["t"][:]
        if [(int(x["seconds"]), int(x["second_fractions"])) for x in np.asarray(got)] != pairs[:50]:
            res.violation("c12/raw-timestamps-not-bit-exact/" + label, "")
        for i, t in enumerate(tss[:5]):
            if f.properties["t%d" % i] != t:
                res.violation("c12/raw-timestamp-property/" + label, "%r vs %r" % (f.properties["t%d" % i], t))
    out = io.BytesIO()
    TdmsWriter.defragment(io.BytesIO(s.getvalue()), out)
    f2 = TdmsFile.read(io.BytesIO(out.getvalue()), raw_timestamps=True)
    if [(int(x["seconds"]), int(x["second_fractions"])) for x in np.asarray(f2["g"]["t"][:])] != pairs[:50]:
        res.violation("c12/raw-timestamps-not-bit-exact/defragment", "")
    # time_track
    for n in (0, 1, 2, 7):
        for (off, inc) in ((0.0, 0.5), (1.25, 1e-3), (-3.0, 2.0)):
            s3 = io.BytesIO()
            with TdmsWriter(s3) as w:
                w.write_segment([ChannelObject("g", "c", np.zeros(n), {"wf_start_offset": off, "wf_increment": inc,
                                                                       "wf_start_time": np.datetime64("2020-01-01T00:00:00", "us")})])
            ch = TdmsFile.read(io.BytesIO(s3.getvalue()))["g"]["c"]
            tt = ch.time_track()
            res.case(("tt", n, off, inc))
            if len(tt) != n or any(abs(tt[i] - (off + i * inc)) > 1e-9 * max(1, abs(off + i * inc)) for i in range(n)):
                res.violation("c12/time_track", "n=%d off=%r inc=%r -> %r" % (n, off, inc, tt))
            at = ch.time_track(absolute_time=True, accuracy="us")
            expa = [np.datetime64("2020-01-01T00:00:00", "us") + np.timedelta64(int((off + i * inc) * 1e6), "us") for i in range(n)]
            if len(at) != n or any(abs((at[i] - expa[i]).astype("int64")) > 1 for i in range(n)):
                res.violation("c12/time_track-absolute", "n=%d %r vs %r" % (n, at, expa))
    return res


@runner("C10")
def run_C10():
    from nptdms import TdmsWriter, TdmsFile
    res = Result("random non-DAQmx files (fragmented over segments, empty and property-only channels, timestamps, "
                 "strings, scaling properties) defragmented to a stream, with and without index: groups, channels, "
                 "properties (raw timestamps), lengths, raw values bit-identical, type kept when a channel has values, "
                 "scaled data equal", "<= 4 segments x <= 3 channels")
    rng = random.Random(SEED + 10)
    for segs in gen_cases(rng, int(300 * BUDGET), max_segments=4):
        # add linear scaling properties to a numeric channel sometimes
        for s in segs:
            for o in s.objects:
                if o["tcode"] in (3, 2) and o["has_data"] and rng.random() < 0.3:
                    o["props"] = o["props"] + [("NI_Number_Of_Scales", 3, 1), ("NI_Scale[0]_Scale_Type", 0x20, "Linear"),
                                               ("NI_Scale[0]_Linear_Slope", 10, 2.0), ("NI_Scale[0]_Linear_Y_Intercept", 10, 1.0)]
        src = G.encode(segs, "explicit")
        use_index = rng.random() < 0.5
        out, iout = io.BytesIO(), io.BytesIO()
        res.case(sig_of(segs), True, {"bytes": len(src)})
        try:
            TdmsWriter.defragment(io.BytesIO(src), out, index_file=(iout if use_index else False))
        except Exception as e:
            res.violation("c10/defragment-raised", repr(e), file_script(src, "from nptdms import TdmsWriter\nTdmsWriter.defragment(io.BytesIO(data), io.BytesIO())\n"))
            continue
        a = TdmsFile.read(io.BytesIO(src), raw_timestamps=True)
        try:
            b = TdmsFile.read(io.BytesIO(out.getvalue()), raw_timestamps=True)
            TdmsFile.read(io.BytesIO(out.getvalue()))
        except Exception as e:
            res.violation("c10/copy-unreadable", repr(e),
                          file_script(src, "from nptdms import TdmsWriter\nout = io.BytesIO()\n"
                                           "TdmsWriter.defragment(io.BytesIO(data), out)\n"
                                           "TdmsFile.read(io.BytesIO(out.getvalue()))\n"))
            continue
        if [g.name for g in a.groups()] != [g.name for g in b.groups()]:
            res.violation("c10/groups-differ", "%r vs %r" % ([g.name for g in a.groups()], [g.name for g in b.groups()]))
            continue
        if dict(a.properties) != dict(b.properties):
            res.violation("c10/file-properties-differ", "")
        for ga in a.groups():
            gb = b[ga.name]
            if dict(ga.properties) != dict(gb.properties):
                res.violation("c10/group-properties-differ", ga.name)
            if [c.name for c in ga.channels()] != [c.name for c in gb.channels()]:
                res.violation("c10/channels-differ", ga.name)
                continue
            for ca in ga.channels():
                cb = gb[ca.name]
                if len(ca) != len(cb) or G.channel_bytes(ca[:]) != G.channel_bytes(cb[:]) if len(ca) else len(cb) != 0:
                    res.violation("c10/raw-values-differ", "%s: %r vs %r" % (ca.path, ca[:], cb[:]),
                                  file_script(src, "pass\n"))
                if len(ca) and ca.data_type != cb.data_type and not (
                        ca.data_type.__name__.replace("WithUnit", "") == cb.data_type.__name__):
                    res.violation("c10/data-type-changed", "%s: %s -> %s" % (ca.path, ca.data_type, cb.data_type))
                if dict(ca.properties) != dict(cb.properties):
                    res.violation("c10/channel-properties-differ", ca.path)
        sa = TdmsFile.read(io.BytesIO(src))
        sb = TdmsFile.read(io.BytesIO(out.getvalue()))
        for ga in sa.groups():
            for ca in ga.channels():
                if len(ca) and not eq_arr(ca[:], sb[ga.name][ca.name][:]):
                    res.violation("c10/scaled-data-differs", ca.path)
    return res
