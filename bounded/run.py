"""Bounded stand-ins (runtime contracts on the real code over enumerated / sampled small inputs).
usage: /venv/bin/python -m bounded.run <PROPERTY>   (env VERIF_TIER, VERIF_SEED; PYTHONPATH=<repo>:/verif)
Prints one JSON line: evaluations, distinct_nontrivial, rule, bound, samples, violations[{key, detail, script}].
Labelled bounded: never counted as proved."""
import json
import sys
import traceback
from bounded import fw


def main():
    prop = sys.argv[1]
    try:
        from bounded import checks_reader, checks_writer, checks_scaling      # noqa: F401 (register runners)
        res = fw.RUNNERS[prop]()
    except Exception:
        print(json.dumps({"error": traceback.format_exc()[-2000:], "evaluations": 0, "violations": []}))
        return 0
    res.emit()
    return 0


if __name__ == "__main__":
    sys.exit(main())
