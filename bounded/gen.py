"""Small-scope TDMS file models for the bounded stand-ins: a logical file (explicit per-segment object lists
with values) plus several byte encodings of it, and the expected reading derived from the model alone.
Runs under /venv/bin/python; uses bounded/tdmsbuild.py (independent encoder), never nptdms.writer."""
import itertools
import random
import struct
import numpy as np
from bounded import tdmsbuild as B

SIZED = [1, 2, 3, 4, 5, 6, 7, 8, 9, 10, 0x19, 0x1A, 0x21, 0x44, 0x08000C, 0x10000D]
ALL_TYPES = SIZED + [0x20]
NP = {1: "i1", 2: "i2", 3: "i4", 4: "i8", 5: "u1", 6: "u2", 7: "u4", 8: "u8", 9: "f4", 10: "f8", 0x19: "f4",
      0x1A: "f8", 0x21: "?", 0x08000C: "c8", 0x10000D: "c16"}
WIDTH = {c: B.TYPES[c][1] for c in B.TYPES}


def rand_values(rng, tcode, n):
    """values as a list of python-level items: bytes of width w for sized types (bit patterns incl. NaN
    payloads and extremes), str for strings"""
    out = []
    for _ in range(n):
        if tcode == 0x20:
            k = rng.choice([0, 1, 2, 5])
            out.append("".join(rng.choice(["a", "Z", " ", "'", "/", "é", "中", "\U0001F600"]) for _ in range(k)))
        elif tcode == 0x21:
            out.append(bytes([rng.choice([0, 1])]))
        elif tcode == 0x44:
            # any fractions (0, 2**64-1, values adjacent to unit boundaries); seconds within the datetime64[us]
            # range so that the documented conversion is defined (also negative = before 1904)
            fr = rng.choice([0, 2 ** 64 - 1, 2 ** 63, rng.randrange(2 ** 64), (rng.randrange(10 ** 6) * 2 ** 64) // 10 ** 6,
                             (rng.randrange(10 ** 6) * 2 ** 64) // 10 ** 6 + 1])
            sec = rng.choice([0, -1, 3600 * 24 * 365 * 100, rng.randrange(-2 ** 32, 2 ** 33)])
            out.append(struct.pack("<Qq", fr, sec))
        else:
            w = WIDTH[tcode]
            pick = rng.random()
            if pick < 0.15:
                out.append(b"\x00" * w)
            elif pick < 0.3:
                out.append(b"\xff" * w)
            elif pick < 0.4 and tcode in (9, 10, 0x19, 0x1A):
                nan = struct.pack("<f" if w == 4 else "<d", float("nan"))
                out.append(bytes([rng.randrange(256)]) + nan[1:])          # NaN with payload bits
            else:
                out.append(bytes(rng.randrange(256) for _ in range(w)))
    return out


def to_bytes(tcode, items, big):
    """encode logical items (little-endian bit patterns) in the segment's byte order"""
    if tcode == 0x20:
        return B.enc_values(0x20, items, big)
    out = b""
    for it in items:
        if tcode == 0x44:
            fr, sec = it[:8], it[8:]
            out += (sec[::-1] + fr[::-1]) if big else (fr + sec)
        elif tcode in (0x08000C, 0x10000D):
            h = len(it) // 2
            out += (it[:h][::-1] + it[h:][::-1]) if big else it
        else:
            out += it[::-1] if big else it
    return out


def expected_array(tcode, items):
    """what reading should deliver, compared through .tobytes() of little-endian arrays"""
    if tcode == 0x20:
        return list(items)
    return b"".join(items)


GC = {"/": (None, None)}          # path -> (group, channel): names are carried by the model, never parsed back


def enc_path(group=None, channel=None):
    q = lambda s: "'" + s.replace("'", "''") + "'"
    if group is None:
        return "/"
    return "/" + q(group) + ("/" + q(channel) if channel is not None else "")


class Seg(object):
    def __init__(self, objects, nchunks=1, big=False, interleaved=False):
        # objects: list of dict(path, tcode (None = no index ever), nv, has_data, props=[(name,tcode,value)],
        #                       data=[chunk0 items, chunk1 items, ...])
        self.objects = objects
        self.nchunks = nchunks
        self.big = big
        self.interleaved = interleaved


PROP_POOL = [("i32", 3, -5), ("u8", 5, 200), ("f64", 10, 1.5), ("txt", 0x20, "hé'/"), ("flag", 0x21, True),
             ("t", 0x44, (3600000000, 2 ** 63)), ("i64", 4, -2 ** 40), ("u64", 8, 2 ** 63 + 5), ("f32", 9, 0.25),
             ("i32", 3, 77), ("txt", 0x20, "")]


def random_logical(rng, max_segments=3, max_channels=3, types=None, allow_interleaved=True, max_nv=3, max_chunks=3):
    types = types or ALL_TYPES
    groups = ["g", "h'/x"][:rng.choice([1, 1, 2])]
    chans = []
    for i in range(rng.randint(1, max_channels)):
        g = rng.choice(groups)
        chans.append((enc_path(g, "c%d" % i), rng.choice(types)))
        GC[enc_path(g, "c%d" % i)] = (g, "c%d" % i)
    for g in groups:
        GC[enc_path(g)] = (g, None)
    segs = []
    for s in range(rng.randint(1, max_segments)):
        big = rng.random() < 0.3
        objs = []
        if s == 0 or rng.random() < 0.3:
            objs.append(dict(path="/", tcode=None, nv=0, has_data=False,
                             props=[rng.choice(PROP_POOL)] if rng.random() < 0.6 else [], data=[]))
        for g in groups:
            if rng.random() < 0.5:
                objs.append(dict(path=enc_path(g), tcode=None, nv=0, has_data=False,
                                 props=[rng.choice(PROP_POOL)] if rng.random() < 0.4 else [], data=[]))
        active = [c for c in chans if rng.random() < 0.75]
        inter = allow_interleaved and rng.random() < 0.3 and active and all(t != 0x20 for _, t in active)
        common_nv = rng.randint(0, max_nv)
        nch = rng.randint(1, max_chunks)
        for (p, t) in active:
            nv = common_nv if inter else rng.randint(0, max_nv)
            has = rng.random() < 0.85
            data = [rand_values(rng, t, nv) for _ in range(nch)] if has else []
            objs.append(dict(path=p, tcode=t, nv=nv, has_data=has,
                             props=[rng.choice(PROP_POOL)] if rng.random() < 0.3 else [], data=data))
        if segs and rng.random() < 0.65:
            # keep the previous segment's object order and append new objects (lets the incremental encodings
            # reuse the previous list)
            prev_paths = [o["path"] for o in segs[-1].objects]
            by_path = dict((o["path"], o) for o in objs)
            kept = []
            for pp in prev_paths:
                if pp in by_path:
                    kept.append(by_path.pop(pp))
                else:
                    old = [o for o in segs[-1].objects if o["path"] == pp][0]
                    if rng.random() < 0.5 and old["tcode"] is not None and old["has_data"] and not inter \
                            and not segs[-1].interleaved and old["tcode"] != 0x20:
                        # unchanged object carried over: same index, fresh data
                        kept.append(dict(path=pp, tcode=old["tcode"], nv=old["nv"], has_data=True, props=[],
                                         data=[rand_values(rng, old["tcode"], old["nv"]) for _ in range(nch)]))
                    else:
                        kept.append(dict(path=pp, tcode=old["tcode"], nv=old["nv"], has_data=False, props=[], data=[]))
            objs = kept + list(by_path.values())
        else:
            rng.shuffle(objs)
        segs.append(Seg(objs, nch, big, bool(inter)))
    return segs


def seg_data_bytes(seg):
    dobjs = [o for o in seg.objects if o["has_data"] and o["tcode"] is not None]
    if not dobjs or all(o["nv"] == 0 for o in dobjs):
        return b""
    out = b""
    if seg.interleaved:
        nv = dobjs[0]["nv"]
        for c in range(seg.nchunks):
            for r in range(nv):
                for o in dobjs:
                    out += to_bytes(o["tcode"], o["data"][c][r:r + 1], seg.big)
    else:
        for c in range(seg.nchunks):
            for o in dobjs:
                out += to_bytes(o["tcode"], o["data"][c], seg.big)
    return out


def index_of(o, big):
    if not o["has_data"] or o["tcode"] is None:
        return "none"
    if o["tcode"] == 0x20:
        total = len(to_bytes(0x20, o["data"][0], big)) if o["data"] else 0
        return ("full", 0x20, o["nv"], total)
    return ("full", o["tcode"], o["nv"])


def strings_uniform(o):
    """string chunks must all have the declared total size: only single-chunk or equal-size chunks"""
    if o["tcode"] != 0x20 or not o["has_data"]:
        return True
    sizes = set(len(to_bytes(0x20, d, False)) for d in o["data"])
    return len(sizes) <= 1


def encode(segs, style="explicit", tag=b"TDSm", with_data=True, unknown_last=False):
    """style: explicit (full restatement, new object list each segment) | incremental (no new-object-list
    flag where the previous list can be reused: unchanged objects omitted, changed ones restated or
    'same as before') | nometa (metadata block dropped when nothing changed)"""
    out = b""
    prev_list = None           # list of (path, index tuple, has_data) of the previous segment
    last_index = {}            # path -> most recent full index
    for si, seg in enumerate(segs):
        data = seg_data_bytes(seg)
        cur = [(o["path"], index_of(o, seg.big), o["has_data"] and o["tcode"] is not None) for o in seg.objects]
        toc = B.TOC_META | (B.TOC_RAW if data else 0) | (B.TOC_INTERLEAVED if seg.interleaved else 0)
        objects = None
        # style "restate": like incremental, but an index is always restated in full, never 'same as before'
        if style == "explicit" or prev_list is None:
            toc |= B.TOC_NEW
            objects = [{"path": o["path"], "index": index_of(o, seg.big), "props": o["props"]} for o in seg.objects]
        else:
            # can the previous list be extended/updated in place to give `cur` (same order for the carried part)?
            prev_paths = [p for (p, _, _) in prev_list]
            cur_paths = [p for (p, _, _) in cur]
            if cur_paths[:len(prev_paths)] == prev_paths:
                objects = []
                for (p, ix, has), o in zip(cur, seg.objects):
                    old = dict((pp, (ii, hh)) for (pp, ii, hh) in prev_list).get(p)
                    if old is not None and old == (ix, has) and not o["props"]:
                        continue                                   # unchanged: omitted
                    if has and last_index.get(p) == ix and ix != "none" and style != "restate":
                        objects.append({"path": p, "index": "same", "props": o["props"]})
                    elif not has:
                        objects.append({"path": p, "index": "none", "props": o["props"]})
                    else:
                        objects.append({"path": p, "index": ix, "props": o["props"]})
                if style == "nometa" and not objects and si > 0:
                    toc &= ~B.TOC_META
                    objects = None
            else:
                toc |= B.TOC_NEW
                objects = [{"path": o["path"], "index": index_of(o, seg.big), "props": o["props"]} for o in seg.objects]
        meta = objects is not None
        next_off = None
        if unknown_last and si == len(segs) - 1:
            next_off = 0xFFFFFFFFFFFFFFFF
        if not meta:
            b = B.enc_segment([], data, toc=toc, big=seg.big, meta=False, tag=tag, with_data=with_data,
                              next_off=next_off)
        else:
            b = B.enc_segment(objects, data, toc=toc, big=seg.big, tag=tag, with_data=with_data, next_off=next_off)
        out += b
        for (p, ix, has) in cur:
            if ix != "none":
                last_index[p] = ix
        # an object whose index was never (re)stated keeps its old one; a 'none' header keeps the last index
        prev_list = [(p, (ix if ix != "none" else "none"), has) for (p, ix, has) in cur]
    return out


def valid(segs):
    """well-formedness the generator guarantees: a channel keeps one data type; string chunks uniform"""
    for seg in segs:
        for o in seg.objects:
            if not strings_uniform(o):
                return False
        dobjs = [o for o in seg.objects if o["has_data"] and o["tcode"] is not None]
        if seg.interleaved and len(set(o["nv"] for o in dobjs)) > 1:
            return False
    return True


def expected(segs):
    """reading of the logical file: object order, per-channel (tcode, values), properties (last write wins)"""
    order = []
    props = {}
    chans = {}
    for seg in segs:
        for o in seg.objects:
            p = o["path"]
            if p not in order:
                order.append(p)
                props[p] = {}
            for (name, tcode, value) in o["props"]:
                props[p][name] = (tcode, value)
            if GC[p][1] is not None:
                ent = chans.setdefault(p, {"tcode": None, "items": []})
                if o["has_data"] and o["tcode"] is not None:
                    ent["tcode"] = o["tcode"]
                    for c in o["data"]:
                        ent["items"].extend(c)
    return dict(order=order, props=props, channels=chans)


def channel_bytes(ch):
    """bit-exact little-endian image of what a channel read delivered (or list of str)"""
    raw = ch
    if isinstance(raw, list):
        return list(raw)
    a = np.asarray(raw)
    if a.dtype.kind == "O":
        return list(a)
    if a.dtype.names:                      # TimestampArray: (fractions u64, seconds i64) little-endian records
        out = b""
        for i in range(len(a)):
            out += struct.pack("<Qq", int(a["second_fractions"][i]), int(a["seconds"][i]))
        return out
    return a.astype(a.dtype.newbyteorder("<")).tobytes()
