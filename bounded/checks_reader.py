"""bounded stand-ins: reader side (C01-C06, C09, C15, C19, C20)"""
import io
import os
import random
import sys
import numpy as np
from bounded import gen as G
from bounded import tdmsbuild as B
from bounded.fw import (Result, runner, SEED, BUDGET, TIER, HERE, file_script, read_channels, compare_file,
                         gen_cases, sig_of)

# ---------------------------------------------------------------------------------------------- C01 / C02 / C15

@runner('C01')
def run_C01():
    res = Result("random logical files (<=3 segments, <=3 channels of the 17 types, <=3 chunks of <=3 values, "
                 "contiguous/interleaved, either byte order per segment, properties of 9 types) encoded by an "
                 "independent encoder; distinct = distinct (shape, type) signatures",
                 "<= 3 segments x <= 3 channels x <= 3 chunks x <= 3 values")
    rng = random.Random(SEED)
    for segs in gen_cases(rng, int(1500 * BUDGET)):
        data = G.encode(segs, "explicit")
        exp = G.expected(segs)
        res.case(sig_of(segs), any(o["has_data"] and o["nv"] for s in segs for o in s.objects),
                 {"segments": len(segs), "bytes": len(data), "channels": sorted(exp["channels"])})
        compare_file(res, "c01", data, exp)
    return res


@runner('C02')
def run_C02():
    res = Result("each random logical file is encoded explicitly, incrementally (objects omitted / 'same as "
                 "before' / 'no data') and with metadata-less segments; all encodings must read as the explicit "
                 "content; plus the three forbidden encodings must be rejected",
                 "<= 4 segments x <= 3 channels")
    from nptdms import TdmsFile
    rng = random.Random(SEED + 2)
    for segs in gen_cases(rng, int(1500 * BUDGET), max_segments=4):
        exp = G.expected(segs)
        encs = {st: G.encode(segs, st) for st in ("explicit", "incremental", "nometa")}
        res.case(sig_of(segs), encs["incremental"] != encs["explicit"],
                 {"segments": len(segs), "sizes": {k: len(v) for k, v in encs.items()}})
        for st, data in encs.items():
            compare_file(res, "c02/" + st, data, exp)
    # forbidden encodings
    root = [{"path": "/", "index": "none"}]
    bad = {
        "same-as-before-never-defined": B.enc_segment(root + [{"path": "/'g'/'c'", "index": "same"}], b"\x00" * 4),
        "first-segment-without-metadata": B.enc_segment([], b"\x00" * 4, toc=B.TOC_RAW, meta=False),
        "type-change": B.enc_segment(root + [{"path": "/'g'/'c'", "index": ("full", 3, 1)}], b"\x00" * 4) +
        B.enc_segment(root + [{"path": "/'g'/'c'", "index": ("full", 10, 1)}], b"\x00" * 8),
    }
    for name, data in bad.items():
        res.case(("forbidden", name))
        try:
            TdmsFile.read(io.BytesIO(data))
            res.violation("c02/forbidden-encoding-accepted/" + name, "read without error",
                          file_script(data, "TdmsFile.read(io.BytesIO(data)); sys.exit(1)\n"))
        except Exception:
            pass
    return res


@runner('C15')
def run_C15():
    res = Result("each random logical file is encoded with every segment little-endian, every segment "
                 "big-endian and a mix; all must read as the same content", "<= 3 segments x <= 3 channels")
    rng = random.Random(SEED + 15)
    for segs in gen_cases(rng, int(600 * BUDGET)):
        exp = G.expected(segs)
        for mode in ("little", "big", "mixed"):
            for i, s in enumerate(segs):
                s.big = {"little": False, "big": True, "mixed": i % 2 == 1}[mode]
            data = G.encode(segs, "explicit")
            res.case((mode,) + sig_of(segs), True, {"mode": mode, "bytes": len(data)} if mode == "mixed" else None)
            compare_file(res, "c15/" + mode, data, exp)
    return res


# ---------------------------------------------------------------------------------------------- C03 / C04 / C05

def numeric_cases(rng, n, **kw):
    kw.setdefault("types", [3, 10, 2, 0x44, 0x20, 0x21, 9])
    return gen_cases(rng, n, **kw)


def full_of(c):
    return G.channel_bytes(c)


def eq_arr(a, b):
    if isinstance(a, list) or isinstance(b, list):
        return list(a) == list(b)
    a, b = np.asarray(a), np.asarray(b)
    if a.shape != b.shape:
        return False
    if a.dtype.names or b.dtype.names:
        return G.channel_bytes(a) == G.channel_bytes(b)
    if a.dtype.kind == "O":
        return list(a) == list(b)
    if a.dtype.kind in "fc":
        return a.tobytes() == b.astype(a.dtype).tobytes() if a.dtype == b.dtype else False
    return bool(np.array_equal(a, b))


@runner('C03')
def run_C03():
    from nptdms import TdmsFile
    import tempfile
    res = Result("every access path on random files: read vs open; [:], [...], read_data(), data, iteration, integer "
                 "index, concatenated channel.data_chunks() and TdmsFile.data_chunks() with offsets; memmap_dir; "
                 "raw_timestamps; scaled=False / raw_data", "<= 3 segments x <= 3 channels")
    rng = random.Random(SEED + 3)
    tmpdir = tempfile.mkdtemp(prefix="verif_c03_", dir=os.environ.get("TMPDIR", "/tmp"))
    try:
        for segs in numeric_cases(rng, int(400 * BUDGET)):
            data = G.encode(segs, "explicit")
            for raw_ts in (False, True):
                eager = TdmsFile.read(io.BytesIO(data), raw_timestamps=raw_ts)
                mm = TdmsFile.read(io.BytesIO(data), raw_timestamps=raw_ts, memmap_dir=tmpdir)
                with TdmsFile.open(io.BytesIO(data), raw_timestamps=raw_ts) as lazy:
                    file_chunks = {}
                    offs_ok = True
                    for chunk in lazy.data_chunks():
                        for g in chunk.groups():
                            for cc in g.channels():
                                key = (g.name, cc.name)
                                run = file_chunks.setdefault(key, [])
                                if cc.offset != sum(len(x) for x in run):
                                    offs_ok = False
                                run.append(cc[:])
                    for g in eager.groups():
                        for ce in g.channels():
                            cl = lazy[g.name][ce.name]
                            cm = mm[g.name][ce.name]
                            ref = ce[:]
                            res.case((raw_ts, ce.path, len(ce), sig_of(segs)), len(ce) > 0)
                            paths = {}
                            try:
                                paths["eager.data"] = ce.data
                                paths["eager.read_data()"] = ce.read_data()
                                paths["eager[...]"] = ce[...]
                                paths["eager.iter"] = list(ce)
                                paths["memmap[:]"] = cm[:]
                                paths["lazy[:]"] = cl[:]
                                paths["lazy[...]"] = cl[...]
                                paths["lazy.read_data()"] = cl.read_data()
                                paths["lazy.iter"] = list(cl)
                                paths["lazy.int-index"] = [cl[i] for i in range(len(cl))]
                                chunks = list(cl.data_chunks())
                                paths["lazy.data_chunks"] = [x for c in chunks for x in c[:]]
                                run = 0
                                for c in chunks:
                                    if c.offset != run:
                                        offs_ok = False
                                    run += len(c)
                                paths["file.data_chunks"] = [x for a in file_chunks.get((g.name, ce.name), []) for x in a]
                                paths["eager.read_data(scaled=False)"] = ce.read_data(scaled=False)
                                paths["lazy.read_data(scaled=False)"] = cl.read_data(scaled=False)
                                paths["eager.raw_data"] = ce.raw_data
                            except Exception as e:
                                res.violation("c03/access-path-raised", "%s: %r" % (ce.path, e),
                                              file_script(data, "pass\n"))
                                continue
                            for name, got in paths.items():
                                g2 = np.array(got, dtype=np.asarray(ref).dtype) if isinstance(got, list) and \
                                    np.asarray(ref).dtype.kind not in "OV" and len(got) else got
                                if isinstance(got, list) and len(got) == 0:
                                    ok = len(ref) == 0
                                elif isinstance(got, list) and np.asarray(ref).dtype.names:
                                    ok = [(t.seconds, t.second_fractions) for t in got] == \
                                        [(int(r["seconds"]), int(r["second_fractions"])) for r in np.asarray(ref)]
                                else:
                                    ok = eq_arr(g2, ref)
                                if not ok:
                                    res.violation("c03/" + name, "%s raw_ts=%s: %r vs channel[:] %r" % (ce.path, raw_ts, got, ref),
                                                  file_script(data, "pass\n"))
                    if not offs_ok:
                        res.violation("c03/chunk-offsets", "offset != running count", file_script(data, "pass\n"))
                del mm
    finally:
        import shutil
        shutil.rmtree(tmpdir, ignore_errors=True)
    return res


@runner('C04')
def run_C04():
    from nptdms import TdmsFile
    res = Result("random files; for every channel (len <= 12): every window (offset 0..len+2, length None/0..len+2), "
                 "every slice with start/stop in [-len-2, len+2] or None and step in {None,1,2,3,-1,-2,-3} (and 0 -> "
                 "ValueError), every integer index in [-len-2, len+1], lazy and eager", "channels of <= 12 values; "
                 "exhaustive per channel within the stated ranges")
    rng = random.Random(SEED + 4)
    for segs in numeric_cases(rng, int(60 * BUDGET), types=[3, 10, 0x20], max_segments=4):
        data = G.encode(segs, "explicit")
        eager = TdmsFile.read(io.BytesIO(data))
        with TdmsFile.open(io.BytesIO(data)) as lazy:
            for g in eager.groups():
                for ce in g.channels():
                    full = ce[:]
                    n = len(full)
                    if n > 12:
                        continue
                    cl = lazy[g.name][ce.name]
                    res.case((ce.path, n, sig_of(segs)), n > 0, {"channel": ce.path, "len": n} if n else None)
                    for mode, ch in (("lazy", cl), ("eager", ce)):
                        for off in range(0, n + 3):
                            for ln in [None] + list(range(0, n + 3)):
                                exp = full[off:] if ln is None else full[off:off + ln]
                                try:
                                    got = ch.read_data(off, ln)
                                    ok = eq_arr(got, exp)
                                except Exception as e:
                                    ok, got = False, repr(e)
                                if not ok:
                                    res.violation("c04/%s/read_data" % mode, "%s read_data(%r,%r) -> %r expected %r" %
                                                  (ce.path, off, ln, got, exp),
                                                  file_script(data, "f = TdmsFile.open(io.BytesIO(data)) if %r == 'lazy' else "
                                                                    "TdmsFile.read(io.BytesIO(data))\nprint(f[%r][%r].read_data(%r, %r)); "
                                                                    "sys.exit(1)\n" % (mode, g.name, ce.name, off, ln)))
                        rngv = [None] + list(range(-n - 2, n + 3))
                        for a in rngv:
                            for b in rngv:
                                for st in (None, 1, 2, 3, -1, -2, -3):
                                    exp = full[a:b:st]
                                    try:
                                        got = ch[a:b:st]
                                        ok = eq_arr(got, exp)
                                    except Exception as e:
                                        ok, got = False, repr(e)
                                    if not ok:
                                        res.violation("c04/%s/slice" % mode, "%s [%r:%r:%r] -> %r expected %r" %
                                                      (ce.path, a, b, st, got, exp))
                        try:
                            ch[0:1:0]
                            res.violation("c04/%s/step0" % mode, "no ValueError for step 0")
                        except ValueError:
                            pass
                        except Exception as e:
                            res.violation("c04/%s/step0" % mode, repr(e))
                        for i in range(-n - 2, n + 2):
                            try:
                                exp = full[i]
                                err = None
                            except IndexError:
                                err = IndexError
                            try:
                                got = ch[i]
                                ok = err is None and (got == exp or (got != got and exp != exp))
                            except IndexError:
                                ok = err is IndexError
                            except Exception as e:
                                ok, got = False, repr(e)
                            if not ok:
                                res.violation("c04/%s/index" % mode, "%s [%d]" % (ce.path, i))
    return res


@runner('C05')
def run_C05():
    from nptdms import TdmsFile
    res = Result("random single-threaded interleavings (length <= 12) of integer indexing, slicing, windowed reads "
                 "and next() on live channel.data_chunks() / TdmsFile.data_chunks() generators over the channels of "
                 "a random open file; every result compared with the same operation on a freshly opened file",
                 "<= 3 segments x <= 3 channels; histories of <= 12 operations, <= 3 live generators")
    rng = random.Random(SEED + 5)
    for segs in numeric_cases(rng, int(150 * BUDGET), types=[3, 10, 2], max_chunks=3, max_nv=3):
        data = G.encode(segs, "explicit")
        fresh = TdmsFile.read(io.BytesIO(data))
        chans = [(g.name, c.name) for g in fresh.groups() for c in g.channels()]
        if not chans:
            continue
        with TdmsFile.open(io.BytesIO(data)) as ref:
            ref_chunks = {gc: [c[:] for c in ref[gc[0]][gc[1]].data_chunks()] for gc in chans}
            ref_file_chunks = [{(g.name, c.name): c[:] for g in ch.groups() for c in g.channels()}
                               for ch in ref.data_chunks()]
        for trial in range(3):
            with TdmsFile.open(io.BytesIO(data)) as f:
                gens = []
                hist = []
                bad = None
                for step in range(12):
                    op = rng.choice(["index", "slice", "window", "newgen", "newfilegen", "next", "next"])
                    gc = rng.choice(chans)
                    full = fresh[gc[0]][gc[1]][:]
                    n = len(full)
                    ch = f[gc[0]][gc[1]]
                    try:
                        if op == "index" and n:
                            i = rng.randrange(n)
                            hist.append(("index", gc, i))
                            if not eq_arr(np.array([ch[i]]), np.array([full[i]])):
                                bad = hist[-1]
                        elif op == "slice":
                            a, b = rng.randint(-n - 1, n + 1), rng.randint(-n - 1, n + 1)
                            hist.append(("slice", gc, a, b))
                            if not eq_arr(ch[a:b], full[a:b]):
                                bad = hist[-1]
                        elif op == "window":
                            o, l = rng.randint(0, n + 1), rng.randint(0, n + 1)
                            hist.append(("window", gc, o, l))
                            if not eq_arr(ch.read_data(o, l), full[o:o + l]):
                                bad = hist[-1]
                        elif op == "newgen" and len(gens) < 3:
                            gens.append(("chan", gc, ch.data_chunks(), [0]))
                            hist.append(("newgen", gc))
                        elif op == "newfilegen" and len(gens) < 3:
                            gens.append(("file", None, f.data_chunks(), [0]))
                            hist.append(("newfilegen",))
                        elif op == "next" and gens:
                            kind, g2, gen, pos = rng.choice(gens)
                            hist.append(("next", kind, g2, pos[0]))
                            try:
                                c = next(gen)
                            except StopIteration:
                                exp_n = len(ref_chunks[g2]) if kind == "chan" else len(ref_file_chunks)
                                if pos[0] != exp_n:
                                    bad = hist[-1] + ("ended early",)
                                continue
                            if kind == "chan":
                                if pos[0] >= len(ref_chunks[g2]) or not eq_arr(c[:], ref_chunks[g2][pos[0]]):
                                    bad = hist[-1]
                            else:
                                got = {(g.name, cc.name): cc[:] for g in c.groups() for cc in g.channels()}
                                if pos[0] >= len(ref_file_chunks) or any(
                                        not eq_arr(got[k], ref_file_chunks[pos[0]][k]) for k in got):
                                    bad = hist[-1]
                            pos[0] += 1
                    except Exception as e:
                        bad = (hist[-1] if hist else ()) + (repr(e),)
                    if bad:
                        break
                res.case((tuple(map(str, hist)), sig_of(segs)), len(hist) > 2,
                         {"history": [str(h) for h in hist][:6]} if trial == 0 else None)
                if bad:
                    res.violation("c05/history-dependent-result", "after history %r: %r" % (hist, bad),
                                  file_script(data, "pass\n"))
    return res


