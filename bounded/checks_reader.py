"""bounded stand-ins: reader side (C01-C06, C09, C15, C19, C20)"""
import io
import os
import random
import sys
import numpy as np
from bounded import gen as G
from bounded import tdmsbuild as B
from bounded.fw import (Result, runner, SEED, BUDGET, TIER, HERE, file_script, read_channels, compare_file, compare_lazy,
                         gen_cases, sig_of)

# ---------------------------------------------------------------------------------------------- C01 / C02 / C15

@runner('C01')
def run_C01():
    res = Result("random logical files (<=3 segments, <=3 channels of the 17 types, <=3 chunks of <=3 values, "
                 "contiguous/interleaved, either byte order per segment, properties of 9 types) encoded by an "
                 "independent encoder; distinct = distinct (shape, type) signatures",
                 "<= 3 segments x <= 3 channels x <= 3 chunks x <= 3 values")
    rng = random.Random(SEED)
    for it, segs in enumerate(gen_cases(rng, int(1500 * BUDGET))):
        style = ("explicit", "explicit", "incremental", "nometa")[it % 4]
        data = G.encode(segs, style)
        exp = G.expected(segs)
        res.case(sig_of(segs) + (style,), any(o["has_data"] and o["nv"] for s in segs for o in s.objects),
                 {"segments": len(segs), "bytes": len(data), "channels": sorted(exp["channels"])})
        compare_file(res, "c01", data, exp)
    return res


@runner('C02')
def run_C02():
    res = Result("each random logical file is encoded explicitly, incrementally (objects omitted / 'same as "
                 "before' / 'no data') and with metadata-less segments; all encodings must read as the explicit "
                 "content; plus the three forbidden encodings must be rejected",
                 "<= 4 segments x <= 3 channels")
    from nptdms import TdmsFile
    rng = random.Random(SEED + 2)
    for segs in gen_cases(rng, int(1500 * BUDGET), max_segments=4):
        exp = G.expected(segs)
        encs = {st: G.encode(segs, st) for st in ("explicit", "incremental", "nometa", "restate")}
        res.case(sig_of(segs), encs["incremental"] != encs["explicit"],
                 {"segments": len(segs), "sizes": {k: len(v) for k, v in encs.items()}})
        for st, data in encs.items():
            compare_file(res, "c02/" + st, data, exp)
            compare_lazy(res, "c02/" + st, data, exp)
    # forbidden encodings
    root = [{"path": "/", "index": "none"}]
    bad = {
        "same-as-before-never-defined": B.enc_segment(root + [{"path": "/'g'/'c'", "index": "same"}], b"\x00" * 4),
        "first-segment-without-metadata": B.enc_segment([], b"\x00" * 4, toc=B.TOC_RAW, meta=False),
        "type-change": B.enc_segment(root + [{"path": "/'g'/'c'", "index": ("full", 3, 1)}], b"\x00" * 4) +
        B.enc_segment(root + [{"path": "/'g'/'c'", "index": ("full", 10, 1)}], b"\x00" * 8),
    }
    for name, data in bad.items():
        res.case(("forbidden", name))
        try:
            TdmsFile.read(io.BytesIO(data))
            res.violation("c02/forbidden-encoding-accepted/" + name, "read without error",
                          file_script(data, "TdmsFile.read(io.BytesIO(data)); sys.exit(1)\n"))
        except Exception:
            pass
    return res


@runner('C15')
def run_C15():
    res = Result("each random logical file is encoded with every segment little-endian, every segment "
                 "big-endian and a mix; all must read as the same content", "<= 3 segments x <= 3 channels")
    rng = random.Random(SEED + 15)
    for segs in gen_cases(rng, int(600 * BUDGET)):
        exp = G.expected(segs)
        for mode in ("little", "big", "mixed"):
            for i, s in enumerate(segs):
                s.big = {"little": False, "big": True, "mixed": i % 2 == 1}[mode]
            # byte order is a per-segment flag; an index carried over from a segment of the other byte order
            # ('same as before', omitted object, metadata-less segment) must be applied in THIS segment's order
            for style in ("explicit", "incremental", "nometa"):
                data = G.encode(segs, style)
                res.case((mode, style) + sig_of(segs), True,
                         {"mode": mode, "bytes": len(data)} if (mode, style) == ("mixed", "explicit") else None)
                compare_file(res, "c15/%s/%s" % (mode, style), data, exp)
    return res


# ---------------------------------------------------------------------------------------------- C03 / C04 / C05

def numeric_cases(rng, n, **kw):
    kw.setdefault("types", [3, 10, 2, 0x44, 0x20, 0x21, 9])
    return gen_cases(rng, n, **kw)


def full_of(c):
    return G.channel_bytes(c)


def eq_arr(a, b):
    if isinstance(a, list) or isinstance(b, list):
        return list(a) == list(b)
    a, b = np.asarray(a), np.asarray(b)
    if a.shape != b.shape:
        return False
    if a.dtype.names or b.dtype.names:
        if not (a.dtype.names and b.dtype.names):
            return len(a) == 0 and len(b) == 0
        return G.channel_bytes(a) == G.channel_bytes(b)
    if a.dtype.kind == "V" or b.dtype.kind == "V":
        return len(a) == 0 and len(b) == 0
    if a.dtype.kind == "O":
        return list(a) == list(b)
    if a.dtype.kind in "fc":
        return a.tobytes() == b.astype(a.dtype).tobytes() if a.dtype == b.dtype else False
    return bool(np.array_equal(a, b))


@runner('C03')
def run_C03():
    from nptdms import TdmsFile
    import tempfile
    res = Result("every access path on random files: read vs open; [:], [...], read_data(), data, iteration, integer "
                 "index, concatenated channel.data_chunks() and TdmsFile.data_chunks() with offsets; memmap_dir; "
                 "raw_timestamps; scaled=False / raw_data", "<= 3 segments x <= 3 channels")
    rng = random.Random(SEED + 3)
    tmpdir = tempfile.mkdtemp(prefix="verif_c03_", dir=os.environ.get("TMPDIR", "/tmp"))
    try:
        for segs in numeric_cases(rng, int(400 * BUDGET)):
            data = G.encode(segs, "explicit")
            for raw_ts in (False, True):
                eager = TdmsFile.read(io.BytesIO(data), raw_timestamps=raw_ts)
                mm = TdmsFile.read(io.BytesIO(data), raw_timestamps=raw_ts, memmap_dir=tmpdir)
                with TdmsFile.open(io.BytesIO(data), raw_timestamps=raw_ts) as lazy:
                    file_chunks = {}
                    offs_ok = True
                    for chunk in lazy.data_chunks():
                        for g in chunk.groups():
                            for cc in g.channels():
                                key = (g.name, cc.name)
                                run = file_chunks.setdefault(key, [])
                                if cc.offset != sum(len(x) for x in run):
                                    offs_ok = False
                                run.append(cc[:])
                    for g in eager.groups():
                        for ce in g.channels():
                            cl = lazy[g.name][ce.name]
                            cm = mm[g.name][ce.name]
                            ref = ce[:]
                            res.case((raw_ts, ce.path, len(ce), sig_of(segs)), len(ce) > 0)
                            paths = {}
                            try:
                                paths["eager.data"] = ce.data
                                paths["eager.read_data()"] = ce.read_data()
                                paths["eager[...]"] = ce[...]
                                paths["eager.iter"] = list(ce)
                                paths["memmap[:]"] = cm[:]
                                paths["lazy[:]"] = cl[:]
                                paths["lazy[...]"] = cl[...]
                                paths["lazy.read_data()"] = cl.read_data()
                                paths["lazy.iter"] = list(cl)
                                paths["lazy.int-index"] = [cl[i] for i in range(len(cl))]
                                chunks = list(cl.data_chunks())
                                paths["lazy.data_chunks"] = [x for c in chunks for x in c[:]]
                                run = 0
                                for c in chunks:
                                    if c.offset != run:
                                        offs_ok = False
                                    run += len(c)
                                paths["file.data_chunks"] = [x for a in file_chunks.get((g.name, ce.name), []) for x in a]
                                paths["eager.read_data(scaled=False)"] = ce.read_data(scaled=False)
                                paths["lazy.read_data(scaled=False)"] = cl.read_data(scaled=False)
                                paths["eager.raw_data"] = ce.raw_data
                            except Exception as e:
                                res.violation("c03/access-path-raised", "%s: %r" % (ce.path, e),
                                              file_script(data, "pass\n"))
                                continue
                            for name, got in paths.items():
                                g2 = np.array(got, dtype=np.asarray(ref).dtype) if isinstance(got, list) and \
                                    np.asarray(ref).dtype.kind not in "OV" and len(got) else got
                                if isinstance(got, list) and len(got) == 0:
                                    ok = len(ref) == 0
                                elif isinstance(got, list) and np.asarray(ref).dtype.names:
                                    ok = [(t.seconds, t.second_fractions) for t in got] == \
                                        [(int(r["seconds"]), int(r["second_fractions"])) for r in np.asarray(ref)]
                                else:
                                    ok = eq_arr(g2, ref)
                                if not ok:
                                    res.violation("c03/" + name, "%s raw_ts=%s: %r vs channel[:] %r" % (ce.path, raw_ts, got, ref),
                                                  file_script(data, "pass\n"))
                    if not offs_ok:
                        res.violation("c03/chunk-offsets", "offset != running count", file_script(data, "pass\n"))
                del mm
    finally:
        import shutil
        shutil.rmtree(tmpdir, ignore_errors=True)
    return res


@runner('C04')
def run_C04():
    from nptdms import TdmsFile
    res = Result("random files; for every channel (len <= 12): every window (offset 0..len+2, length None/0..len+2), "
                 "every slice with start/stop in [-len-2, len+2] or None and step in {None,1,2,3,-1,-2,-3} (and 0 -> "
                 "ValueError), every integer index in [-len-2, len+1], lazy and eager", "channels of <= 12 values; "
                 "exhaustive per channel within the stated ranges")
    rng = random.Random(SEED + 4)
    for it, segs in enumerate(numeric_cases(rng, int(90 * BUDGET), types=[3, 10, 0x20], max_segments=4)):
        data = G.encode(segs, "explicit")
        if it % 3 == 2:
            # truncated final chunk: cut inside the last segment's raw data (fixed-width channels only)
            if any(o["tcode"] == 0x20 for s in segs for o in s.objects):
                continue
            last = len(G.seg_data_bytes(segs[-1]))
            if last < 2:
                continue
            data = data[:len(data) - rng.randint(1, last - 1)]
        eager = TdmsFile.read(io.BytesIO(data))
        with TdmsFile.open(io.BytesIO(data)) as lazy:
            for g in eager.groups():
                for ce in g.channels():
                    full = ce[:]
                    n = len(full)
                    if n > 12:
                        continue
                    cl = lazy[g.name][ce.name]
                    res.case((ce.path, n, sig_of(segs)), n > 0, {"channel": ce.path, "len": n} if n else None)
                    for mode, ch in (("lazy", cl), ("eager", ce)):
                        for off in range(0, n + 3):
                            for ln in [None] + list(range(0, n + 3)):
                                exp = full[off:] if ln is None else full[off:off + ln]
                                try:
                                    got = ch.read_data(off, ln)
                                    ok = eq_arr(got, exp)
                                except Exception as e:
                                    ok, got = False, repr(e)
                                if not ok:
                                    res.violation("c04/%s/read_data" % mode, "%s read_data(%r,%r) -> %r expected %r" %
                                                  (ce.path, off, ln, got, exp),
                                                  file_script(data, "f = TdmsFile.open(io.BytesIO(data)) if %r == 'lazy' else "
                                                                    "TdmsFile.read(io.BytesIO(data))\nprint(f[%r][%r].read_data(%r, %r)); "
                                                                    "sys.exit(1)\n" % (mode, g.name, ce.name, off, ln)))
                        rngv = [None] + list(range(-n - 2, n + 3))
                        for a in rngv:
                            for b in rngv:
                                for st in (None, 1, 2, 3, -1, -2, -3):
                                    exp = full[a:b:st]
                                    try:
                                        got = ch[a:b:st]
                                        ok = eq_arr(got, exp)
                                    except Exception as e:
                                        ok, got = False, repr(e)
                                    if not ok:
                                        res.violation("c04/%s/slice" % mode, "%s [%r:%r:%r] -> %r expected %r" %
                                                      (ce.path, a, b, st, got, exp))
                        try:
                            ch[0:1:0]
                            res.violation("c04/%s/step0" % mode, "no ValueError for step 0")
                        except ValueError:
                            pass
                        except Exception as e:
                            res.violation("c04/%s/step0" % mode, repr(e))
                        for i in range(-n - 2, n + 2):
                            try:
                                exp = full[i]
                                err = None
                            except IndexError:
                                err = IndexError
                            try:
                                got = ch[i]
                                ok = err is None and (got == exp or (got != got and exp != exp))
                            except IndexError:
                                ok = err is IndexError
                            except Exception as e:
                                ok, got = False, repr(e)
                            if not ok:
                                res.violation("c04/%s/index" % mode, "%s [%d]" % (ce.path, i))
    return res


@runner('C05')
def run_C05():
    from nptdms import TdmsFile
    res = Result("random single-threaded interleavings (length <= 12) of integer indexing, slicing, windowed reads "
                 "and next() on live channel.data_chunks() / TdmsFile.data_chunks() generators over the channels of "
                 "a random open file; every result compared with the same operation on a freshly opened file",
                 "<= 3 segments x <= 3 channels; histories of <= 12 operations, <= 3 live generators")
    rng = random.Random(SEED + 5)
    for segs in numeric_cases(rng, int(150 * BUDGET), types=[3, 10, 2], max_chunks=3, max_nv=3):
        data = G.encode(segs, "explicit")
        fresh = TdmsFile.read(io.BytesIO(data))
        chans = [(g.name, c.name) for g in fresh.groups() for c in g.channels()]
        if not chans:
            continue
        with TdmsFile.open(io.BytesIO(data)) as ref:
            ref_chunks = {gc: [c[:] for c in ref[gc[0]][gc[1]].data_chunks()] for gc in chans}
            ref_file_chunks = [{(g.name, c.name): c[:] for g in ch.groups() for c in g.channels()}
                               for ch in ref.data_chunks()]
        for trial in range(3):
            with TdmsFile.open(io.BytesIO(data)) as f:
                gens = []
                hist = []
                bad = None
                for step in range(12):
                    op = rng.choice(["index", "index", "slice", "window", "newgen", "newfilegen", "next", "next"])
                    gc = rng.choice(chans)
                    full = fresh[gc[0]][gc[1]][:]
                    n = len(full)
                    ch = f[gc[0]][gc[1]]
                    try:
                        if op == "index" and n:
                            i = rng.randrange(-n, n)          # negative indices count from the end
                            hist.append(("index", gc, i))
                            if not eq_arr(np.array([ch[i]]), np.array([full[i]])):
                                bad = hist[-1]
                        elif op == "slice":
                            a, b = rng.randint(-n - 1, n + 1), rng.randint(-n - 1, n + 1)
                            hist.append(("slice", gc, a, b))
                            if not eq_arr(ch[a:b], full[a:b]):
                                bad = hist[-1]
                        elif op == "window":
                            o, l = rng.randint(0, n + 1), rng.randint(0, n + 1)
                            hist.append(("window", gc, o, l))
                            if not eq_arr(ch.read_data(o, l), full[o:o + l]):
                                bad = hist[-1]
                        elif op == "newgen" and len(gens) < 3:
                            gens.append(("chan", gc, ch.data_chunks(), [0]))
                            hist.append(("newgen", gc))
                        elif op == "newfilegen" and len(gens) < 3:
                            gens.append(("file", None, f.data_chunks(), [0]))
                            hist.append(("newfilegen",))
                        elif op == "next" and gens:
                            kind, g2, gen, pos = rng.choice(gens)
                            hist.append(("next", kind, g2, pos[0]))
                            try:
                                c = next(gen)
                            except StopIteration:
                                exp_n = len(ref_chunks[g2]) if kind == "chan" else len(ref_file_chunks)
                                if pos[0] != exp_n:
                                    bad = hist[-1] + ("ended early",)
                                continue
                            if kind == "chan":
                                if pos[0] >= len(ref_chunks[g2]) or not eq_arr(c[:], ref_chunks[g2][pos[0]]):
                                    bad = hist[-1]
                            else:
                                got = {(g.name, cc.name): cc[:] for g in c.groups() for cc in g.channels()}
                                if pos[0] >= len(ref_file_chunks) or any(
                                        not eq_arr(got[k], ref_file_chunks[pos[0]][k]) for k in got):
                                    bad = hist[-1]
                            pos[0] += 1
                    except Exception as e:
                        bad = (hist[-1] if hist else ()) + (repr(e),)
                    if bad:
                        break
                res.case((tuple(map(str, hist)), sig_of(segs)), len(hist) > 2,
                         {"history": [str(h) for h in hist][:6]} if trial == 0 else None)
                if bad:
                    res.violation("c05/history-dependent-result", "after history %r: %r" % (hist, bad),
                                  file_script(data, "pass\n"))
    _check_index_helpers(res, rng)
    return res




# ---------------------------------------------------------------------------------------------- C06

def _segment_bounds(segs, data_len):
    """(start, data_position, end) of each segment of the explicit encoding, recomputed from the bytes"""
    return None


@runner("C06")
def run_C06():
    from nptdms import TdmsFile
    import struct
    res = Result("random files (fixed-width types; strings only in single-chunk segments) cut at every byte offset "
                 "from 4 to the file length, read eagerly and lazily, with an explicit next-segment offset and with "
                 "the 0xFFFFFFFFFFFFFFFF marker in the last lead-in", "<= 3 segments x <= 3 channels; every cut "
                                                                      "offset of every file (exhaustive per file)")
    rng = random.Random(SEED + 6)
    n_files = int(25 * BUDGET)
    for segs in gen_cases(rng, n_files, types=[3, 10, 2, 0x44, 0x21], max_chunks=3, max_nv=3):
        for unknown in (False, True):
            data = G.encode(segs, "explicit", unknown_last=unknown)
            full = TdmsFile.read(io.BytesIO(G.encode(segs, "explicit")))
            fullv = {c.path: c[:] for g in full.groups() for c in g.channels()}
            # segment layout from the bytes (lead-in fields)
            bounds = []
            pos = 0
            while pos + 28 <= len(data):
                toc = struct.unpack("<l", data[pos + 4:pos + 8])[0]
                o = ">" if toc & 64 else "<"
                (_, no, ro) = struct.unpack(o + "lQQ", data[pos + 8:pos + 28])
                end = len(data) if no == 0xFFFFFFFFFFFFFFFF else pos + 28 + no
                bounds.append((pos, pos + 28 + ro, end))
                pos = end
            # values of segments lying wholly before a cut
            per_seg = []
            for s in segs:
                d = {}
                for o in s.objects:
                    if o["has_data"] and o["tcode"] is not None:
                        d[o["path"]] = sum(len(c) for c in o["data"])
                per_seg.append(d)
            for cut in range(4, len(data) + 1):
                piece = data[:cut]
                res.case((cut, unknown, sig_of(segs)), True, {"cut": cut, "of": len(data)} if cut == 30 else None)
                try:
                    e = TdmsFile.read(io.BytesIO(piece))
                    with TdmsFile.open(io.BytesIO(piece)) as l:
                        lazyv = {c.path: c[:] for g in l.groups() for c in g.channels()}
                        lens = {c.path: len(c) for g in l.groups() for c in g.channels()}
                except Exception as ex:
                    res.violation("c06/read-of-cut-file-raised", "cut %d of %d (unknown=%s): %r" % (cut, len(data), unknown, ex),
                                  file_script(piece, "TdmsFile.read(io.BytesIO(data))\n"))
                    continue
                eagerv = {c.path: c[:] for g in e.groups() for c in g.channels()}
                for p, v in eagerv.items():
                    fv = fullv.get(p)
                    if fv is None:
                        res.violation("c06/invented-channel", p)
                        continue
                    if not eq_arr(v, fv[:len(v)]):
                        res.violation("c06/not-a-prefix", "cut %d: %s got %r full %r" % (cut, p, v, fv),
                                      file_script(piece, "pass\n"))
                    if lens.get(p) != len(v) or not eq_arr(lazyv.get(p), v):
                        res.violation("c06/lazy-eager-or-len-disagree", "cut %d: %s len %r eager %r lazy %r" %
                                      (cut, p, lens.get(p), v, lazyv.get(p)), file_script(piece, "pass\n"))
                    whole = sum(per_seg[i].get(p, 0) for i, b in enumerate(bounds) if b[2] <= cut)
                    if len(v) < whole:
                        res.violation("c06/lost-values-of-complete-segments", "cut %d: %s has %d < %d" % (cut, p, len(v), whole))
                inside = any(b[1] <= cut < b[2] for b in bounds)
                if unknown and bounds and cut >= bounds[-1][1]:
                    inside = True        # a segment of unknown length is incomplete by definition
                if bool(e.file_status.incomplete_final_segment) != inside:
                    # a cut exactly at a declared end with the unknown marker is always 'inside' until EOF
                    res.violation("c06/status-flag", "cut %d bounds %r: incomplete=%r expected %r" %
                                  (cut, bounds, e.file_status.incomplete_final_segment, inside),
                                  file_script(piece, "print(TdmsFile.read(io.BytesIO(data)).file_status.incomplete_final_segment)\n"))
    return res


# ---------------------------------------------------------------------------------------------- C09

@runner("C09")
def run_C09():
    from nptdms import TdmsFile
    import tempfile
    import shutil
    res = Result("random files written to a temp dir with and without a .tdms_index produced by the independent "
                 "encoder (same segments, raw data dropped, TDSh tag): read / open / read_metadata with and without "
                 "the index must agree; the index alone gives objects, properties, types, lengths and refuses data",
                 "<= 3 segments x <= 3 channels")
    rng = random.Random(SEED + 9)
    tmp = tempfile.mkdtemp(prefix="verif_c09_", dir=os.environ.get("TMPDIR", "/tmp"))
    try:
        k = 0
        for segs in gen_cases(rng, int(150 * BUDGET), types=[3, 10, 0x20, 0x44, 2]):
            k += 1
            for style in ("explicit", "incremental"):
                data = G.encode(segs, style)
                index = G.encode(segs, style, tag=b"TDSh", with_data=False)
                d1 = os.path.join(tmp, "a%d" % k)
                d2 = os.path.join(tmp, "b%d" % k)
                os.makedirs(d1, exist_ok=True)
                os.makedirs(d2, exist_ok=True)
                open(os.path.join(d1, "f.tdms"), "wb").write(data)
                open(os.path.join(d2, "f.tdms"), "wb").write(data)
                open(os.path.join(d2, "f.tdms_index"), "wb").write(index)
                res.case((style, sig_of(segs)), True, {"data": len(data), "index": len(index)} if k == 1 else None)

                def snapshot(tf, with_data):
                    out = {"root": dict(tf.properties), "groups": []}
                    for g in tf.groups():
                        out["groups"].append((g.name, sorted(g.properties.items(), key=str),
                                              [(c.name, len(c), str(c.dtype), sorted(c.properties.items(), key=str),
                                                (G.channel_bytes(c[:]) if with_data else None)) for c in g.channels()]))
                    return out
                try:
                    a = snapshot(TdmsFile.read(os.path.join(d1, "f.tdms")), True)
                    b = snapshot(TdmsFile.read(os.path.join(d2, "f.tdms")), True)
                    if repr(a) != repr(b):
                        res.violation("c09/read-differs-with-index", "style %s" % style)
                    with TdmsFile.open(os.path.join(d1, "f.tdms")) as f1, TdmsFile.open(os.path.join(d2, "f.tdms")) as f2:
                        if repr(snapshot(f1, True)) != repr(snapshot(f2, True)):
                            res.violation("c09/open-differs-with-index", "style %s" % style)
                    m1 = snapshot(TdmsFile.read_metadata(os.path.join(d1, "f.tdms")), False)
                    m2 = snapshot(TdmsFile.read_metadata(os.path.join(d2, "f.tdms")), False)
                    if repr(m1) != repr(m2):
                        res.violation("c09/read_metadata-differs-with-index", "style %s" % style)
                    io_only = TdmsFile.read(os.path.join(d2, "f.tdms_index"))
                    m3 = snapshot(io_only, False)
                    if repr(m3) != repr(m1):
                        res.violation("c09/index-only-metadata-differs", "style %s: %r vs %r" % (style, m3, m1))
                    for g in io_only.groups():
                        for c in g.channels():
                            if len(c) == 0:
                                continue
                            for name, fn in (("read_data", lambda: c.read_data()), ("[:]", lambda: c[:]),
                                             ("[0]", lambda: c[0]), ("data_chunks", lambda: list(c.data_chunks()))):
                                try:
                                    fn()
                                    res.violation("c09/index-only-returned-data", "%s via %s" % (c.path, name))
                                except Exception:
                                    pass
                except Exception as e:
                    res.violation("c09/raised", "style %s: %r" % (style, e))
                shutil.rmtree(d1, ignore_errors=True)
                shutil.rmtree(d2, ignore_errors=True)
        # index-only with unknown-length marker (recorded finding)
        segs = next(gen_cases(random.Random(1), 1, types=[3]))
        idx = G.encode(segs, "explicit", tag=b"TDSh", with_data=False, unknown_last=True)
        try:
            TdmsFile.read(io.BytesIO(idx))
        except TypeError as e:
            res.violation("read_lead_in[index,nosize,bounded]/index-only-lead-in-never-TypeError",
                          "index-only open with unknown-length marker: %r" % (e,))
        except Exception:
            pass
    finally:
        shutil.rmtree(tmp, ignore_errors=True)
    return res


# ---------------------------------------------------------------------------------------------- C19

class Recorder(io.BytesIO):
    def __init__(self, data):
        io.BytesIO.__init__(self, data)
        self.log = []

    def read(self, n=-1):
        p = self.tell()
        b = io.BytesIO.read(self, n)
        self.log.append((p, len(b)))
        return b

    def readinto(self, buf):
        p = self.tell()
        n = io.BytesIO.readinto(self, buf)
        self.log.append((p, n))
        return n


def _check_index_helpers(res, rng):
    """function-level runtime contract of reader._array_equal / _deduplicate_array (the offset index of a channel is
    shared with an earlier channel's only if the arrays are equal): arrays up to 350 entries, differing at a
    random position or not at all"""
    from nptdms import reader as R
    for it in range(int(300 * BUDGET)):
        n = rng.choice([0, 1, 5, 99, 100, 101, 150, 200, 201, 350])
        a = np.cumsum(np.array([rng.randint(0, 3) for _ in range(n)], dtype=np.int64))
        b = a.copy()
        if n and rng.random() < 0.6:
            b[rng.randrange(n):] += 1
        if rng.random() < 0.15:
            b = b[:-1] if n else np.array([1], dtype=np.int64)
        want = len(a) == len(b) and bool(np.array_equal(a, b))
        res.case(("array_equal", n, it), True)
        got = R._array_equal(a, b)
        if bool(got) != want:
            res.violation("c05/index-arrays-compared-equal-but-differ" if got else "c05/equal-index-arrays-compared-unequal",
                          "len %d/%d: _array_equal -> %r, arrays equal: %r" % (len(a), len(b), got, want))
        d = R._deduplicate_array(b, [a])
        if not np.array_equal(d, b):
            res.violation("c05/deduplicated-index-differs", "len %d: index replaced by an unequal one" % len(b))


@runner("C19")
def run_C19():
    from nptdms import TdmsFile
    import struct
    res = Result("contiguous random files opened through a recording stream: for every window / index the bytes "
                 "fetched must lie in the requested channel's bytes of the chunks overlapping the request plus the "
                 "4 tag bytes of each segment between the first and last needed; a repeated index into the cached "
                 "chunk fetches nothing", "<= 3 segments x <= 3 channels x <= 3 chunks; all windows of channels "
                                          "with <= 10 values")
    rng = random.Random(SEED + 19)
    for it, segs in enumerate(gen_cases(rng, int(90 * BUDGET), types=[3, 10, 2], allow_interleaved=False, max_chunks=3)):
        data = G.encode(segs, "explicit")
        if it % 3 == 2:
            # file cut inside the last segment's raw data: its final chunk is truncated
            last = len(G.seg_data_bytes(segs[-1]))
            if last < 2:
                continue
            data = data[:len(data) - rng.randint(1, last - 1)]
        # address map from the model: per channel, list of (value index range, byte range) per chunk
        amap = {}
        tags = []
        pos = 0
        for s in segs:
            toc = struct.unpack("<l", data[pos + 4:pos + 8])[0]
            o = ">" if toc & 64 else "<"
            (_, no, ro) = struct.unpack(o + "lQQ", data[pos + 8:pos + 28])
            dpos = pos + 28 + ro
            tags.append((pos, pos + 4))
            dobjs = [ob for ob in s.objects if ob["has_data"] and ob["tcode"] is not None]
            csize = sum(ob["nv"] * G.WIDTH[ob["tcode"]] for ob in dobjs)
            if csize:
                for c in range(s.nchunks):
                    off = dpos + c * csize
                    for ob in dobjs:
                        w = G.WIDTH[ob["tcode"]]
                        ent = amap.setdefault(ob["path"], {"n": 0, "chunks": []})
                        if off + ob["nv"] * w > len(data) and off - (off - dpos) % csize + csize <= len(data):
                            raise AssertionError("address map: cut outside the final chunk")
                        have = max(0, min(off + ob["nv"] * w, len(data)) - off) // w
                        if c * csize + dpos >= len(data):
                            have = 0
                        if have:
                            ent["chunks"].append((ent["n"], ent["n"] + have, off, off + ob["nv"] * w, len(tags) - 1))
                        ent["n"] += have
                        off += ob["nv"] * w
            pos = pos + 28 + no
        rec = Recorder(data)
        with TdmsFile.open(rec) as f:
            for g in f.groups():
                for ch in g.channels():
                    ent = amap.get(ch.path)
                    n = len(ch)
                    if ent is None or n == 0 or n > 10:
                        continue
                    if n != ent["n"]:
                        res.violation("c19/model-length", "%s: len %d, address map %d" % (ch.path, n, ent["n"]),
                                      file_script(data, "pass\n"))
                        continue
                    for off in range(0, n):
                        for ln in range(1, n - off + 1):
                            rec.log = []
                            try:
                                ch.read_data(off, ln)
                            except Exception as e:
                                res.violation("c19/windowed-read-raised", "%s read_data(%d,%d): %r" % (ch.path, off, ln, e),
                                              file_script(data, "TdmsFile.open(io.BytesIO(data))[%r][%r].read_data(%d, %d)\n"
                                                          % (g.name, ch.name, off, ln)))
                                continue
                            res.case((ch.path, off, ln, sig_of(segs)), True,
                                     {"window": [off, ln], "reads": rec.log[:4]} if off == 0 and ln == 1 else None)
                            need = [c for c in ent["chunks"] if c[0] < off + ln and c[1] > off]
                            segs_touched = sorted(set(c[4] for c in need))
                            allowed = [(c[2], c[3]) for c in need] + \
                                      [tags[i] for i in range(segs_touched[0], segs_touched[-1] + 1)]
                            for (p, k) in rec.log:
                                if k and not any(a <= p and p + k <= b for (a, b) in allowed):
                                    res.violation("c19/read-outside-the-requested-chunks",
                                                  "%s read_data(%d,%d) fetched [%d,%d) allowed %r" % (ch.path, off, ln, p, p + k, allowed),
                                                  file_script(data, "pass\n"))
                    # cache: second index into the same chunk fetches nothing
                    ch[0]
                    rec.log = []
                    ch[0]
                    if any(k for (_, k) in rec.log):
                        res.violation("c19/cache-hit-fetched-bytes", "%s: %r" % (ch.path, rec.log))
    return res


# ---------------------------------------------------------------------------------------------- C20

def open_fds():
    try:
        return set(os.listdir("/proc/self/fd"))
    except OSError:
        return set()


@runner("C20")
def run_C20():
    from nptdms import TdmsFile, TdmsWriter, ChannelObject
    import tempfile
    import shutil
    res = Result("files on disk (good, bad tag, truncated metadata, unknown type, mismatching index) x {path, stream} x "
                 "{with, without index}: descriptor table (/proc/self/fd) before and after read / read_metadata / "
                 "open+close / with-block / writer with-block (also failing); caller streams stay open; reads after "
                 "close raise; close twice", "5 file kinds x 2 index x 2 source kinds x 6 operations")
    tmp = tempfile.mkdtemp(prefix="verif_c20_", dir=os.environ.get("TMPDIR", "/tmp"))
    try:
        segs = next(gen_cases(random.Random(SEED + 20), 1, types=[3, 10]))
        good = G.encode(segs, "explicit")
        idx = G.encode(segs, "explicit", tag=b"TDSh", with_data=False)
        kinds = {
            "good": good,
            "bad-tag": b"XXXX" + good[4:],
            "truncated-metadata": good[:40],
            "unknown-type": B.enc_segment([{"path": "/'g'/'c'", "index": ("raw", __import__("struct").pack("<LLLQ", 20, 0x99, 1, 1))}], b"\x00" * 4),
            "second-segment-bad-tag": good + b"XXXX" + good[4:],
        }
        for kind, data in kinds.items():
            for with_index in (False, True):
                d = os.path.join(tmp, "%s_%s" % (kind, with_index))
                os.makedirs(d)
                path = os.path.join(d, "f.tdms")
                open(path, "wb").write(data)
                if with_index:
                    open(path + "_index", "wb").write(idx if kind != "bad-tag" else b"XXXX" + idx[4:])
                for op in ("read", "read_metadata", "open-close", "with", "open-read-close-read-close"):
                    before = open_fds()
                    res.case((kind, with_index, op), True, {"kind": kind, "index": with_index, "op": op})
                    tf = None
                    try:
                        if op == "read":
                            TdmsFile.read(path)
                        elif op == "read_metadata":
                            TdmsFile.read_metadata(path)
                        elif op == "open-close":
                            tf = TdmsFile.open(path)
                            tf.close()
                            tf.close()
                        elif op == "with":
                            with TdmsFile.open(path) as tf:
                                for g in tf.groups():
                                    for c in g.channels():
                                        c[:]
                        else:
                            tf = TdmsFile.open(path)
                            chans = [c for g in tf.groups() for c in g.channels() if len(c)]
                            if chans:
                                chans[0][:]
                            tf.close()
                            for c in chans:
                                try:
                                    c.read_data()
                                    res.violation("c20/read-after-close-returned-data", "%s %s" % (kind, c.path))
                                except Exception:
                                    pass
                            tf.close()
                    except Exception:
                        pass
                    after = open_fds()
                    if after - before:
                        res.violation("c20/descriptor-left-open", "%s index=%s op=%s: %r" % (kind, with_index, op, sorted(after - before)))
            # caller-supplied stream is never closed
            for op in ("read", "open-close"):
                s = io.BytesIO(data)
                try:
                    if op == "read":
                        TdmsFile.read(s)
                    else:
                        TdmsFile.open(s).close()
                except Exception:
                    pass
                res.case((kind, "stream", op))
                if s.closed:
                    res.violation("c20/caller-stream-closed", "%s %s" % (kind, op))
        # writer
        for fail in (False, True):
            for with_index in (False, True):
                before = open_fds()
                p = os.path.join(tmp, "w_%s_%s.tdms" % (fail, with_index))
                try:
                    with TdmsWriter(p, index_file=with_index) as w:
                        w.write_segment([ChannelObject("g", "c", np.arange(3))])
                        if fail:
                            w.write_segment([ChannelObject("g", "c", np.zeros((2, 2)))])
                except Exception:
                    pass
                res.case(("writer", fail, with_index))
                if open_fds() - before:
                    res.violation("c20/writer-descriptor-left-open", "fail=%s index=%s" % (fail, with_index))
            s = io.BytesIO()
            try:
                with TdmsWriter(s) as w:
                    w.write_segment([ChannelObject("g", "c", np.arange(3))])
            except Exception:
                pass
            if s.closed:
                res.violation("c20/writer-closed-caller-stream", "")
    finally:
        shutil.rmtree(tmp, ignore_errors=True)
    return res
