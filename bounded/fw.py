"""Bounded stand-ins (runtime contracts on the real code over enumerated / sampled small inputs).
usage: /venv/bin/python bounded/run.py <PROPERTY>   (env VERIF_TIER, VERIF_SEED)
Prints one JSON line: evaluations, distinct_nontrivial, rule, bound, samples, violations[{key, detail, script}].
Labelled bounded: never counted as proved."""
import io
import json
import os
import random
import sys
import time
import traceback
import warnings

HERE = os.path.dirname(os.path.dirname(os.path.abspath(__file__)))
sys.path.insert(0, HERE)
warnings.filterwarnings("ignore")
import logging
logging.disable(logging.CRITICAL)
import numpy as np
from bounded import gen as G
from bounded import tdmsbuild as B

TIER = os.environ.get("VERIF_TIER", "quick")
SEED = int(os.environ.get("VERIF_SEED", "0"))
BUDGET = {"quick": 1.0, "thorough": 8.0}.get(TIER, 1.0)


class Result(object):
    def __init__(self, rule, bound):
        self.evaluations = 0
        self.distinct = set()
        self.rule = rule
        self.bound = bound
        self.samples = []
        self.violations = []
        self.keys = set()

    def case(self, sig, nontrivial=True, sample=None):
        self.evaluations += 1
        if nontrivial:
            self.distinct.add(sig)
        if sample is not None and len(self.samples) < 3:
            self.samples.append(sample)

    def violation(self, key, detail, script=None):
        if key in self.keys:
            return
        self.keys.add(key)
        self.violations.append({"key": key, "detail": str(detail)[:1500], "script": script})

    def emit(self):
        print(json.dumps({"evaluations": self.evaluations, "distinct_nontrivial": len(self.distinct),
                          "rule": self.rule, "bound": self.bound, "samples": self.samples,
                          "violations": self.violations, "exhaustive": getattr(self, "exhaustive", False)}))


def file_script(data, body):
    return ("import io, sys, numpy as np\nsys.path.insert(0, %r)\nfrom nptdms import TdmsFile\ndata = %r\n" % (HERE, data)) + body


def read_channels(tf, raw_timestamps=True):
    out = {}
    for g in tf.groups():
        for c in g.channels():
            out[c.path] = c
    return out


def compare_file(res, tag, data, exp, **kw):
    """C01-style contract on TdmsFile.read: order, values bit-exact, dtype, properties"""
    from nptdms import TdmsFile
    try:
        tf = TdmsFile.read(io.BytesIO(data), raw_timestamps=True, **kw)
    except Exception as e:
        res.violation(tag + "/read-raised", "%r on %d-byte file" % (e, len(data)),
                      file_script(data, "TdmsFile.read(io.BytesIO(data))\n"))
        return None
    def is_group(p):
        return G.GC[p][0] is not None and G.GC[p][1] is None

    def is_chan(p):
        return G.GC[p][1] is not None
    groups_decl = [p for p in exp["order"] if is_group(p)]
    via = []
    for p in exp["order"]:
        if is_chan(p):
            gp = G.enc_path(G.GC[p][0])
            if gp not in groups_decl and gp not in via:
                via.append(gp)
    exp_groups = groups_decl + via
    got_groups = [g.path for g in tf.groups()]
    if got_groups != exp_groups:
        res.violation(tag + "/group-order", "expected %r got %r" % (exp_groups, got_groups),
                      file_script(data, "print([g.path for g in TdmsFile.read(io.BytesIO(data)).groups()]); sys.exit(1)\n"))
    for g in tf.groups():
        exp_ch = [p for p in exp["order"] if is_chan(p) and G.enc_path(G.GC[p][0]) == g.path]
        if g.name != G.GC[g.path][0] if g.path in G.GC else True:
            res.violation(tag + "/group-name", "%r has name %r" % (g.path, g.name))
        got = [c.path for c in g.channels()]
        if got != exp_ch:
            res.violation(tag + "/channel-order", "group %s expected %r got %r" % (g.path, exp_ch, got))
    chans = read_channels(tf)
    for p, ent in exp["channels"].items():
        if p not in chans:
            res.violation(tag + "/missing-channel", p)
            continue
        c = chans[p]
        want = G.expected_array(ent["tcode"], ent["items"]) if ent["tcode"] is not None else b""
        try:
            got = G.channel_bytes(c[:])
        except Exception as e:
            res.violation(tag + "/channel-read-raised", "%s: %r" % (p, e))
            continue
        n = len(ent["items"])
        if len(c) != n:
            res.violation(tag + "/length", "%s len %d expected %d" % (p, len(c), n))
        if (got if isinstance(got, list) else bytes(got)) != (want if isinstance(want, list) else bytes(want)):
            if not (ent["tcode"] is None and len(got) == 0):
                res.violation(tag + "/values", "%s type %r: got %r expected %r" % (p, ent["tcode"], got[:40], want[:40]),
                              file_script(data, "f = TdmsFile.read(io.BytesIO(data), raw_timestamps=True)\n"
                                                "print(f[%r][%r][:]); sys.exit(1)\n" % (c.group_name, c.name)))
        if ent["tcode"] in G.NP and n:
            if np.asarray(c[:]).dtype != np.dtype(G.NP[ent["tcode"]]):
                res.violation(tag + "/dtype", "%s dtype %s expected %s" % (p, np.asarray(c[:]).dtype, G.NP[ent["tcode"]]))
    # properties: last value written
    objs = {"/": tf.properties}
    for g in tf.groups():
        objs[g.path] = g.properties
        for c in g.channels():
            objs[c.path] = c.properties
    for p, pr in exp["props"].items():
        if p not in objs:
            if pr:
                res.violation(tag + "/missing-object", p)
            continue
        got = dict(objs[p])
        if sorted(got.keys()) != sorted(pr.keys()):
            res.violation(tag + "/property-names", "%s: %r vs %r" % (p, sorted(got), sorted(pr)))
            continue
        for name, (tcode, value) in pr.items():
            g = got[name]
            if tcode == 0x44:
                ok = (g.seconds, g.second_fractions) == tuple(value)
            elif tcode in (9, 10):
                ok = float(g) == float(value)
            else:
                ok = g == value
            if not ok:
                res.violation(tag + "/property-value", "%s.%s got %r expected %r" % (p, name, g, value))
    return tf


def gen_cases(rng, n, **kw):
    made = 0
    tries = 0
    while made < n and tries < n * 20:
        tries += 1
        segs = G.random_logical(rng, **kw)
        if not G.valid(segs):
            continue
        made += 1
        yield segs


def sig_of(segs):
    return tuple((s.nchunks, s.big, s.interleaved, tuple((o["path"], o["tcode"], o["nv"], o["has_data"])
                                                         for o in s.objects)) for s in segs)


RUNNERS = {}


def runner(prop):
    def deco(f):
        RUNNERS[prop] = f
        return f
    return deco




def compare_lazy(res, tag, data, exp):
    """the same content through the lazy reader: per-channel offset index, chunk arithmetic and the path index of
    every segment (SegmentIndexCache) are only exercised by TdmsFile.open"""
    from nptdms import TdmsFile
    try:
        with TdmsFile.open(io.BytesIO(data), raw_timestamps=True) as tf:
            chans = read_channels(tf)
            for p, ent in exp["channels"].items():
                if p not in chans or ent["tcode"] is None:
                    continue
                c = chans[p]
                want = G.expected_array(ent["tcode"], ent["items"])
                n = len(ent["items"])
                script = file_script(data, "c = [c for g in TdmsFile.open(io.BytesIO(data)).groups() for c in g.channels() "
                                           "if c.path == %r][0]\nprint(len(c), c[:]); sys.exit(1)\n" % p)
                try:
                    got = G.channel_bytes(c[:])
                    chunks = [x for ch in c.data_chunks() for x in [G.channel_bytes(ch[:])]]
                    last = G.channel_bytes(c.read_data(max(n - 1, 0), 1)) if n else None
                except Exception as e:
                    res.violation(tag + "/lazy-read-raised", "%s: %r" % (p, e), script)
                    continue
                if len(c) != n:
                    res.violation(tag + "/lazy-length", "%s len %d expected %d" % (p, len(c), n), script)
                w = want if isinstance(want, list) else bytes(want)
                if (got if isinstance(got, list) else bytes(got)) != w:
                    res.violation(tag + "/lazy-values", "%s type %r: got %r expected %r" % (p, ent["tcode"], got[:40], want[:40]), script)
                cat = [y for x in chunks for y in x] if isinstance(want, list) else b"".join(bytes(x) for x in chunks)
                if cat != w:
                    res.violation(tag + "/lazy-chunk-stream", "%s: concatenated data_chunks() differ from the content" % p, script)
                if n and not isinstance(want, list):
                    width = len(w) // n
                    if bytes(last) != w[(n - 1) * width:]:
                        res.violation(tag + "/lazy-last-value", "%s: read_data(n-1, 1) differs" % p, script)
    except Exception as e:
        res.violation(tag + "/lazy-open-raised", "%r on %d-byte file" % (e, len(data)),
                      file_script(data, "TdmsFile.open(io.BytesIO(data))\n"))
