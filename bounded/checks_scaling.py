"""bounded stand-ins: scaling, DAQmx (C11, C13, C14, C17, C18)"""
import io
import json
import math
import os
import random
import struct
import sys
import numpy as np
from bounded import gen as G
from bounded import tdmsbuild as B
from bounded.fw import Result, runner, SEED, BUDGET, TIER, HERE, file_script
from bounded.checks_reader import eq_arr

DAQ_TYPES = {0: ("u1", 1), 1: ("i1", 1), 2: ("u2", 2), 3: ("i2", 2), 4: ("u4", 4), 5: ("i4", 4), 6: ("u8", 8),
             7: ("i8", 8), 8: ("f4", 4), 9: ("f8", 8)}


def img(a):
    a = np.asarray(a)
    return a.astype(a.dtype.newbyteorder("=")).tobytes()


def daqmx_file(rng, digital=False, cut=None):
    """-> (bytes, expected {path: {scale_id: ndarray}}, info)"""
    big = rng.random() < 0.4
    o = ">" if big else "<"
    nb = rng.randint(1, 2)
    widths = [rng.randint(2, 10) for _ in range(nb)]
    lengths = [rng.randint(1, 4) for _ in range(nb)]
    nchunks = rng.randint(1, 3)
    chans = []
    for ci in range(rng.randint(1, 3)):
        b = rng.randrange(nb)
        scalers = []
        for si in range(rng.randint(1, 2)):
            if digital:
                tcode = 0
                size = 1
                byte = rng.randrange(widths[b])
                bit = rng.randrange(8)
                scalers.append(dict(t=tcode, buf=b, off=byte * 8 + bit, sid=si, size=size))
            else:
                tcode = rng.choice(list(DAQ_TYPES))
                size = DAQ_TYPES[tcode][1]
                if size > widths[b]:
                    tcode, size = 0, 1
                off = rng.randrange(widths[b] - size + 1)
                scalers.append(dict(t=tcode, buf=b, off=off, sid=si, size=size))
        chans.append(dict(path="/'g'/'d%d'" % ci, buf=b, scalers=scalers))
    objs = [{"path": "/", "index": "none"}, {"path": "/'g'", "index": "none"}]
    for c in chans:
        ix = struct.pack(o + "L", 0x126A if digital else 0x1269)
        ix += struct.pack(o + "LLQL", 0xFFFFFFFF, 1, lengths[c["buf"]], len(c["scalers"]))
        for s in c["scalers"]:
            if digital:
                ix += struct.pack(o + "LLLBL", s["t"], s["buf"], s["off"], 0, s["sid"])
            else:
                ix += struct.pack(o + "LLLLL", s["t"], s["buf"], s["off"], 0, s["sid"])
        ix += struct.pack(o + "L", nb) + b"".join(struct.pack(o + "L", w) for w in widths)
        objs.append({"path": c["path"], "index": ("raw", ix)})
    used = sorted(set(c["buf"] for c in chans))
    # buffers not used by any channel have length 0 in the reader's view; avoid: make every buffer used
    if len(used) != nb:
        return daqmx_file(rng, digital, cut)
    data = b""
    chunks = []
    for k in range(nchunks):
        bufs = [bytes(rng.randrange(256) for _ in range(lengths[b] * widths[b])) for b in range(nb)]
        chunks.append(bufs)
        data += b"".join(bufs)
    toc = B.TOC_META | B.TOC_NEW | B.TOC_RAW | B.TOC_DAQMX
    full = B.enc_segment(objs, data, toc=toc, big=big)
    exp = {}
    for c in chans:
        d = {}
        for s in c["scalers"]:
            vals = []
            for bufs in chunks:
                raw = bufs[s["buf"]]
                w = widths[s["buf"]]
                for j in range(lengths[s["buf"]]):
                    if digital:
                        byte, bit = s["off"] // 8, s["off"] % 8
                        vals.append((raw[j * w + byte] >> bit) & 1)
                    else:
                        piece = raw[j * w + s["off"]: j * w + s["off"] + s["size"]]
                        vals.append(np.frombuffer(piece, dtype=np.dtype(DAQ_TYPES[s["t"]][0]).newbyteorder(o))[0])
            d[s["sid"]] = vals
        exp[c["path"]] = d
    return full, exp, dict(widths=widths, lengths=lengths, nchunks=nchunks, big=big, nb=nb, data_len=len(data),
                           chans=chans)


@runner("C11")
def run_C11():
    from nptdms import TdmsFile
    res = Result("random DAQmx segments from an independent encoder: 1..3 channels x 1..2 format-changing or "
                 "digital-line scalers over 1..2 raw buffers of random widths (padding allowed) and lengths, 1..3 "
                 "chunks, both byte orders, random buffer bytes; eager scaler data vs bytes at (buffer, row stride, "
                 "offset, type); lazy windows / chunk streams vs slices of the eager result; truncated final chunk "
                 "gives complete rows only", "<= 3 channels x <= 2 scalers x <= 2 buffers x <= 3 chunks")
    rng = random.Random(SEED + 11)
    for it in range(int(400 * BUDGET)):
        digital = rng.random() < 0.35
        data, exp, info = daqmx_file(rng, digital)
        res.case((it,), True, {"bytes": len(data), "widths": info["widths"], "lengths": info["lengths"],
                               "digital": digital} if it < 2 else None)
        try:
            tf = TdmsFile.read(io.BytesIO(data))
        except Exception as e:
            res.violation("c11/read-raised", repr(e), file_script(data, "TdmsFile.read(io.BytesIO(data))\n"))
            continue
        ok_all = True
        for p, d in exp.items():
            ch = [c for g in tf.groups() for c in g.channels() if c.path == p][0]
            got = ch.raw_scaler_data
            for sid, vals in d.items():
                if sid not in got or img(got[sid]) != img(np.array(vals, dtype=np.asarray(got[sid]).dtype.newbyteorder("="))):
                    ok_all = False
                    res.violation("c11/scaler-values", "%s scaler %d: got %r expected %r (%r)" % (p, sid, got.get(sid), vals, info),
                                  file_script(data, "pass\n"))
        if not ok_all:
            continue
        with TdmsFile.open(io.BytesIO(data)) as lz:
            for g in tf.groups():
                for ce in g.channels():
                    cl = lz[g.name][ce.name]
                    n = len(ce)
                    full = ce.raw_scaler_data
                    for off in range(0, n + 1):
                        for ln in (None, 0, 1, 2, n):
                            w = cl.read_data(off, ln, scaled=False)
                            for sid, arr in full.items():
                                e = arr[off:] if ln is None else arr[off:off + ln]
                                if img(w.get(sid, np.array([], dtype=np.asarray(e).dtype))) != img(e):
                                    res.violation("c11/lazy-window", "%s read_data(%r,%r) scaler %d" % (ce.path, off, ln, sid),
                                                  file_script(data, "pass\n"))
                    cat = {}
                    for chunk in cl.data_chunks():
                        for sid, a in chunk._raw_data.scaler_data.items():
                            cat.setdefault(sid, []).extend(list(a))
                    for sid, arr in full.items():
                        if img(np.array(cat.get(sid, []), dtype=np.asarray(arr).dtype.newbyteorder("="))) != img(arr):
                            res.violation("c11/chunk-stream", "%s scaler %d" % (ce.path, sid))
        # truncated final chunk: complete rows only, prefix of the full data
        chunk_bytes = sum(l * w for l, w in zip(info["lengths"], info["widths"]))
        for cut in range(1, min(chunk_bytes, 12)):
            piece = data[:len(data) - cut]
            try:
                t2 = TdmsFile.read(io.BytesIO(piece))
            except Exception as e:
                res.violation("c11/truncated-read-raised", "cut %d: %r" % (cut, e), file_script(piece, "pass\n"))
                continue
            for p, d in exp.items():
                ch = [c for g in t2.groups() for c in g.channels() if c.path == p][0]
                for sid, vals in d.items():
                    got = ch.raw_scaler_data[sid]
                    if img(got) != img(np.array(vals[:len(got)], dtype=np.asarray(got).dtype.newbyteorder("="))):
                        res.violation("c11/truncated-not-a-prefix", "%s scaler %d cut %d" % (p, sid, cut))
    return res


# ---------------------------------------------------------------------------------------------- C13 / C14

RAW_TYPES = {"int8": 1, "int16": 2, "int32": 3, "int64": 4, "uint8": 5, "uint16": 6, "uint32": 7, "uint64": 8,
             "float32": 9, "float64": 10}


def scale_props(rng, depth, with_count=True):
    """random NI_Scale graph over Linear / Polynomial / Table / Add / Subtract; returns (props list, evaluator)"""
    props = []
    nodes = []
    for i in range(depth):
        kinds = ["Linear", "Polynomial", "Table"] + (["Add", "Subtract"] if i >= 1 else [])
        k = rng.choice(kinds)
        src = rng.choice([0xFFFFFFFF] + list(range(i)))
        pre = "NI_Scale[%d]_" % i
        props.append((pre + "Scale_Type", 0x20, k))
        if k == "Linear":
            m, b = rng.choice([2.0, -0.5, 1e-3]), rng.choice([0.0, 1.5, -7.0])
            props += [(pre + "Linear_Slope", 10, m), (pre + "Linear_Y_Intercept", 10, b), (pre + "Linear_Input_Source", 7, src)]
            nodes.append(("lin", src, m, b))
        elif k == "Polynomial":
            cs = [rng.choice([0.0, 1.0, -2.0, 0.25]) for _ in range(rng.randint(1, 4))]
            props += [(pre + "Polynomial_Coefficients_Size", 7, len(cs)), (pre + "Polynomial_Input_Source", 7, src)]
            props += [(pre + "Polynomial_Coefficients[%d]" % j, 10, c) for j, c in enumerate(cs)]
            nodes.append(("poly", src, cs))
        elif k == "Table":
            n = rng.randint(2, 4)
            xs = sorted(rng.sample(range(-50, 50), n))
            ys = [rng.choice([-3.0, 0.0, 2.5, 10.0]) + j for j in range(n)]
            if rng.random() < 0.5:
                xs, ys = xs[::-1], ys[::-1]
            props += [(pre + "Table_Scaled_Values_Size", 7, n), (pre + "Table_Pre_Scaled_Values_Size", 7, n),
                      (pre + "Table_Input_Source", 7, src)]
            props += [(pre + "Table_Scaled_Values[%d]" % j, 10, float(x)) for j, x in enumerate(xs)]
            props += [(pre + "Table_Pre_Scaled_Values[%d]" % j, 10, y) for j, y in enumerate(ys)]
            nodes.append(("table", src, xs, ys))
        else:
            l, r = rng.choice([0xFFFFFFFF] + list(range(i))), rng.choice([0xFFFFFFFF] + list(range(i)))
            props += [(pre + "%s_Left_Operand_Input_Source" % k, 7, l), (pre + "%s_Right_Operand_Input_Source" % k, 7, r)]
            nodes.append(("add" if k == "Add" else "sub", l, r))
    if with_count:
        props.append(("NI_Number_Of_Scales", 7, depth))

    def ev(i, raw):
        if i == 0xFFFFFFFF:
            return raw
        nd = nodes[i]
        if nd[0] == "lin":
            return ev(nd[1], raw).astype("float64") * nd[2] + nd[3]
        if nd[0] == "poly":
            x = ev(nd[1], raw).astype("float64")
            return sum(c * x ** j for j, c in enumerate(nd[2])) if nd[2] else np.zeros(len(x))
        if nd[0] == "table":
            x = ev(nd[1], raw).astype("float64")
            xs, ys = (nd[2], nd[3]) if nd[2][0] < nd[2][-1] else (nd[2][::-1], nd[3][::-1])
            out = np.empty(len(x))
            for t, v in enumerate(x):
                if v <= xs[0]:
                    out[t] = ys[0]
                elif v >= xs[-1]:
                    out[t] = ys[-1]
                else:
                    for a in range(len(xs) - 1):
                        if xs[a] <= v <= xs[a + 1]:
                            out[t] = ys[a] + (v - xs[a]) * (ys[a + 1] - ys[a]) / (xs[a + 1] - xs[a])
                            break
            return out
        l, r = ev(nd[1], raw), ev(nd[2], raw)
        return l + r if nd[0] == "add" else r - l
    return props, (lambda raw: ev(depth - 1, raw))


def scaled_file(rng, tname, props, place, n=6, chunks=2):
    dt = np.dtype(tname)
    info = np.iinfo(dt) if dt.kind in "iu" else None
    vals = np.array([rng.randrange(max(info.min, -40), min(info.max, 40) + 1) if info else rng.uniform(-40, 40)
                     for _ in range(n)]).astype(dt)
    root = {"path": "/", "index": "none", "props": props if place == "root" else []}
    grp = {"path": "/'g'", "index": "none", "props": props if place == "group" else []}
    nv = n // chunks
    ch = {"path": "/'g'/'c'", "index": ("full", RAW_TYPES[tname], nv), "props": props if place == "channel" else []}
    data = b"".join(B.enc_values(RAW_TYPES[tname], vals[c * nv:(c + 1) * nv]) for c in range(chunks))
    # object order in the file is free: the scaling lookup (channel, else group, else file) must not depend on
    # whether the group / root object is listed before or after the channel, or only in a later segment
    order = rng.choice(["root-group-channel", "channel-group-root", "channel-first-group-in-later-segment"])
    if order == "root-group-channel":
        return B.enc_segment([root, grp, ch], data), vals[:nv * chunks]
    if order == "channel-group-root":
        return B.enc_segment([ch, grp, root], data), vals[:nv * chunks]
    return B.enc_segment([ch], data) + B.enc_segment([grp, root], b"", toc=B.TOC_META | B.TOC_NEW), vals[:nv * chunks]


@runner("C13")
def run_C13():
    from nptdms import TdmsFile
    res = Result("random NI_Scale graphs of depth 1..4 over Linear / Polynomial / Table / Add / Subtract with random "
                 "wiring (several scales reading the raw data), on raw data of the 10 numeric types, scaling properties "
                 "on channel / group / root, with and without NI_Number_Of_Scales; expected by an independent "
                 "evaluation; window == window of scaled data; lazy == eager; raw data unchanged; 'scaled' status",
                 "depth <= 4; 6 values in 2 chunks")
    rng = random.Random(SEED + 13)
    for it in range(int(500 * BUDGET)):
        depth = rng.randint(1, 4)
        props, ev = scale_props(rng, depth, with_count=rng.random() < 0.7)
        tname = rng.choice(list(RAW_TYPES))
        place = rng.choice(["channel", "group", "root"])
        data, raw = scaled_file(rng, tname, props, place)
        res.case((it,), True, {"depth": depth, "type": tname, "place": place} if it < 3 else None)
        try:
            with np.errstate(all="ignore"):
                want = np.asarray(ev(raw), dtype="float64")
            tf = TdmsFile.read(io.BytesIO(data))
            ch = tf["g"]["c"]
            before = ch.raw_data.copy()
            got = np.asarray(ch[:], dtype="float64")
            if not np.array_equal(ch.raw_data, before) or not np.array_equal(before, raw):
                res.violation("c13/raw-data-modified", "type %s" % tname, file_script(data, "pass\n"))
            tol = 1e-9 * (1 + np.abs(want))
            if got.shape != want.shape or not np.all((np.abs(got - want) <= tol) | (np.isnan(got) & np.isnan(want)) | (got == want)):
                res.violation("c13/scaled-values", "type %s place %s props %r: got %r want %r" % (tname, place, props, got, want),
                              file_script(data, "print(TdmsFile.read(io.BytesIO(data))['g']['c'][:]); sys.exit(1)\n"))
                continue
            with TdmsFile.open(io.BytesIO(data)) as lz:
                cl = lz["g"]["c"]
                if not eq_arr(np.asarray(cl[:]), np.asarray(ch[:])):
                    res.violation("c13/lazy-differs-from-eager", tname)
                for off, ln in ((0, 2), (1, 4), (3, 3), (2, 0)):
                    if not eq_arr(np.asarray(cl.read_data(off, ln)), np.asarray(ch[:])[off:off + ln]):
                        res.violation("c13/window-does-not-commute-with-scaling", "%s (%d,%d)" % (tname, off, ln))
                for i in (0, 3, 5):
                    a, b = cl[i], ch[:][i]
                    if not (a == b or (a != a and b != b)):
                        res.violation("c13/index-differs", "%s [%d]" % (tname, i))
        except Exception as e:
            res.violation("c13/raised", "%r props %r" % (e, props), file_script(data, "print(TdmsFile.read(io.BytesIO(data))['g']['c'][:])\n"))
    # status 'scaled': no other scaling in scope -> returned unscaled
    props, ev = scale_props(random.Random(1), 1)
    data, raw = scaled_file(random.Random(2), "int16", props + [("NI_Scaling_Status", 0x20, "scaled")], "channel")
    got = TdmsFile.read(io.BytesIO(data))["g"]["c"][:]
    res.case(("scaled-status",))
    if not np.array_equal(got, raw):
        res.violation("c13/scaled-status-not-honoured", "%r vs %r" % (got, raw))
    return res


def _sensor_props(kind):
    if kind == "RTD":
        return [("NI_Scale[0]_Scale_Type", 0x20, "RTD"), ("NI_Scale[0]_RTD_Current_Excitation", 10, 1e-3),
                ("NI_Scale[0]_RTD_R0_Nominal_Resistance", 10, 100.0), ("NI_Scale[0]_RTD_A", 10, 3.9083e-3),
                ("NI_Scale[0]_RTD_B", 10, -5.775e-7), ("NI_Scale[0]_RTD_C", 10, -4.183e-12),
                ("NI_Scale[0]_RTD_Lead_Wire_Resistance", 10, 0.0), ("NI_Scale[0]_RTD_Resistance_Configuration", 7, 3),
                ("NI_Scale[0]_RTD_Input_Source", 7, 0xFFFFFFFF), ("NI_Number_Of_Scales", 7, 1)]
    if kind == "Thermocouple":
        return [("NI_Scale[0]_Scale_Type", 0x20, "Thermocouple"), ("NI_Scale[0]_Thermocouple_Thermocouple_Type", 7, 10073),
                ("NI_Scale[0]_Thermocouple_Scaling_Direction", 7, 0), ("NI_Scale[0]_Thermocouple_Input_Source", 7, 0xFFFFFFFF),
                ("NI_Number_Of_Scales", 7, 1)]
    if kind == "Thermistor":
        return [("NI_Scale[0]_Scale_Type", 0x20, "Thermistor"), ("NI_Scale[0]_Thermistor_Excitation_Type", 7, 10134),
                ("NI_Scale[0]_Thermistor_Excitation_Value", 10, 1e-4), ("NI_Scale[0]_Thermistor_Resistance_Configuration", 7, 4),
                ("NI_Scale[0]_Thermistor_R1_Reference_Resistance", 10, 5000.0), ("NI_Scale[0]_Thermistor_Lead_Wire_Resistance", 10, 0.0),
                ("NI_Scale[0]_Thermistor_A", 10, 1.295e-3), ("NI_Scale[0]_Thermistor_B", 10, 2.343e-4), ("NI_Scale[0]_Thermistor_C", 10, 1.018e-7),
                ("NI_Scale[0]_Thermistor_Temperature_Offset", 10, 0.0), ("NI_Scale[0]_Thermistor_Input_Source", 7, 0xFFFFFFFF),
                ("NI_Number_Of_Scales", 7, 1)]
    if kind == "Strain":
        return [("NI_Scale[0]_Scale_Type", 0x20, "Strain"), ("NI_Scale[0]_Strain_Configuration", 7, 10271),
                ("NI_Scale[0]_Strain_Poisson_Ratio", 10, 0.3), ("NI_Scale[0]_Strain_Gage_Resistance", 10, 350.0),
                ("NI_Scale[0]_Strain_Lead_Wire_Resistance", 10, 0.0), ("NI_Scale[0]_Strain_Initial_Bridge_Voltage", 10, 0.0),
                ("NI_Scale[0]_Strain_Gage_Factor", 10, 2.1), ("NI_Scale[0]_Strain_Bridge_Shunt_Calibration_Gain_Adjustment", 10, 1.0),
                ("NI_Scale[0]_Strain_Voltage_Excitation", 10, 2.5), ("NI_Scale[0]_Strain_Input_Source", 7, 0xFFFFFFFF),
                ("NI_Number_Of_Scales", 7, 1)]
    raise ValueError(kind)


@runner("C14")
def run_C14():
    from nptdms import TdmsFile
    res = Result("every raw type (10 numeric + bool, complex, string, timestamp) x {no scaling, Linear, Polynomial, "
                 "Table, Add(raw, linear), Subtract, RTD, Thermocouple, Thermistor, Strain, 'AdvancedAPI'} (numeric "
                 "types), eager and lazy: dtype of full read, window, slice, empty window, chunks, integer index, "
                 "iteration and of a zero-length channel equals channel.dtype; len(full read) == len(channel); both "
                 "byte orders; raw_timestamps", "exhaustive over raw type x scale kind; 6 values per channel")
    res.exhaustive = True
    rng = random.Random(SEED + 14)
    scale_kinds = ["none", "Linear", "Polynomial", "Table", "Add", "Subtract", "RTD", "Thermocouple", "Thermistor",
                   "Strain", "AdvancedAPI", "Linear-int-coefficients", "Linear-identity", "Polynomial-identity"]
    for tname in list(RAW_TYPES):
        for sk in scale_kinds:
            for n in (6, 0):
                if sk == "none":
                    props = []
                elif sk in ("RTD", "Thermocouple", "Thermistor", "Strain"):
                    props = _sensor_props(sk)
                elif sk == "AdvancedAPI":
                    props = [("NI_Scale[0]_Scale_Type", 0x20, "AdvancedAPI"), ("NI_Number_Of_Scales", 7, 1)]
                elif sk == "Linear-int-coefficients":
                    props = [("NI_Scale[0]_Scale_Type", 0x20, "Linear"), ("NI_Scale[0]_Linear_Slope", 3, 2),
                             ("NI_Scale[0]_Linear_Y_Intercept", 3, 1), ("NI_Number_Of_Scales", 7, 1)]
                elif sk == "Linear-identity":
                    props = [("NI_Scale[0]_Scale_Type", 0x20, "Linear"), ("NI_Scale[0]_Linear_Slope", 10, 1.0),
                             ("NI_Scale[0]_Linear_Y_Intercept", 10, 0.0), ("NI_Number_Of_Scales", 7, 1)]
                elif sk == "Polynomial-identity":
                    props = [("NI_Scale[0]_Scale_Type", 0x20, "Polynomial"),
                             ("NI_Scale[0]_Polynomial_Coefficients_Size", 7, 2),
                             ("NI_Scale[0]_Polynomial_Coefficients[0]", 10, 0.0),
                             ("NI_Scale[0]_Polynomial_Coefficients[1]", 10, 1.0), ("NI_Number_Of_Scales", 7, 1)]
                elif sk in ("Add", "Subtract"):
                    props = [("NI_Scale[0]_Scale_Type", 0x20, "Linear"), ("NI_Scale[0]_Linear_Slope", 10, 2.0),
                             ("NI_Scale[0]_Linear_Y_Intercept", 10, 1.0), ("NI_Scale[1]_Scale_Type", 0x20, sk),
                             ("NI_Scale[1]_%s_Left_Operand_Input_Source" % sk, 7, 0xFFFFFFFF),
                             ("NI_Scale[1]_%s_Right_Operand_Input_Source" % sk, 7, 0), ("NI_Number_Of_Scales", 7, 2)]
                else:
                    r2 = random.Random(5)
                    while True:
                        props, _ = scale_props(r2, 1)
                        if props[0][2] == sk:
                            break
                data, raw = scaled_file(rng, tname, props, "channel", n=n, chunks=2 if n else 1)
                if tname in ("uint8",) and sk in ("RTD", "Thermistor"):
                    pass
                res.case((tname, sk, n), True, {"raw": tname, "scale": sk, "n": n} if (tname, sk, n) == ("float32", "Linear", 6) else None)
                try:
                    with np.errstate(all="ignore"):
                        eager = TdmsFile.read(io.BytesIO(data))["g"]["c"]
                        declared = eager.dtype
                        got = {"eager[:]": eager[:].dtype, "eager.read_data(1,2)": eager.read_data(1, 2).dtype,
                               "eager.read_data(0,0)": eager.read_data(0, 0).dtype, "eager[2:2]": eager[2:2].dtype}
                        if len(eager[:]) != len(eager):
                            res.violation("c14/len", "%s %s" % (tname, sk))
                        with TdmsFile.open(io.BytesIO(data)) as f:
                            lz = f["g"]["c"]
                            if lz.dtype != declared:
                                res.violation("c14/declared-dtype-differs-lazy-vs-eager", "%s %s" % (tname, sk))
                            got.update({"lazy[:]": lz[:].dtype, "lazy.read_data(1,2)": lz.read_data(1, 2).dtype,
                                        "lazy[5:1]": lz[5:1].dtype, "lazy[::2]": lz[::2].dtype,
                                        "lazy.read_data(9,2)": lz.read_data(9, 2).dtype})
                            for k, c in enumerate(lz.data_chunks()):
                                got["lazy.chunk%d" % k] = c[:].dtype
                            if n:
                                got["lazy[0]"] = np.asarray(lz[0]).dtype
                                got["iter"] = np.asarray(next(iter(lz))).dtype
                            if len(lz[:]) != len(lz):
                                res.violation("c14/len", "%s %s lazy" % (tname, sk))
                    for k, d in got.items():
                        if d != declared:
                            res.violation("c14/declared-dtype-equals-actual[%s x %s]" % (sk, tname),
                                          "%s: declared %s, %s has %s" % (tname, declared, k, d),
                                          file_script(data, "c = TdmsFile.read(io.BytesIO(data))['g']['c']\nprint(c.dtype, c[:].dtype)\nsys.exit(0 if c.dtype == c[:].dtype else 1)\n"))
                except Exception as e:
                    if sk in ("RTD", "Thermistor", "Thermocouple", "Strain", "Table") :
                        # sensor laws may reject unphysical random raw values (e.g. several negative roots): not a dtype matter
                        continue
                    res.violation("c14/raised[%s x %s]" % (sk, tname), repr(e), file_script(data, "print(TdmsFile.read(io.BytesIO(data))['g']['c'][:])\n"))
    # non-numeric types, both byte orders, raw timestamps
    for tcode, items in ((0x20, ["a", "bc"]), (0x21, [b"\x01", b"\x00"]), (0x44, [struct.pack("<Qq", 5, 7)] * 2),
                         (0x08000C, [b"\x00" * 8] * 2), (0x10000D, [b"\x01" * 16] * 2)):
        for big in (False, True):
            for raw_ts in (False, True):
                seg = G.Seg([dict(path="/'g'/'c'", tcode=tcode, nv=2, has_data=True, props=[], data=[items, items])], 2, big, False)
                G.GC["/'g'/'c'"] = ("g", "c")
                data = G.encode([seg])
                res.case((tcode, big, raw_ts), True)
                eager = TdmsFile.read(io.BytesIO(data), raw_timestamps=raw_ts)["g"]["c"]
                declared = eager.dtype
                with TdmsFile.open(io.BytesIO(data), raw_timestamps=raw_ts) as f:
                    lz = f["g"]["c"]
                    got = {"eager[:]": np.asarray(eager[:]).dtype, "lazy[:]": np.asarray(lz[:]).dtype,
                           "lazy[1:1]": np.asarray(lz[1:1]).dtype, "lazy.read_data(1,1)": np.asarray(lz.read_data(1, 1)).dtype}
                    chunk_dt = [np.asarray(c[:]).dtype for c in lz.data_chunks()]
                for k, d in got.items():
                    if d != declared:
                        key = "raw-timestamps dtype" if (tcode == 0x44 and raw_ts) else "c14/declared-dtype-equals-actual[type %x]" % tcode
                        res.violation(key, "type %x big=%s raw_ts=%s: declared %s, %s has %s" % (tcode, big, raw_ts, declared, k, d))
                for d in chunk_dt:
                    if d != declared:
                        if tcode == 0x44 and raw_ts:
                            res.violation("raw-timestamps dtype", "chunk dtype %s vs declared %s" % (d, declared))
                        elif big:
                            res.violation("big-endian chunk dtype", "type %x: chunk dtype %s vs declared %s" % (tcode, d, declared))
                        else:
                            res.violation("c14/chunk-dtype[type %x]" % tcode, "%s vs %s" % (d, declared))
    # big-endian numeric chunk dtype (recorded finding)
    seg = G.Seg([dict(path="/'g'/'c'", tcode=3, nv=2, has_data=True, props=[], data=[[b"\x01\x00\x00\x00"] * 2])], 1, True, False)
    data = G.encode([seg])
    with TdmsFile.open(io.BytesIO(data)) as f:
        lz = f["g"]["c"]
        for c in lz.data_chunks():
            if c[:].dtype != lz.dtype:
                res.violation("big-endian chunk dtype", "int32 big-endian: chunk %s vs declared %s" % (c[:].dtype, lz.dtype))
    return res


# ---------------------------------------------------------------------------------------------- C17 / C18

@runner("C17")
def run_C17():
    from nptdms import scaling as S

    class Raw(object):
        def __init__(self, d):
            self.data = d
            self.scaler_data = None
    res = Result("random physically meaningful parameter sets; the voltage produced by the sensor law for a grid of "
                 "temperatures / strains is fed to the scaling and must come back within 1e-6 relative (IEEE "
                 "evaluation, which the real-arithmetic proofs do not decide)", "200 parameter sets x 40 points per law")
    rng = random.Random(SEED + 17)
    for it in range(int(200 * BUDGET)):
        # RTD
        R0 = rng.choice([100.0, 1000.0, 500.0])
        A, Bc, C = 3.9083e-3 * rng.uniform(0.98, 1.02), -5.775e-7 * rng.uniform(0.98, 1.02), -4.183e-12 * rng.uniform(0.9, 1.1)
        I = rng.choice([1e-3, 5e-4, 1e-4])
        wires = rng.choice([2, 3, 4])
        RL = rng.choice([0.0, 0.5, 2.0])
        k = {2: 2, 3: 1, 4: 0}[wires]
        T = np.linspace(-190, 840, 40)
        R = np.where(T >= 0, R0 * (1 + A * T + Bc * T ** 2), R0 * (1 + A * T + Bc * T ** 2 + C * (T - 100) * T ** 3))
        V = I * (R + k * RL)
        res.case(("rtd", it), True, {"law": "RTD", "R0": R0, "wires": wires} if it == 0 else None)
        try:
            got = S.RtdScaling(I, R0, A, Bc, C, RL, wires, 0xFFFFFFFF).scale(V)
            if not np.all(np.abs(got - T) <= 1e-6 * np.maximum(1.0, np.abs(T))):
                res.violation("c17/rtd", "max err %g" % np.max(np.abs(got - T)))
        except Exception as e:
            res.violation("c17/rtd-raised", repr(e))
        # thermistor
        a, b, c = 1.295e-3 * rng.uniform(0.9, 1.1), 2.343e-4 * rng.uniform(0.9, 1.1), 1.018e-7 * rng.uniform(0.9, 1.1)
        Tk = np.linspace(250, 400, 40)
        # invert Steinhart-Hart numerically for R: solve a + b L + c L^3 = 1/T by Newton
        L = np.full_like(Tk, 9.0)
        for _ in range(60):
            L = L - (a + b * L + c * L ** 3 - 1 / Tk) / (b + 3 * c * L ** 2)
        Rt = np.exp(L)
        off = rng.choice([0.0, 273.15])
        for exc in ("current", "voltage"):
            wires = rng.choice([2, 3, 4])
            RL = rng.choice([0.0, 1.0])
            if exc == "current":
                EV = 1e-4
                V = EV * (Rt + {2: 2, 3: 1, 4: 0}[wires] * RL)
                et = 10134
            else:
                EV, R1 = 2.5, 5000.0
                Rm = Rt + {2: 0, 3: 1, 4: 0}[wires] * RL
                V = EV * Rm / (R1 + Rm)
                et = 10322
            res.case(("thermistor", it, exc), True)
            got = S.ThermistorScaling(et, EV, wires, 5000.0, RL, a, b, c, off, 0xFFFFFFFF).scale(V)
            if not np.all(np.abs(got - (Tk - off)) <= 1e-6 * np.maximum(1.0, np.abs(Tk))):
                res.violation("c17/thermistor-" + exc, "max err %g" % np.max(np.abs(got - (Tk - off))))
        # strain
        G_, nu, Vex, Vi, gain = rng.uniform(1.8, 2.2), rng.uniform(0.2, 0.35), rng.choice([2.5, 5.0, 10.0]), rng.choice([0.0, 1e-4]), rng.choice([1.0, 1.02])
        RG, RL = 350.0, rng.choice([0.0, 1.0])
        e = np.linspace(-2e-3, 2e-3, 41)
        e = e[e != 0]
        for cfg, code in (("FULL_BRIDGE_1", 10183), ("FULL_BRIDGE_2", 10184), ("FULL_BRIDGE_3", 10185), ("HALF_BRIDGE_1", 10188),
                          ("HALF_BRIDGE_2", 10189), ("QUARTER_BRIDGE_1", 10271), ("QUARTER_BRIDGE_2", 10272)):
            one = 1.0
            if cfg == "FULL_BRIDGE_1":
                R1 = R3 = one - e * G_; R2 = R4 = one + e * G_
            elif cfg == "FULL_BRIDGE_2":
                R1, R2, R3, R4 = one - e * nu * G_, one + e * nu * G_, one - e * G_, one + e * G_
            elif cfg == "FULL_BRIDGE_3":
                R1 = R3 = one - e * nu * G_; R2 = R4 = one + e * G_
            elif cfg == "HALF_BRIDGE_1":
                R1 = R2 = one + 0 * e; R3, R4 = one - e * nu * G_, one + e * G_
            elif cfg == "HALF_BRIDGE_2":
                R1 = R2 = one + 0 * e; R3, R4 = one - e * G_, one + e * G_
            else:
                R1 = R2 = R3 = one + 0 * e; R4 = one + e * G_
            Vo = (R3 / (R3 + R4) - R2 / (R1 + R2)) * Vex + Vi
            lead = 1.0 if cfg.startswith("FULL") else (1 + RL / RG)
            res.case(("strain", it, cfg), True)
            got = S.StrainScaling(code, nu, RG, RL, Vi, G_, gain, Vex, 0xFFFFFFFF).scale(Vo)
            want = e * gain * lead
            if not np.all(np.abs(got - want) <= 1e-6 * np.abs(want) + 1e-15):
                res.violation("c17/strain-" + cfg, "max rel err %g" % np.max(np.abs(got - want) / np.abs(want)))
    return res


@runner("C18")
def run_C18():
    from nptdms import thermocouples as TC
    from nptdms import scaling as S
    ref = json.load(open(os.path.join(HERE, "spec", "its90.json")))["types"]
    res = Result("per type: forward conversion on a dense grid (>= 10**5 points) plus every piece boundary and its "
                 "floating-point neighbours against the frozen NIST coefficients; continuity and monotonicity on the "
                 "grid; inverse(forward(T)) within the NIST error range over the inverse validity range; totality; "
                 "ThermocoupleScaling direction and microvolt convention", "8 types x 10**5 grid points per direction")
    N = 100000 if TIER == "quick" else 400000
    for name in "BEJKNRST":
        tc = getattr(TC, "type_" + name.lower())
        fwd = ref[name]["forward"]
        lo, hi = fwd[0]["lo"], fwd[-1]["hi"]
        T = np.linspace(lo, hi, N)
        bounds = [p["hi"] for p in fwd[:-1]]
        extra = []
        for b in bounds + [lo, hi]:
            extra += [b, np.nextafter(b, -np.inf), np.nextafter(b, np.inf)]
        T = np.sort(np.concatenate([T, np.array([x for x in extra if lo <= x <= hi])]))
        want = np.empty_like(T)
        for i, p in enumerate(fwd):
            cs = [float(c) for c in p["coefficients_ascending"]]
            m = (T >= p["lo"]) & ((T < p["hi"]) if i + 1 < len(fwd) else (T <= p["hi"]))
            acc = np.zeros(m.sum())
            for c in reversed(cs):
                acc = acc * T[m] + c
            if p["gaussian"]:
                a0, a1, a2 = [float(x) for x in p["gaussian"]]
                acc = acc + a0 * np.exp(a1 * (T[m] - a2) ** 2)
            want[m] = acc
        got = tc.celsius_to_mv(T)
        res.evaluations += len(T)
        res.distinct.update((name, "fwd", i) for i in range(0, len(T), max(1, len(T) // 50)))
        if len(res.samples) < 3:
            res.samples.append({"type": name, "T": float(T[len(T) // 3]), "mV": float(got[len(T) // 3])})
        if np.any(np.isnan(got)):
            res.violation("c18/forward-nan/" + name, "NaN at T=%r" % float(T[np.isnan(got)][0]))
        err = np.nanmax(np.abs(got - want))
        if not err <= 1e-9 * max(1.0, np.nanmax(np.abs(want))):
            i = int(np.nanargmax(np.abs(got - want)))
            res.violation("c18/forward-differs-from-NIST/" + name, "max |diff| %g mV at T=%r" % (err, float(T[i])))
        start = 50.0 if name == "B" else lo
        m = T >= start
        d = np.diff(got[m])
        wide = np.diff(T[m]) > 1e-9              # neighbouring doubles may tie or differ by rounding noise
        Tm = T[m]
        for b in bounds:                          # the standard's own pieces meet only to within ~1e-6 mV
            wide &= ~((Tm[:-1] < b) & (Tm[1:] >= b))
        if np.any(d[wide] <= 0) or np.any(d < -2e-6):
            res.violation("c18/forward-not-increasing/" + name, "at T=%r" % float(T[m][1:][(d <= 0) & wide][0] if np.any((d <= 0) & wide) else T[m][1:][d < -2e-6][0]))
        for b in bounds:
            l, r = float(tc.celsius_to_mv(np.array([np.nextafter(b, -np.inf)]))[0]), float(tc.celsius_to_mv(np.array([b]))[0])
            if abs(l - r) > 1e-6:
                res.violation("c18/forward-discontinuous/" + name, "jump %g at %r" % (abs(l - r), b))
        for (Ta, Tb, elo, ehi) in ref[name]["inverse_error_ranges"]:
            Tt = np.linspace(Ta, Tb, N // 4)
            back = tc.mv_to_celsius(tc.celsius_to_mv(Tt))
            res.evaluations += len(Tt)
            e = back - Tt
            if np.any(np.isnan(back)):
                res.violation("c18/inverse-nan/" + name, "")
            elif e.min() < elo - 0.015 or e.max() > ehi + 0.015:
                res.violation("c18/inverse-error-outside-NIST-range/" + name, "range [%s,%s]: error %g..%g allowed %g..%g" % (Ta, Tb, e.min(), e.max(), elo, ehi))
        V = np.concatenate([np.linspace(float(got.min()) - 1, float(got.max()) + 1, 2000), np.array([-1e9, 1e9])])
        if np.any(np.isnan(tc.mv_to_celsius(V))) or np.any(np.isnan(tc.celsius_to_mv(np.array([-1e6, 1e6, lo - 1, hi + 1])))):
            res.violation("c18/not-total/" + name, "NaN outside the standard's range")
        code = {"B": 10047, "E": 10055, "J": 10072, "K": 10073, "N": 10077, "R": 10082, "S": 10085, "T": 10086}[name]
        x = np.array([0.5 * (lo + hi)], dtype="float32")
        f = S.ThermocoupleScaling(code, 1, 0xFFFFFFFF).scale(x)
        g = S.ThermocoupleScaling(code, 0, 0xFFFFFFFF).scale(f)
        if abs(float(f[0]) - 1000.0 * float(tc.celsius_to_mv(x.astype("float64"))[0])) > 1e-6 or abs(float(g[0]) - float(x[0])) > 0.1:
            res.violation("c18/scaling-direction-or-units/" + name, "%r %r" % (f, g))
    return res
