"""bounded stand-ins: scaling, DAQmx (C11, C13, C14, C17, C18)"""
