"""print the per-property result table (markdown) from MANIFEST.json and evidence/*.json"""
import json, os
HERE = os.path.dirname(os.path.dirname(os.path.abspath(__file__)))
m = json.load(open(os.path.join(HERE, "MANIFEST.json")))
kf = json.load(open(os.path.join(HERE, "known_findings.json")))
print("| id | level | proof-level obligations (discharged) | shape-bounded obligations | back ends | bounded stand-in evaluations | known findings | quick wall s |")
print("|---|---|---|---|---|---|---|---|")
for c in m["checks"]:
    pid = c["property_id"]
    e = json.load(open(os.path.join(HERE, "evidence", pid + ".json")))
    cov = e["coverage"]
    be = ", ".join("%s %d" % (k, v) for k, v in sorted(cov.get("backends", {}).items(), key=lambda kv: -kv[1])[:4])
    finds = [f["id"] for f in kf["findings"] if f["property"] == pid]
    print("| %s | %s | %d (%d) | %d | %s | %s | %s | %s |" % (
        pid, e["level"], cov["obligations"], cov["discharged"], cov.get("shape_bounded_obligations", 0), be,
        (cov.get("bounded_standin") or {}).get("evaluations", "-"), ", ".join(finds) or "-", e["wall_s"]))
