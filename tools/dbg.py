"""debug driver: python3-vt tools/dbg.py <harness> [--variant i] [--repo R] [--show substring] [--timeout ms]"""
import sys, os, argparse, time
sys.path.insert(0, os.path.dirname(os.path.dirname(os.path.abspath(__file__))))
import importlib, pkgutil
import z3
ap = argparse.ArgumentParser()
ap.add_argument("harness"); ap.add_argument("--variant", type=int, default=None)
ap.add_argument("--repo", default=os.environ.get("REPO", "/repo")); ap.add_argument("--show", default=None)
ap.add_argument("--timeout", type=int, default=5000); ap.add_argument("--jobs", type=int, default=16)
ap.add_argument("--full", action="store_true"); ap.add_argument("--status", default="refuted,unknown")
a = ap.parse_args()
import contracts
for m in pkgutil.iter_modules(contracts.__path__):
    importlib.import_module("contracts." + m.name)
from pyvc import harness as H, sym, vc as VCM
from pyvc.interp import explore
h = H.HARNESSES[a.harness]
interp = H.get_interp(a.repo)
interp.contracts_at_calls = {}; interp.loop_specs = {}; interp.yield_hook = None
if h.setup: h.setup(interp)
variants = h.variants if a.variant is None else [h.variants[a.variant]]
PEND = []
seen = set()
t0 = time.time()
for (vname, vparam) in variants:
    def run(st, vparam=vparam, vname=vname):
        v = H.VC(interp, st, a.harness + ("[%s]" % vname if vname else ""), vparam)
        h.body(v)
    res = explore(run)
    for pr in res:
        if pr.outcome not in ("ok", "cut"):
            print("PATH", pr.outcome, pr.detail)
        for ob in pr.state.obligations:
            key = (ob.name, vname, tuple(e.get_id() for e in ob.pc), ob.goal.get_id())
            if key in seen: continue
            seen.add(key)
            PEND.append((ob, pr.state, vname))
print("explored in %.1fs, %d unique obligations" % (time.time() - t0, len(PEND)))
import json
KN = json.load(open(os.path.join(os.path.dirname(os.path.dirname(os.path.abspath(__file__))), "known_findings.json")))
H.KNOWN_IDS.update(f["id"] for f in KN["findings"])
def work(i):
    ob, st, vname = PEND[i]
    s, b, t, m = VCM.solve(ob.pc, ob.goal, a.timeout, hints=st.hints)
    if ob.kind == "cover":
        return (i, {"refuted": "proved", "proved": "unknown"}.get(s, "unknown"), b, t)
    if s == "refuted" and ob.known:
        act = [c for (kid, c) in ob.known if kid in H.KNOWN_IDS]
        if act:
            s2, b2, t2, m2 = VCM.solve(list(ob.pc) + [z3.Not(c) for c in act], ob.goal, a.timeout, hints=st.hints)
            if s2 == "proved": s = "known"
            elif s2 == "refuted": ob.pc = list(ob.pc) + [z3.Not(c) for c in act]
            else: s = "unknown"
    return (i, s, b, t)
import multiprocessing as mp
with mp.get_context("fork").Pool(a.jobs) as pool:
    out = pool.map(work, range(len(PEND)), chunksize=4)
from collections import defaultdict
summ = defaultdict(lambda: defaultdict(int))
tmax = defaultdict(float)
for (i, s, b, t) in out:
    nm = PEND[i][0].name
    summ[nm][s] += 1
    tmax[nm] = max(tmax[nm], t)
for nm in sorted(summ):
    d = summ[nm]
    flag = "" if set(d) <= {"proved", "known"} else "   <<<<<<"
    print("%-110s %s %.2fs%s" % (nm[-110:], dict(d), tmax[nm], flag))
if a.show:
    for (i, s, b, t) in out:
        ob, st, vname = PEND[i]
        if a.show in ob.name and s in a.status.split(","):
            print("=" * 100); print(ob.name, vname, s, b, t)
            if a.full:
                for e in ob.pc: print("   PC", e)
            print("GOAL", ob.goal)
            act = [c for (kid, c) in ob.known if kid in H.KNOWN_IDS]
            ob.pc = list(ob.pc) + [z3.Not(c) for c in act]
            s2, b2, t2, m = VCM.solve(ob.pc, ob.goal, a.timeout, hints=st.hints)
            print("re-solve:", s2, b2)
            if m is not None:
                small = VCM.minimise(ob.pc, ob.goal, [x.e for x in st.syms.values()])
                m = small or m
                print("MODEL", sorted([(str(d), str(m[d])) for d in m.decls()], key=lambda x: x[0]))
            break
