"""regenerate MANIFEST.json from pyvc/props.py (claimed = properties with an entry there)"""
import json, os, sys
HERE = os.path.dirname(os.path.dirname(os.path.abspath(__file__)))
sys.path.insert(0, HERE)
from pyvc import props as P
ids = [json.loads(l)["id"] for l in open(os.path.join(HERE, "properties.jsonl"))]
NA = {}
nap = os.path.join(HERE, "not_applicable.json")
if os.path.exists(nap):
    NA = json.load(open(nap))
fixes = []
kf = json.load(open(os.path.join(HERE, "known_findings.json")))
for line in kf.get("fixed", []):
    parts = line.split()
    fixes.append(parts[2])
checks = []
for pid in ids:
    if pid not in P.PROPS:
        continue
    d = P.PROPS[pid]
    checks.append({
        "property_id": pid,
        "quick_cmd": "./check %s --tier quick" % pid,
        "thorough_cmd": "./check %s --tier thorough" % pid,
        "evidence_file": "evidence/%s.json" % pid,
        "replay_cmd_template": "./check %s --replay {path}" % pid,
        "engine": "pyvc",
        "level_claimed": {"category": d["level"], "text": d["claim"], "design_ref": "DESIGN.md section 5 (%s), section 11" % pid},
        "level_note": d["note"],
        "technique": P.TECHNIQUE,
    })
m = {
    "version": 1,
    "setup_cmd": "python3-vt -m pyvc.setup",
    "hooks": {"guard": "NPTDMS_VERIF",
              "enable": "none needed: contracts are sidecar files under /verif/contracts; /repo sources are read with ast on every run (no hook commits)",
              "baseline_off_cmd": "cd /repo && /venv/bin/python -m pytest -ra -q -p no:cacheprovider --timeout=900 --continue-on-collection-errors",
              "source_commits": sorted(set(fixes)), "add_only": True},
    "engines": [{"name": "pyvc", "path": "pyvc/", "serves_properties": [c["property_id"] for c in checks],
                 "kind_free_text": "own VC generator: symbolic execution of the real /repo ASTs against sidecar contracts and loop invariants; z3 5.1 + cvc5 discharge; counter-model replay on the real code; bounded runtime-contract stand-in (bounded/)"}],
    "checks": checks,
    "notes": "source_commits lists the unguarded `fix:` commits in /repo (genuine defects repaired; see known_findings.json). No guarded hook commits exist.",
    "not_applicable": [{"property_id": p, "reason": NA.get(p, "check not built yet in this session (see DESIGN.md section 5 for the plan)")}
                       for p in ids if p not in P.PROPS],
}
json.dump(m, open(os.path.join(HERE, "MANIFEST.json"), "w"), indent=1)
import jsonschema
jsonschema.validate(m, json.load(open("/root/.vp/MANIFEST.schema.json")))
print("claimed:", [c["property_id"] for c in checks])
