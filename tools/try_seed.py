"""apply a seeded change to a scratch copy of /repo (never to /repo itself), run checks against it, clean up.
usage: python3 tools/try_seed.py <seed dir or patch file> [PROP ...]   (default: the property in meta.json)"""
import json, os, shutil, subprocess, sys, tempfile
HERE = os.path.dirname(os.path.dirname(os.path.abspath(__file__)))
src = sys.argv[1]
patch = src if os.path.isfile(src) else os.path.join(src, "patch.diff")
props = sys.argv[2:]
if not props and os.path.isdir(src) and os.path.exists(os.path.join(src, "meta.json")):
    props = [json.load(open(os.path.join(src, "meta.json")))["property"]]
tmp = tempfile.mkdtemp(prefix="verif_seed_", dir=os.environ.get("TMPDIR", "/tmp"))
try:
    shutil.copytree("/repo/nptdms", os.path.join(tmp, "nptdms"))
    p = subprocess.run(["patch", "-p1", "-d", tmp, "-i", os.path.abspath(patch)], capture_output=True, text=True)
    if p.returncode != 0:
        print("PATCH FAILED", p.stdout, p.stderr)
        sys.exit(2)
    env = dict(os.environ, REPO=tmp, VERIF_EVIDENCE_DIR=os.path.join(tmp, "evidence"))
    for prop in props:
        r = subprocess.run([os.path.join(HERE, "check"), prop], capture_output=True, text=True, env=env, cwd=HERE)
        lines = [l for l in r.stdout.splitlines() if l.startswith(("VIOLATION", "KNOWN", prop))]
        print("== %s exit=%d" % (prop, r.returncode))
        for l in lines[:60]:
            print("   ", l[:220])
finally:
    shutil.rmtree(tmp, ignore_errors=True)      # evidence of these runs went to the scratch directory
