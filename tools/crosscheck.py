"""CPython cross-check of the pyvc interpreter (python3-vt tools/crosscheck.py [N] [--repo R]).

For functions of the repository whose arguments are plain Python / NumPy values, random concrete inputs are run
(a) natively under CPython (the repository imported as a package) and (b) through pyvc's AST interpreter with the
same concrete values, inside an exploration state exactly as harnesses do.  Results (value or exception class) must
agree.  A disagreement is an error of the interpreter's Python semantics or of a library model, i.e. of the proof
engine, never of the repository.  Exit 0: all agree; exit 1: a disagreement (printed)."""
import os
import random
import sys
import types as pytypes

HERE = os.path.dirname(os.path.dirname(os.path.abspath(__file__)))
sys.path.insert(0, HERE)
args = [a for a in sys.argv[1:] if not a.startswith("--")]
N = int(args[0]) if args else 150
REPO = os.environ.get("REPO", "/repo")
if "--repo" in sys.argv:
    REPO = sys.argv[sys.argv.index("--repo") + 1]
sys.path.insert(0, REPO)

import numpy as np                                            # noqa: E402
from pyvc import harness as H, sym                            # noqa: E402
from pyvc.interp import explore, ProgExc, GenVal              # noqa: E402

interp = H.get_interp(REPO)
rng = random.Random(int(os.environ.get("VERIF_SEED", "0")) + 77)


def native(dotted):
    mod, _, name = dotted.partition(".")
    m = __import__("nptdms." + mod, fromlist=["x"])
    o = m
    for part in name.split("."):
        o = getattr(o, part)
    return o


def run_interp(dotted, fargs, fkwargs, drain=False, method=None):
    box = {}

    def body(st):
        f = interp.get(dotted)
        try:
            if method is not None:
                obj = interp.call_value(f, list(fargs), dict(fkwargs))
                r = interp.call_method(obj, method[0], list(method[1]), {})
            else:
                r = interp.call_value(f, list(fargs), dict(fkwargs))
            if drain or isinstance(r, GenVal):
                r = list(interp.iterate(r))
            box["r"] = ("ret", r)
        except ProgExc as e:
            box["r"] = ("exc", e.cls.__name__)
    res = explore(body)
    bad = [p for p in res if p.outcome not in ("ok", "cut")]
    if bad:
        return ("undecided", "%s %s" % (bad[0].outcome, bad[0].detail))
    if len(res) != 1:
        return ("undecided", "%d paths on concrete input" % len(res))
    return box.get("r", ("undecided", "no result"))


def run_native(dotted, fargs, fkwargs, drain=False, method=None):
    f = native(dotted)
    try:
        if method is not None:
            r = getattr(f(*fargs, **fkwargs), method[0])(*method[1])
        else:
            r = f(*fargs, **fkwargs)
        if drain or isinstance(r, pytypes.GeneratorType):
            r = list(r)
        return ("ret", r)
    except Exception as e:
        return ("exc", type(e).__name__)


def norm(v):
    """comparable form of a result: interpreter objects -> field dicts, arrays -> (dtype, list)"""
    from pyvc.interp import Obj
    from pyvc.npmodel import ListArr
    if isinstance(v, Obj):
        return ("obj", v._cls.name, tuple(sorted((k, norm(x)) for k, x in v._f.items() if not k.startswith("__"))))
    if isinstance(v, ListArr):
        return ("arr", str(v.dtype_), tuple(norm(x) for x in v.items))
    if isinstance(v, np.ndarray):
        return ("arr", str(v.dtype), tuple(norm(x) for x in v.tolist()))
    if isinstance(v, np.generic):
        return norm(v.item())
    if isinstance(v, (list, tuple)):
        return tuple(norm(x) for x in v)
    if isinstance(v, dict):
        return tuple(sorted((norm(k), norm(x)) for k, x in v.items()))
    if isinstance(v, float):
        return ("f", repr(v))
    if hasattr(v, "__dict__") and not isinstance(v, type):
        return ("obj", type(v).__name__, tuple(sorted((k, norm(x)) for k, x in vars(v).items())))
    if hasattr(type(v), "__slots__") and not isinstance(v, type):
        return ("obj", type(v).__name__, tuple(sorted((k, norm(getattr(v, k))) for k in type(v).__slots__
                                                     if hasattr(v, k))))
    return v


ALPHA = ["'", "/", " ", "a", "é", "''", "/'", "b"]


def rstr(maxlen=6):
    return "".join(rng.choice(ALPHA) for _ in range(rng.randint(0, maxlen)))


def ns(**kw):
    return pytypes.SimpleNamespace(**kw)


def gen_path_components():
    s = rstr(8)
    if rng.random() < 0.6:
        g, c = rstr(3), rstr(3)
        q = lambda x: "'" + x.replace("'", "''") + "'"
        s = "/" + q(g) + (("/" + q(c)) if rng.random() < 0.7 else "")
    return ("common._path_components", (s,), {}, dict(drain=True))


def gen_components_to_path():
    return ("common._components_to_path", (rstr(4) if rng.random() < 0.9 else None,
                                           rstr(4) if rng.random() < 0.6 else None), {}, {})


def gen_nsv():
    ov = None if rng.random() < 0.5 else {"p": rng.randint(0, 5)} if rng.random() < 0.7 else {}
    so = ns(has_data=rng.random() < 0.8, number_values=rng.randint(0, 9), path="p")
    sg = ns(num_chunks=rng.randint(0, 6), final_chunk_lengths_override=ov)
    return ("reader._number_of_segment_values", (so, sg), {}, {})


def gen_to_int():
    v = rng.choice([0, 1, -1, 2 ** 31 - 1, 2 ** 31, -2 ** 31, -2 ** 31 - 1, 2 ** 63 - 1, 2 ** 63, 2 ** 64 - 1, 2 ** 64,
                    -2 ** 63, -2 ** 63 - 1, rng.randint(-2 ** 66, 2 ** 66)])
    return ("writer.to_int_property_value", (v,), {}, {})


def gen_path_key():
    q = lambda x: "'" + x.replace("'", "''") + "'"
    g, c = rstr(3), rstr(3)
    s = rng.choice(["/", "/" + q(g), "/" + q(g) + "/" + q(c)])
    return ("writer._path_ordering_key", (s,), {}, {})


def gen_lead_resistance():
    return ("scaling._adjust_for_lead_resistance",
            (rng.uniform(1, 500), rng.choice([2, 3, 4]), rng.uniform(0, 10), rng.choice([10134, 10322])), {}, {})


def gen_ts_encode():
    unit = rng.choice(["us", "s", "ms"])
    t = rng.randint(-4 * 10 ** 15, 4 * 10 ** 15)
    k = {"us": 1, "ms": 10 ** 3, "s": 10 ** 6}[unit]
    v = np.datetime64(t // k, unit)
    return ("types.TimeStamp", (v,), {}, dict(attr="bytes"))


def gen_lists_equal():
    a = [rng.randint(0, 2) for _ in range(rng.randint(0, 3))]
    b = list(a) if rng.random() < 0.5 else [rng.randint(0, 2) for _ in range(rng.randint(0, 3))]
    return ("daqmx._lists_are_equal", (a, b), {}, {})


def gen_trim():
    n = rng.randint(0, 6)
    chunk_cls = native("base_segment.RawChannelDataChunk")
    data = np.arange(n, dtype=np.int32)
    return ("reader._trim_channel_chunk", ("CHUNK", n, rng.randint(0, 3), rng.randint(0, 3)), {}, {"special": "trim"})


def _daqmx_objects():
    nbuf = rng.randint(1, 3)
    widths = [rng.choice([2, 4, 8]) for _ in range(nbuf)]
    objs = []
    for i in range(rng.randint(0, 3)):
        w = list(widths)
        if rng.random() < 0.1:
            w[0] += 1                                   # mismatching widths -> ValueError
        scalers = [ns(raw_buffer_index=rng.randrange(nbuf)) for _ in range(rng.randint(1, 2))]
        objs.append(ns(has_data=rng.random() < 0.85, number_values=rng.randint(0, 5), path="/'g'/'c%d'" % i,
                       daqmx_metadata=ns(raw_data_widths=w, scalers=scalers)))
    return objs


def gen_buffer_dims():
    return ("daqmx.get_buffer_dimensions", (_daqmx_objects(),), {}, {})


def gen_daqmx_chunk_size():
    return ("daqmx.get_daqmx_chunk_size", (_daqmx_objects(),), {}, {})


def gen_daqmx_final():
    return ("daqmx.get_daqmx_final_chunk_lengths", (_daqmx_objects(), rng.randint(0, 60)), {}, {})


def gen_array_equal():
    n = rng.randint(0, 260)
    a = np.array([rng.randint(0, 3) for _ in range(n)], dtype=np.int64)
    b = a.copy()
    if n and rng.random() < 0.5:
        b[rng.randrange(n)] += 1
    if rng.random() < 0.2:
        b = b[:-1] if n else b
    return ("reader._array_equal", (a, b), {}, {})


def gen_dedup():
    xs = np.array([rng.randint(0, 2) for _ in range(rng.randint(0, 4))], dtype=np.int64)
    cands = [np.array([rng.randint(0, 2) for _ in range(rng.randint(0, 4))], dtype=np.int64) for _ in range(rng.randint(0, 3))]
    if rng.random() < 0.5:
        cands.insert(rng.randint(0, len(cands)), xs.copy())
    return ("reader._deduplicate_array", (xs, cands), {}, {})


def gen_num_scalings():
    props = {}
    if rng.random() < 0.8:
        props["NI_Number_Of_Scales"] = rng.choice([0, 1, 2, "2", 3])
    if rng.random() < 0.3:
        props["NI_Scaling_Status"] = rng.choice(["scaled", "unscaled"])
    return ("scaling._get_number_of_scalings", (props,), {}, {})


def gen_to_tdms_value():
    import datetime
    v = rng.choice([True, False, 3, -7, 2 ** 40, 2 ** 63 + 5, 1.5, "text", "é", np.int8(3), np.float32(1.5),
                    np.datetime64("2020-01-02T03:04:05.000006"), datetime.datetime(2020, 1, 2, 3, 4, 5, 6),
                    np.uint16(7)])
    return ("writer._to_tdms_value", (v,), {}, {"cls_and_value": True})


GENS = [gen_buffer_dims, gen_daqmx_chunk_size, gen_daqmx_final, gen_array_equal, gen_dedup, gen_num_scalings,
        gen_to_tdms_value, gen_path_components, gen_components_to_path, gen_nsv, gen_to_int, gen_path_key, gen_lead_resistance,
        gen_ts_encode, gen_lists_equal]


def main():
    bad = 0
    undec = {}
    counts = {}
    for g in GENS:
        for _ in range(N):
            dotted, fargs, fkwargs, opt = g()
            attr = opt.pop("attr", None)
            cv = opt.pop("cls_and_value", False)
            a = run_native(dotted, fargs, fkwargs, **opt)
            b = run_interp(dotted, fargs, fkwargs, **opt)
            if b[0] == "undecided":
                undec[dotted] = undec.get(dotted, 0) + 1
                undec[dotted + " why"] = b[1]
                continue
            counts[dotted] = counts.get(dotted, 0) + 1
            if attr is not None and a[0] == "ret" and b[0] == "ret":
                av = getattr(a[1], attr)
                bv = interp.getattr_value(b[1], attr)
                if hasattr(bv, "parts"):            # WBytes -> bytes
                    from pyvc.models import wbytes_concrete
                    bv = wbytes_concrete(bv)
                a, b = ("ret", av), ("ret", bv)
            if cv and a[0] == "ret" and b[0] == "ret":
                # a TdmsType instance: compare class name and the value/bytes it carries
                a = ("ret", (type(a[1]).__name__, getattr(a[1], "value", None), getattr(a[1], "bytes", None)))
                bo = b[1]
                b = ("ret", (bo._cls.name, bo._f.get("value"), bo._f.get("bytes")))
            if a[0] != b[0] or (a[0] == "exc" and a[1] != b[1]) or (a[0] == "ret" and norm(a[1]) != norm(b[1])):
                bad += 1
                if bad <= 10:
                    print("DISAGREE %s%r\n   CPython: %r\n   pyvc   : %r" % (dotted, fargs, a, b))
    for k, v in sorted(counts.items()):
        print("%6d agree   %s" % (v, k))
    for k, v in sorted(undec.items()):
        print("   undecided   %s: %s" % (k, v))
    print("cross-check: %d comparisons, %d disagreements" % (sum(counts.values()), bad))
    return 1 if bad else 0


if __name__ == "__main__":
    sys.exit(main())
