#!/bin/sh
# usage: tools/confirm_seed.sh <worktree> : demo passes without the change, fails with it, test suite passes with it
wt="$1"
cd "$wt" || exit 2
git diff > /tmp/confirm_patch.diff
if [ ! -s /tmp/confirm_patch.diff ]; then echo "NO CHANGE IN WORKTREE"; exit 2; fi
git stash -q
/venv/bin/python demo.py > /tmp/confirm_without.txt 2>&1; a=$?
git stash pop -q
/venv/bin/python demo.py > /tmp/confirm_with.txt 2>&1; b=$?
t=$(/venv/bin/python -m pytest -q -p no:cacheprovider --timeout=900 2>&1 | tail -1)
echo "demo without change: exit $a ($(tail -1 /tmp/confirm_without.txt | cut -c1-80)); with change: exit $b; suite: $t"
