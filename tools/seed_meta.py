"""write seeded/<id>/meta.json and seeded/README.md from the table below + the last try_seed log (tools/try_seed.py
output lines prefixed with [<seed id>])."""
import json, os, re, sys
HERE = os.path.dirname(os.path.dirname(os.path.abspath(__file__)))
SEEDS = {
 "C01-1": ("C01", "InterleavedDataReader views the interleaved byte columns with the native dtype instead of from_bytes(endianness)",
           "an interleaved segment with the big-endian ToC flag (values come back byte-swapped)"),
 "C02-1": ("C02", "read_segment_objects keeps sharing the previous segment object when a restated raw data index is identical",
           "a segment that lists a channel without data ('no data' header) followed by a segment restating the same index: has_data stays False and the channel loses that segment's values"),
 "C03-1": ("C03", "TimestampDataReceiver.append_data copies both record fields in one positional assignment",
           "big-endian segment AND timestamp channel AND raw_timestamps=True: receiver paths swap seconds/second_fractions, chunk paths do not"),
 "C04-1": ("C04", "final chunk size of the last needed segment derived from segment_end_index % chunk_size (channel-global index) only when an override is present (rebased on fix 1b68fb6)",
           "a truncated final chunk in a segment that does not start at a multiple of its own chunk size; window ending in that segment"),
 "C05-1": ("C05", "_read_at_index indexes the cached chunk with the caller's (possibly negative) index instead of the normalised position",
           "a negative integer index that hits the cached chunk after an earlier index read into the same chunk"),
 "C06-1": ("C06", "_compute_final_chunk_lengths gives later channels the bytes left over after an incomplete channel",
           "a file cut inside a chunk, in a channel followed by a narrower channel: the later channel is credited values it does not have"),
 "C07-1": ("C07", "TimeStamp.__init__ takes the epoch difference's integer count without converting it to microseconds",
           "a np.datetime64 of a unit other than us (ns, ms, s) written as property or channel data"),
 "C08-1": ("C08", "the index-file segment is built without the writer's version",
           "TdmsWriter(version=4713) with index_file=True: the .tdms_index lead-ins say 4712 while the data file says 4713"),
 "C09-1": ("C09", "_read_lead_in keeps a last segment whose metadata is cut in the data file when the lead-in came from the index file",
           "data file ending between the last segment's lead-in and its raw data, with the index present"),
 "C10-1": ("C10", "object_data_size for strings counts characters instead of UTF-8 bytes",
           "defragmenting (or writing) a string channel with a non-ASCII character: next-segment offset and index too small"),
 "C11-1": ("C11", "get_daqmx_final_chunk_lengths hands left-over bytes of a partly cut buffer to the next buffer",
           "DAQmx segment with two buffers of different width, truncated mid-row of the first"),
 "C12-1": ("C12", "TimeStamp encoder rounds the 2^-64 fraction to nearest instead of adding the 2^-40 s guard",
           "1461 of the 10^6 microsecond values (e.g. .000002) come back one microsecond low"),
 "C13-1": ("C13", "LinearScaling.scale multiplies and adds in place after astype(copy=False)",
           "float64 raw data read eagerly: the raw array is overwritten and windows are re-scaled on each call"),
 "C14-1": ("C14", "LinearScaling.scale returns its input unchanged for slope 1, intercept 0",
           "identity Linear scale on int or float32 raw data: data keep the raw dtype, channel.dtype says float64"),
 "C15-1": ("C15", "String.read_values reads the offset table with np.frombuffer in native byte order",
           "a string channel with raw data in a big-endian segment"),
 "C16-1": ("C16", "_path_components rewritten with a regular expression that ends a component at any quote followed by /' or end of string",
           "a group or channel name containing a quote immediately followed by a slash"),
 "C17-1": ("C17", "RtdScaling.scale chooses the quadratic/quartic branch before lead-wire compensation",
           "2- or 3-wire RTD with non-zero lead resistance at a negative temperature whose uncompensated resistance is >= R0"),
 "C18-1": ("C18", "thermocouple type-code table moved to a class attribute with R and S transposed",
           "scale configured with type code 10082 (R) or 10085 (S)"),
 "C19-1": ("C19", "end-segment trimming drops the final chunk only if more than its size is to be trimmed (>= became >)",
           "window ending exactly at the start of a truncated final chunk: that chunk is fetched although it does not overlap the request"),
 "C01-2": ("C01", "String.read_values decodes the whole string block once and slices the decoded text with the stored byte offsets",
           "a string channel chunk where a value with a multi-byte UTF-8 character is followed by another string"),
 "C02-2": ("C02", "ObjectListKey hashes and compares the frozenset of paths (order ignored)",
           "a later segment with a new object list holding the same paths in a different order, channels with different chunk lengths, read lazily (the cached path index of the earlier order is reused)"),
 "C03-2": ("C03", "TimestampDataReceiver.append_data: one positional structured assignment (same mechanism as C03-1, found independently)",
           "big-endian timestamp channel read with raw_timestamps=True through a receiver path"),
 "C04-2": ("C04", "_read_at_index keeps only the cached chunk's offset and drops the lower-bound test",
           "lazy integer indexing that goes back to an index before the cached chunk: wrong value (negative index into the cache) or spurious IndexError"),
 "C05-2": ("C05", "_read_data_chunks re-seeks to the next chunk before the yield instead of after it",
           "any other read between two chunks of a partially consumed TdmsFile.data_chunks() stream"),
 "C06-2": ("C06", "get_daqmx_final_chunk_lengths without the early exit (same mechanism as C11-1, found independently for C06)",
           "truncated DAQmx chunk cut mid-row of a wider buffer followed by a narrower buffer"),
 "C07-2": ("C07", "TdmsWriter sets kTocNewObjList only when the SET of paths differs from the previous segment",
           "two consecutive segments of one session with the same channels in a different order: the reader keeps the old order and the channels' data is swapped"),
 "C08-2": ("C08", "the index-file segment is built from the caller's object list instead of the sorted, parent-completed one",
           "index_file requested and a segment relying on the writer to add or reorder root/group objects"),
 "C09-2": ("C09", "_read_lead_in clamps the segment end to the data file size only when not reading from an index stream",
           "data file shorter than its last lead-in claims, complete index beside it"),
 "C10-2": ("C10", "defragment writes a group object only together with its first channel",
           "a group without channels (and its properties) disappears from the copy"),
 "C11-2": ("C11", "get_daqmx_final_chunk_lengths without the early exit (as C11-1 / C06-2)",
           "truncated DAQmx chunk, buffers of different width"),
 "C12-2": ("C12", "TimestampDataReceiver.append_data positional structured assignment (as C03-1)",
           "big-endian timestamp channel read raw, or passed through defragment"),
 "C13-2": ("C13", "LinearScaling.scale no longer converts its input to float64",
           "float32 raw data: the formula is evaluated in single precision (and the dtype is float32)"),
 "C14-2": ("C14", "NumpyDataReceiver.append_data adopts a chunk array that fills the whole receiver instead of copying it",
           "big-endian segment, unscaled numeric channel, request satisfied by exactly one chunk: dtype '>i4' vs declared '<i4'"),
 "C15-2": ("C15", "TimestampDataReceiver.append_data positional structured assignment (as C03-1)",
           "big-endian segment, raw_timestamps=True"),
 "C16-2": ("C16", "TdmsFile._read_file classifies objects by truthiness of the decoded names",
           "a group or channel whose name is the empty string"),
 "C17-2": ("C17", "StrainScaling.scale uses astype(float64, copy=False) before its in-place arithmetic",
           "float64 raw data read eagerly and scaled more than once"),
 "C18-2": ("C18", "type K exponential term skipped by one np.all(temperature < 0) decision for the whole array",
           "a single array mixing negative and non-negative temperatures (type K, temperature -> voltage)"),
 "C19-2": ("C19", "read_channel_chunk_for_index no longer limits the segment read to one chunk",
           "integer index into a multi-chunk interleaved segment (the interleaved reader fetches all remaining chunks at once)"),
 "C20-2": ("C20", "read_metadata closes the index stream whether or not the reader opened it (as C20-1)",
           "caller-supplied index stream"),
 "C01-3": ("C01", "TdmsSegmentObject caches the numpy dtype (with byte order) when its raw data index is parsed and read_values ignores its endianness argument",
           "file mixing byte orders between segments where a later segment reuses the index ('same as before' or no metadata): values byte-swapped"),
 "C02-3": ("C02", "read_segment_objects reuses the previous segment's path index whenever the object lists have the same length",
           "a new object list of the same length with channels reordered or replaced, read lazily"),
 "C03-3": ("C03", "TimestampDataReceiver.append_data positional structured assignment (third independent find of this change)",
           "big-endian timestamp channel, raw_timestamps=True"),
 "C05-3": ("C05", "_array_equal compares blocks with slice(offset, chunk_size) (stop taken for a length): only the first 100 entries are compared",
           "> 100 data segments, two channels whose offset indexes agree on the first 100 entries and differ later; the second channel read inherits the first one's index"),
 "C06-3": ("C06", "_compute_final_chunk_lengths gives every channel min(number_values, remainder // size) and keeps partial-value bytes in the remainder",
           "contiguous file cut inside a value of a wider channel followed by a narrower one"),
 "C08-3": ("C08", "types.String.__init__ writes len(value) (characters) as the length prefix of the UTF-8 bytes",
           "non-ASCII character in an object name, property name or string property value"),
 "C09-3": ("C09", "_read_lead_in clamps a truncated segment's end to max(data file size, data position)",
           "data file shorter than the index describes, cut before a later segment's raw data: phantom segments from the index are accepted"),
 "C10-3": ("C10", "NumpyDataReceiver.append_data adopts a chunk that fills the whole receiver (as C14-2)",
           "big-endian source whose channel arrives in one chunk: defragment writes the big-endian bytes into a little-endian segment"),
 "C11-3": ("C11", "get_daqmx_final_chunk_lengths without the early exit (fourth independent find)",
           "truncated DAQmx chunk, buffers of different width"),
 "C14-3": ("C14", "LinearScaling.scale returns its input for slope 1, intercept 0 (as C14-1)",
           "identity Linear scale on non-float64 raw data"),
 "C15-3": ("C15", "TdmsSegmentObject caches the dtype with the byte order of the segment that stated the index (as C01-3)",
           "mixed byte orders with an index carried over from a segment of the other order"),
 "C19-3": ("C19", "chunk size of a channel in a segment taken from a shared helper that no longer checks has_data",
           "interleaved or DAQmx segment that lists the channel with a 'no data' index between two segments of a window: the whole segment is fetched"),
 "C04-3": ("C04", "ObjectListKey.__eq__ compares the (order-independent) hashes and the lengths instead of the paths",
           "same objects in a different order in two segments, different value counts, lazy windows / indices"),
 "C07-3": ("C07", "TdmsSegment.raw_data_index writes the 'no data' marker for channels whose array is empty",
           "a typed channel that only ever receives zero-length arrays: its type never reaches the file"),
 "C12-3": ("C12", "TimestampDataReceiver.append_data positional structured assignment (fourth independent find)",
           "big-endian timestamp channel read raw or defragmented"),
 "C13-3": ("C13", "TdmsFile._read_file takes a channel's group properties from the dictionary it is still filling in file order",
           "scaling defined on the group, group object listed after the channel (or only in a later segment)"),
 "C16-3": ("C16", "_components_to_path collapses already doubled quotes before doubling quotes",
           "a name containing two adjacent apostrophes: encodes like the name with one, channels merge"),
 "C17-3": ("C17", "RtdScaling.scale decides the branch before lead-wire compensation (as C17-1)",
           "2-/3-wire RTD with lead resistance at a negative temperature near 0"),
 "C18-3": ("C18", "type K exponential term skipped when np.any(temperature < 0)",
           "one array mixing negative and non-negative temperatures (type K, temperature -> voltage)"),
 "C20-3": ("C20", "read_metadata closes the index stream whether or not the reader opened it (third find)",
           "caller-supplied index stream"),
 "C20-1": ("C20", "read_metadata closes the index stream whether or not the reader opened it",
           "a caller-supplied stream holding a .tdms_index (TDSh) file"),
}
log = sys.argv[1] if len(sys.argv) > 1 else "/tmp/seeds_all.log"
caught = {}
for ln in open(log):
    m = re.match(r"\[(C\d\d-\d)\]\s+(.*)", ln)
    if not m:
        continue
    sid, rest = m.group(1), m.group(2).strip()
    c = caught.setdefault(sid, {"exit": None, "deductive": [], "bounded": [], "undecided": False})
    m2 = re.match(r"== (C\d\d) exit=(\d+)", rest)
    if m2:
        c["exit"] = int(m2.group(2))
    m3 = re.match(r"VIOLATION property=\S+ replay=replays/(\S+)\.json(.*)", rest)
    if m3:
        name = m3.group(1)
        (c["bounded"] if "-bounded-" in name else c["deductive"]).append(name.split("-", 1)[1])
    if rest.startswith("UNDECIDED"):
        c["undecided"] = True
rows = []
for sid, (prop, what, needs) in sorted(SEEDS.items()):
    d = os.path.join(HERE, "seeded", sid)
    if not os.path.isdir(d):
        continue
    c = caught.get(sid, {})
    conf = open(os.path.join(d, "confirm.txt")).read().strip() if os.path.exists(os.path.join(d, "confirm.txt")) else ""
    meta = {"id": sid, "property": prop, "change": what, "needs_to_manifest": needs,
            "origin": "fresh sub-agent given only the property text and a scratch worktree of /repo",
            "confirmed_by": "tools/confirm_seed.sh <worktree>: " + (conf or "demo exit 0 without / exit 1 with the change; suite 497 passed"),
            "ran": "python3 tools/try_seed.py seeded/%s/patch.diff %s  (scratch copy of /repo/nptdms + patch, ./check %s with REPO=<copy>)" % (sid, prop, prop),
            "check_exit": c.get("exit"),
            "caught_by_deductive_obligations": sorted(set(c.get("deductive", [])))[:12],
            "caught_by_bounded_standin": sorted(set(c.get("bounded", [])))[:12]}
    extra = os.path.join(d, "notes.txt")
    if os.path.exists(extra):
        meta["notes"] = open(extra).read().strip()
    json.dump(meta, open(os.path.join(d, "meta.json"), "w"), indent=1)
    rows.append(meta)
with open(os.path.join(HERE, "seeded", "README.md"), "w") as f:
    f.write("# Seeded property-breaking changes\n\nEach directory holds `patch.diff` (against /repo HEAD), `demo.py` "
            "(exit 0 = property holds, exit 1 = violated; run from a tree with the patch applied), `meta.json`.\n"
            "All pass the unedited test suite (497 passed).  Re-run: `python3 tools/try_seed.py seeded/<id>/patch.diff <PROP>`; "
            "regenerate this file: `python3 tools/seed_meta.py <log>`.\n\n"
            "| seed | change | exit | deductive obligations that fail | bounded stand-in |\n|---|---|---|---|---|\n")
    for m in rows:
        f.write("| %s | %s | %s | %s | %s |\n" % (m["id"], m["change"], m["check_exit"],
                "<br>".join(m["caught_by_deductive_obligations"][:3]) or "-",
                "<br>".join(m["caught_by_bounded_standin"][:3]) or "-"))
print("wrote", len(rows))
