"""run every harness (or those of one property) and print a one-line summary each"""
import sys, os, json, time
sys.path.insert(0, os.path.dirname(os.path.dirname(os.path.abspath(__file__))))
import importlib, pkgutil, contracts
for m in pkgutil.iter_modules(contracts.__path__):
    importlib.import_module("contracts." + m.name)
from pyvc import harness as H, propcheck as PC
from concurrent.futures import ProcessPoolExecutor
import multiprocessing as mp
repo = os.environ.get("REPO", "/repo")
prop = sys.argv[1] if len(sys.argv) > 1 else None
known = PC.load_known()
H.KNOWN_IDS.update(f["id"] for f in known.get("findings", []))
work = []
for n, h in H.HARNESSES.items():
    if prop and prop not in h.props:
        continue
    if h.split_variants and len(h.variants) > 1:
        work.extend((n, repo, "quick", 0, vi, 1) for vi in range(len(h.variants)))
    else:
        work.append((n, repo, "quick", 0, None, 2))
work.sort(key=lambda w: -H.HARNESSES[w[0]].weight)
t0 = time.time()
with ProcessPoolExecutor(max_workers=16, mp_context=mp.get_context("fork")) as ex:
    recs = list(ex.map(PC._run, work))
agg = {}
for r in recs:
    a = agg.setdefault(r["harness"], {"n": 0, "proved": 0, "known": 0, "refuted": set(), "undecided": set(), "crash": None, "t": 0})
    a["t"] = max(a["t"], r.get("wall_s", 0))
    if r.get("crash"):
        a["crash"] = r["crash"].strip().splitlines()[-1]
    for o in r["obligations"]:
        a["n"] += 1
        if o["status"] == "proved": a["proved"] += 1
        elif o["status"] == "known": a["known"] += 1
        elif o["status"] == "refuted": a["refuted"].add(o["name"].split("/", 1)[-1][:70])
    for u in r["undecided"]:
        a["undecided"].add("%s:%s" % (u["reason"], str(u.get("detail"))[:60]))
bad = 0
for n in sorted(agg):
    a = agg[n]
    flag = "" if not (a["refuted"] or a["undecided"] or a["crash"]) else "  <<<<"
    bad += bool(flag)
    print("%-34s %6d obl %6d proved %3d known %5.0fs %s" % (n, a["n"], a["proved"], a["known"], a["t"], flag))
    for x in sorted(a["refuted"])[:6]: print("      REFUTED", x)
    for x in sorted(a["undecided"])[:4]: print("      UNDECIDED", x)
    if a["crash"]: print("      CRASH", a["crash"])
print("harnesses: %d, with problems: %d, wall %.0fs" % (len(agg), bad, time.time() - t0))
