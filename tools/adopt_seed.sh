#!/bin/sh
# usage: tools/adopt_seed.sh C12 [suffix] : confirm the change in /tmp/wt/C12 and store it as seeded/C12-<suffix>/
id="$1"; n="${2:-1}"
wt=${WTROOT:-/tmp/wt}/$id
out=$(sh "$(dirname "$0")/confirm_seed.sh" "$wt")
echo "$id: $out"
d="/verif/seeded/$id-$n"
mkdir -p "$d"
(cd "$wt" && git diff -- nptdms > "$d/patch.diff")
cp "$wt/demo.py" "$d/demo.py"
echo "$out" > "$d/confirm.txt"
