"""freeze the NIST ITS-90 forward reference functions from thermocouples_reference/source_NIST.py (an
independent transcription of NIST SRD 60 present in /venv) into spec/its90.json.  Parsed with ast; the
module is not imported.  Run once; the JSON is committed."""
import ast, json, os, sys
SRC = "/venv/lib/python3.12/site-packages/thermocouples_reference/source_NIST.py"
tree = ast.parse(open(SRC).read())
out = {}
for node in ast.walk(tree):
    if isinstance(node, ast.Assign) and getattr(node.targets[0], "id", None) == "thermocouples":
        d = node.value
        for k, v in zip(d.keys, d.values):
            name = k.value
            pg = v.args[0]          # Polynomial_Gaussian_Piecewise_Function([...], 'C', 'mV', ...)
            pieces = []
            for row in pg.args[0].elts:
                lo = ast.literal_eval(row.elts[0]); hi = ast.literal_eval(row.elts[1])
                coeffs_desc = [ast.literal_eval(ast.unparse(e)) for e in row.elts[2].args[0].elts]
                gauss = row.elts[3]
                g = None
                if not (isinstance(gauss, ast.Constant) and gauss.value is None):
                    g = [ast.literal_eval(ast.unparse(e)) for e in gauss.args[0].elts] if isinstance(gauss, ast.Call) else ast.literal_eval(ast.unparse(gauss))
                pieces.append({"lo": lo, "hi": hi, "coefficients_ascending": [repr(c) for c in reversed(coeffs_desc)],
                               "gaussian": None if g is None else [repr(x) for x in g]})
            out[name] = {"forward": pieces}
# NIST-stated error ranges of the inverse functions (degrees C), per temperature range of validity.
# Transcribed from the NIST ITS-90 inverse-coefficient tables (SRD 60) as remembered; they cannot be
# re-fetched offline, so each bound is widened outward by 0.015 C when used (see contracts/thermo.py).
INV = {
 "B": [[250, 700, -0.02, 0.03], [700, 1820, -0.01, 0.02]],
 "E": [[-200, 0, -0.01, 0.03], [0, 1000, -0.02, 0.02]],
 "J": [[-210, 0, -0.05, 0.03], [0, 760, -0.04, 0.04], [760, 1200, -0.04, 0.03]],
 "K": [[-200, 0, -0.02, 0.04], [0, 500, -0.05, 0.04], [500, 1372, -0.05, 0.06]],
 "N": [[-200, 0, -0.02, 0.03], [0, 600, -0.02, 0.03], [600, 1300, -0.04, 0.02]],
 "R": [[-50, 250, -0.02, 0.02], [250, 1200, -0.005, 0.005], [1064, 1664.5, -0.0005, 0.001], [1664.5, 1768.1, -0.001, 0.002]],
 "S": [[-50, 250, -0.02, 0.02], [250, 1200, -0.01, 0.01], [1064, 1664.5, -0.0002, 0.0002], [1664.5, 1768.1, -0.002, 0.002]],
 "T": [[-200, 0, -0.02, 0.04], [0, 400, -0.03, 0.03]],
}
for k in out:
    out[k]["inverse_error_ranges"] = INV[k]
doc = {"provenance": "forward: %s (NIST SRD 60 transcription, parsed with ast); inverse_error_ranges: NIST-stated ranges as transcribed by the author of this verification, widened when used" % SRC,
       "types": out}
json.dump(doc, open(os.path.join(os.path.dirname(os.path.dirname(os.path.abspath(__file__))), "spec", "its90.json"), "w"), indent=1)
print({k: [(p["lo"], p["hi"], len(p["coefficients_ascending"]), p["gaussian"]) for p in v["forward"]] for k, v in out.items()})
