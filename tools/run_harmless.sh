#!/bin/sh
# behaviour-preserving refactorings: no check may report a VIOLATION (exit 1) on them
cd /verif
run() { id=$1; shift; for p in "$@"; do python3 tools/try_seed.py harmless/$id/patch.diff $p 2>&1 | grep -v WARNING | cut -c1-260 | sed "s/^/[$id] /"; done; }
run C01-r1 C01 C06 C09 C04
run C02-r1 C02 C01
run C04-r1 C04 C19 C05 C14
run C05-r1 C05 C04 C19
run C06-r1 C06 C11 C01
run C07-r1 C07 C08 C10
run C09-r1 C09 C20 C01
run C12-r1 C12 C15 C03
run C13-r1 C13 C14 C03
run C16-r1 C16 C08 C07 C01
run C19-r1 C19 C04 C05
run C20-r1 C20 C09
run C03-r2 C03 C04 C05 C12 C19
run C08-r2 C08 C07 C10 C16
run C10-r2 C10 C07 C03
run C11-r2 C11 C06
run C14-r2 C14 C04 C13
run C15-r2 C15 C01 C02 C12
run C17-r2 C17 C13
run C18-r2 C18 C13
