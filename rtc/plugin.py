"""Runtime contracts on the real nptdms functions while the repository's own test suite runs (bounded stand-in,
never counted as proved).

usage:  cd $REPO && PYTHONPATH=/verif /venv/bin/python -m pytest -q -p no:cacheprovider -p rtc.plugin
        (RTC_OUT=<json file> for the summary; RTC_ONLY=C04,C12 to install only the contracts of some properties)

Each contract is the run-time reading of a sidecar contract used deductively (same spec functions where they are
executable: spec.layout.segment_extent, spec.pyslice).  A firing contract is either too strict or a defect the tests
do not assert: the witness (function, arguments, observed, expected) is recorded.  References bound before the plugin
is installed bypass the wrappers, so evaluations are counted per contract."""
import functools
import io
import json
import os
import struct
import sys
import threading

import numpy as np

HERE = os.path.dirname(os.path.dirname(os.path.abspath(__file__)))
if HERE not in sys.path:
    sys.path.insert(0, HERE)

COUNTS = {}
VIOLATIONS = []
_guard = threading.local()


def _busy():
    return getattr(_guard, "busy", False)


class _Reentrant(object):
    def __enter__(self):
        self.old = _busy()
        _guard.busy = True

    def __exit__(self, *a):
        _guard.busy = self.old


def violated(prop, name, detail):
    if len(VIOLATIONS) < 200:
        VIOLATIONS.append({"property": prop, "contract": name, "detail": str(detail)[:600]})


def contract(prop, name):
    """decorator factory: post(result, exc, *args, **kwargs) -> None | violation text; evaluated outside reentrancy"""
    def deco(fn):
        fn._rtc = (prop, name)
        return fn
    return deco


def wrap(owner, attr, prop, name, pre=None, post=None, static=False):
    orig = owner.__dict__[attr] if isinstance(owner, type) else getattr(owner, attr)
    raw = orig.__func__ if isinstance(orig, (staticmethod, classmethod)) else orig
    key = "%s/%s" % (prop, name)
    COUNTS.setdefault(key, 0)

    @functools.wraps(raw)
    def wrapper(*args, **kwargs):
        if _busy():
            return raw(*args, **kwargs)
        ctx = None
        if pre is not None:
            try:
                with _Reentrant():
                    ctx = pre(*args, **kwargs)
            except Exception as e:          # a contract that cannot be evaluated is skipped, never a violation
                ctx = _Skip(e)
        try:
            result = raw(*args, **kwargs)
        except BaseException:
            raise
        if post is not None and not isinstance(ctx, _Skip):
            try:
                with _Reentrant():
                    msg = post(ctx, result, *args, **kwargs)
                COUNTS[key] += 1
                if msg:
                    violated(prop, name, msg)
            except Exception as e:
                COUNTS.setdefault(key + "/skipped", 0)
                COUNTS[key + "/skipped"] += 1
        return result
    if isinstance(orig, staticmethod):
        setattr(owner, attr, staticmethod(wrapper))
    elif isinstance(orig, classmethod):
        raise NotImplementedError("classmethod wrapping")
    else:
        setattr(owner, attr, wrapper)
    return wrapper


class _Skip(object):
    def __init__(self, e):
        self.e = e


# ---------------------------------------------------------------------------------------------- the contracts

def install(only=None):
    import nptdms
    from nptdms import reader as R, tdms as T, tdms_segment as S, types as TY, timestamp as TS, common as C
    from nptdms import scaling as SC
    from spec import layout as L

    def want(p):
        return only is None or p in only

    # ---- C04 / C06: values of an object in a segment
    if want("C04") or want("C06"):
        def post_nsv(ctx, result, segment_object, segment):
            if not segment_object.has_data:
                exp = 0
            elif segment.final_chunk_lengths_override is None:
                exp = segment_object.number_values * segment.num_chunks
            else:
                exp = segment_object.number_values * (segment.num_chunks - 1) + \
                    segment.final_chunk_lengths_override.get(segment_object.path, 0)
            if result != exp:
                return "_number_of_segment_values -> %r expected %r" % (result, exp)
        wrap(R, "_number_of_segment_values", "C04", "number_of_segment_values", post=post_nsv)

        def post_build_index(ctx, result, self, channel_path):
            first, offs = self._segment_channel_offsets[channel_path]
            vals = []
            for seg in self._segments:
                i = seg.object_index.get(channel_path) if seg.object_index is not None else None
                vals.append(0 if i is None else int(R._number_of_segment_values(seg.ordered_objects[i], seg)))
            nz = [k for k, v in enumerate(vals) if v > 0]
            if not nz:
                if not (first == len(vals) and len(offs) == 0):
                    return "no data: first=%r len(offs)=%d" % (first, len(offs))
                return None
            exp = list(np.cumsum(vals[nz[0]:nz[-1] + 1]))
            if first != nz[0] or [int(x) for x in offs] != [int(x) for x in exp]:
                return "index (%r, %r) expected (%r, %r) for per-segment counts %r" % (first, list(offs), nz[0], exp, vals)
        wrap(R.TdmsReader, "_build_index", "C04", "build_index-is-prefix-sums", post=post_build_index)

        def pre_window(self, channel_path, offset=0, length=None):
            return None

        def post_window(ctx, result, self, channel_path, offset=0, length=None):
            # result is a generator: wrap it so that the contract is evaluated at exhaustion
            return None
        orig_rrdfc = R.TdmsReader.read_raw_data_for_channel
        key = "C04/read_window-delivers-the-window's-length"
        COUNTS.setdefault(key, 0)

        @functools.wraps(orig_rrdfc)
        def rrdfc(self, channel_path, offset=0, length=None):
            gen = orig_rrdfc(self, channel_path, offset, length)
            if _busy():
                return gen

            def checked():
                total = 0
                for chunk in gen:
                    total += len(chunk)
                    yield chunk
                try:
                    n = self.object_metadata[channel_path].num_values
                    exp = max(0, (n - offset) if length is None else min(length, n - offset))
                    COUNTS[key] += 1
                    if total != exp and offset >= 0 and (length is None or length >= 0):
                        violated("C04", "read_window-delivers-the-window's-length",
                                 "%s offset=%r length=%r delivered %d values, window has %d (n=%d)" %
                                 (channel_path, offset, length, total, exp, n))
                except Exception:
                    pass
            return checked()
        R.TdmsReader.read_raw_data_for_channel = rrdfc

        def pre_slice(self, start, stop, step):
            if self._reader is None or len(self) > 4000:
                raise RuntimeError("skip")
            return np.asarray(self.read_data())

        def post_slice(full, result, self, start, stop, step):
            exp = full[start:stop:step]
            got = np.asarray(result)
            if got.shape != exp.shape or not np.array_equal(got, exp, equal_nan=True) \
                    if got.dtype.kind in "fc" else (got.shape != exp.shape or not np.array_equal(got, exp)):
                return "%s[%r:%r:%r] -> %r expected %r" % (self.path, start, stop, step, got[:8], exp[:8])
        wrap(T.TdmsChannel, "_read_slice", "C04", "read_slice-is-python-slice-of-the-full-array", pre=pre_slice,
             post=post_slice)

    # ---- C01 / C06 / C09: lead-in
    if want("C01") or want("C06") or want("C09"):
        def pre_lead_in(self, file, segment_position, is_index_file=False):
            pos = file.tell()
            b = file.read(28)
            file.seek(pos)
            return b

        def post_lead_in(b, result, self, file, segment_position, is_index_file=False):
            if len(b) < 28:
                return "returned %r for a lead-in of %d bytes" % (result, len(b))
            toc = struct.unpack("<l", b[4:8])[0]
            big = bool(toc & 64)
            (ver, no, ro) = struct.unpack((">" if big else "<") + "lQQ", b[8:28])
            d, n, inc = L.segment_extent(segment_position, no, ro, self._data_file_size)
            exp = (segment_position, toc, d, n, bool(inc))
            if self._data_file_size is None and inc:
                return None
            if tuple(result) != exp:
                return "_read_lead_in -> %r expected %r" % (result, exp)
        wrap(R.TdmsReader, "_read_lead_in", "C01", "lead-in-extent", pre=pre_lead_in, post=post_lead_in)

    # ---- C02: path index of an object list
    if want("C02"):
        def post_get_index(ctx, result, self, object_list):
            for i, o in enumerate(object_list):
                if result.get(o.path) != i:
                    return "get_index maps %r to %r, its position is %d in %r" % (
                        o.path, result.get(o.path), i, [x.path for x in object_list])
            if len(result) != len(object_list):
                return "index has %d entries for %d objects" % (len(result), len(object_list))
        wrap(S.SegmentIndexCache, "get_index", "C02", "path-index-maps-to-positions-in-this-list", post=post_get_index)

    # ---- C02: the object list a segment's metadata denotes (independent parse + spec.inherit.denote), and the
    #      frame: earlier segments' lists and objects are never modified
    if want("C02"):
        from spec import inherit as INH

        class _SkipContract(Exception):
            pass

        def parse_entries(file, big):
            o = ">" if big else "<"
            pos = file.tell()
            try:
                def rd(n):
                    b = file.read(n)
                    if len(b) != n:
                        raise _SkipContract("truncated metadata")
                    return b
                (count,) = struct.unpack(o + "L", rd(4))
                entries = []
                for _ in range(count):
                    (ln,) = struct.unpack(o + "L", rd(4))
                    path = rd(ln).decode("utf-8")
                    (header,) = struct.unpack(o + "L", rd(4))
                    idx = None
                    if header in (0xFFFFFFFF, 0):
                        pass
                    elif header in (20, 28):
                        (tcode, dim, nv) = struct.unpack(o + "LLQ", rd(16))
                        if tcode == 0x20:
                            (total,) = struct.unpack(o + "Q", rd(8))
                        else:
                            w = L.TYPES.get(tcode, (None, None))[1]
                            if w is None:
                                raise _SkipContract("type without width")
                            total = nv * w * dim
                        idx = (nv, total, tcode)
                    else:
                        raise _SkipContract("DAQmx or unknown raw data index")
                    (nprops,) = struct.unpack(o + "L", rd(4))
                    for _ in range(nprops):
                        (ln,) = struct.unpack(o + "L", rd(4))
                        rd(ln)
                        (pt,) = struct.unpack(o + "L", rd(4))
                        if pt == 0x20:
                            (ln,) = struct.unpack(o + "L", rd(4))
                            rd(ln)
                        else:
                            w = L.TYPES.get(pt, (None, None))[1]
                            if w is None:
                                raise _SkipContract("property type without width")
                            rd(w)
                    entries.append((path, header, idx))
                return entries
            finally:
                file.seek(pos)

        def view(o):
            code = None
            for c, cls in TY.tds_data_types.items():
                if cls is o.data_type:
                    code = c
            return (o.path, bool(o.has_data), (o.number_values, o.data_size, code))

        def pre_rso(self, file, previous_segment_objects, index_cache, previous_segment):
            if not self.toc_mask & 2:
                return ("nometa", None, None, None)
            big = bool(self.toc_mask & 64)
            entries = parse_entries(file, big)
            prev_list = None if previous_segment is None else [view(o) for o in previous_segment.ordered_objects]
            last = [(p, view(o)[2]) for p, o in previous_segment_objects.items()]
            snap = None if previous_segment is None else \
                [(o, view(o)) for o in previous_segment.ordered_objects]
            return (entries, prev_list, last, snap)

        def post_rso(ctx, result, self, file, previous_segment_objects, index_cache, previous_segment):
            entries, prev_list, last, snap = ctx
            if entries == "nometa":
                if [id(o) for o in self.ordered_objects] != [id(o) for o in previous_segment.ordered_objects]:
                    return "segment without metadata does not carry the previous segment's objects over"
                return None
            try:
                exp = INH.denote(prev_list, last, bool(self.toc_mask & 4), entries)
            except INH.Invalid:
                return "an encoding the format forbids was accepted"
            got = [view(o) for o in self.ordered_objects]
            if [e[0] for e in exp] != [g[0] for g in got]:
                return "object order %r, metadata denotes %r" % ([g[0] for g in got], [e[0] for e in exp])
            for e, g in zip(exp, got):
                if e[1] != g[1] or (e[1] and e[2] is not None and e[2] != g[2]):
                    return "object %s: got %r, metadata denotes %r" % (e[0], g, e)
            if snap is not None:
                if [o for (o, _) in snap] != list(previous_segment.ordered_objects) and \
                        [id(o) for (o, _) in snap] != [id(o) for o in previous_segment.ordered_objects]:
                    return "the previous segment's object list was modified"
                for (o, v) in snap:
                    if view(o) != v:
                        return "an object of the previous segment was modified in place: %r -> %r" % (v, view(o))
        wrap(S.TdmsSegment, "read_segment_objects", "C02", "object-list-is-what-the-metadata-denotes+frame",
             pre=pre_rso, post=post_rso)

    # ---- C12: timestamps
    if want("C12") or want("C07"):
        EPOCH = int(np.datetime64("1904-01-01T00:00:00", "us").astype("int64"))

        def post_ts_init(ctx, result, self, value):
            v = np.datetime64(self.value, "us") if not isinstance(self.value, np.datetime64) else self.value
            unit = np.datetime_data(v.dtype)[0]
            if unit not in ("s", "ms", "us", "ns"):
                return None
            t_ns = int(v.astype("datetime64[ns]").astype("int64")) if unit == "ns" else None
            t_us = int(v.astype("datetime64[us]").astype("int64"))
            if t_ns is not None and t_ns % 1000:
                return None                        # finer than a microsecond: outside the statement
            (f, s) = struct.unpack("<Qq", self.bytes)
            us = (t_us - EPOCH) - s * 10 ** 6
            if not (0 <= us < 10 ** 6 and us * 2 ** 64 <= f * 10 ** 6 < (us + 1) * 2 ** 64):
                return "TimeStamp(%r) -> seconds %d fractions %d: not within the microsecond written" % (v, s, f)
        wrap(TY.TimeStamp, "__init__", "C12", "timestamp-encode-within-the-microsecond", post=post_ts_init)

        def post_as_dt64(ctx, result, self, resolution="us"):
            k = {"s": 1, "ms": 10 ** 3, "us": 10 ** 6, "ns": 10 ** 9, "ps": 10 ** 12}.get(resolution)
            if k is None or k > 10 ** 9:
                return None
            exact_num = (self.seconds * 2 ** 64 + self.second_fractions) * k      # / 2**64 units since 1904
            got = int(np.datetime64(result, resolution).astype("int64")) - \
                int(np.datetime64("1904-01-01T00:00:00", resolution).astype("int64"))
            if abs(got * 2 ** 64 - exact_num) >= 2 ** 64:
                return "as_datetime64(%r) of (%d, %d) -> %r: off by a unit or more" % (
                    resolution, self.seconds, self.second_fractions, result)
        wrap(TS.TdmsTimestamp, "as_datetime64", "C12", "timestamp-decode-within-one-unit", post=post_as_dt64)

    # ---- C16: names
    if want("C16"):
        def post_path_init(ctx, result, self, *components):
            s = str(self)
            back = C.ObjectPath.from_string(s)
            if (back.group, back.channel) != (self.group, self.channel):
                return "ObjectPath%r -> %r -> %r" % (components, s, (back.group, back.channel))
        wrap(C.ObjectPath, "__init__", "C16", "path-round-trip", post=post_path_init)

    # ---- C13 / C14 / C17: scales are pure and deliver doubles
    if want("C13") or want("C14") or want("C17"):
        for cls_name in ("LinearScaling", "PolynomialScaling", "TableScaling", "RtdScaling", "ThermistorScaling",
                         "StrainScaling", "ThermocoupleScaling"):
            cls = getattr(SC, cls_name)

            def pre_scale(self, data):
                return np.array(data, copy=True) if isinstance(data, np.ndarray) else None

            def post_scale(before, result, self, data, _n=cls_name):
                if before is None:
                    return None
                if not np.array_equal(before, data, equal_nan=True):
                    return "%s.scale modified its input in place" % _n
                if isinstance(result, np.ndarray) and result.dtype != np.dtype("float64"):
                    return "%s.scale returned dtype %s (declared float64)" % (_n, result.dtype)
                if isinstance(result, np.ndarray) and result.shape != data.shape:
                    return "%s.scale changed the shape %r -> %r" % (_n, data.shape, result.shape)
            wrap(cls, "scale", "C13", "%s.scale-pure-double-elementwise" % cls_name, pre=pre_scale, post=post_scale)

    # ---- C08 / C07: every segment TdmsWriter emits parses with the independent structural parser
    if want("C08") or want("C07"):
        from nptdms import writer as W

        def pre_seg_write(self, file):
            if not isinstance(file, io.BytesIO):
                raise RuntimeError("skip: only in-memory streams can be read back")
            return file.tell()

        WIDTH = {c: w for c, (_, w, _) in L.TYPES.items() if w is not None}

        def parse_file(data):
            """independent structural parse of written bytes (little-endian, as TdmsWriter writes): the same checks
            as bounded.checks_writer.parse_file, repeated here because importing the bounded package would change
            the logging / warning configuration the repository's tests observe"""
            segs = []
            pos = 0
            while pos < len(data):
                assert len(data) - pos >= 28, "truncated lead-in"
                tag = data[pos:pos + 4]
                toc, ver, no, ro = struct.unpack("<llQQ", data[pos + 4:pos + 28])
                md = data[pos + 28:pos + 28 + ro]
                assert len(md) == ro, "metadata shorter than raw data offset"
                p = 0
                (count,) = struct.unpack("<L", md[p:p + 4]); p += 4
                objs = []
                implied = 0
                for _ in range(count):
                    (ln,) = struct.unpack("<L", md[p:p + 4]); p += 4
                    path = md[p:p + ln].decode("utf-8"); p += ln
                    (ixlen,) = struct.unpack("<L", md[p:p + 4])
                    index = None
                    if ixlen == 0xFFFFFFFF:
                        p += 4
                    else:
                        tcode, dim, nv = struct.unpack("<LLQ", md[p + 4:p + 20])
                        size, total = 20, None
                        if tcode == 0x20:
                            (total,) = struct.unpack("<Q", md[p + 20:p + 28])
                            size = 28
                        assert ixlen == size, "raw index length field %d but the structure is %d bytes (%s)" % (ixlen, size, path)
                        assert dim == 1, "dimension %d" % dim
                        p += size
                        index = (tcode, nv, total)
                        implied += total if tcode == 0x20 else nv * WIDTH[tcode]
                    (nprops,) = struct.unpack("<L", md[p:p + 4]); p += 4
                    for _ in range(nprops):
                        (ln,) = struct.unpack("<L", md[p:p + 4]); p += 4 + ln
                        (pt,) = struct.unpack("<L", md[p:p + 4]); p += 4
                        if pt == 0x20:
                            (ln,) = struct.unpack("<L", md[p:p + 4]); p += 4 + ln
                        else:
                            p += WIDTH[pt]
                    objs.append((path, index))
                assert p == ro, "metadata parses to %d bytes, raw data offset says %d" % (p, ro)
                assert no - ro == implied, "raw data length %d but types and counts imply %d" % (no - ro, implied)
                segs.append(dict(tag=tag, toc=toc, version=ver, next=no, raw=ro, objects=objs))
                pos = pos + 28 + (no if tag == b"TDSm" else ro)
            assert pos == len(data), "segments do not tile the bytes written"
            return segs

        def post_seg_write(pos, result, self, file):
            data = file.getvalue()[pos:file.tell()]
            try:
                segs = parse_file(data)
            except (AssertionError, KeyError, struct.error) as e:
                return "segment written by TdmsWriter is not self-consistent: %r" % (e,)
            if len(segs) != 1:
                return "one TdmsSegment.write produced %d segments" % len(segs)
            sg = segs[0]
            paths = [o[0] for o in sg["objects"]]
            if len(set(paths)) != len(paths):
                return "an object is listed twice in one segment: %r" % paths
            for i, pth in enumerate(paths):
                if pth.count("'") >= 4 and pth != "/":
                    grp = pth[:pth.index("'/'") + 1] if "'/'" in pth else None
                    if grp in paths and paths.index(grp) > i:
                        return "channel %s is listed before its group" % pth
        wrap(W.TdmsSegment, "write", "C08", "written-segment-parses-and-is-self-consistent", pre=pre_seg_write,
             post=post_seg_write)

    # ---- C20: close
    if want("C20"):
        def pre_close(self):
            return (self._file, self._file_path, self._index_file, self._index_file_path)

        def post_close(ctx, result, self):
            f, fp, i, ip = ctx
            if fp is not None and f is not None and not f.closed:
                return "reader.close() left the data file it opened open"
            if fp is None and f is not None and hasattr(f, "closed") and f.closed:
                return "reader.close() closed a stream supplied by the caller"
            if ip is None and i is not None and hasattr(i, "closed") and i.closed:
                return "reader.close() closed an index stream supplied by the caller"
            if self._file is not None or self._index_file is not None:
                return "reader.close() kept a reference to a stream"
        wrap(R.TdmsReader, "close", "C20", "close-closes-exactly-the-owned-handles", pre=pre_close, post=post_close)


# ---------------------------------------------------------------------------------------------- pytest hooks

def pytest_configure(config):
    only = os.environ.get("RTC_ONLY")
    install(set(only.split(",")) if only else None)


def pytest_sessionfinish(session, exitstatus):
    out = os.environ.get("RTC_OUT")
    doc = {"evaluations": COUNTS, "violations": VIOLATIONS, "pytest_exitstatus": int(exitstatus)}
    if out:
        with open(out, "w") as f:
            json.dump(doc, f, indent=1)
    tr = session.config.pluginmanager.get_plugin("terminalreporter")
    if tr is not None:
        tr.write_line("runtime contracts: %d evaluations over %d contracts, %d violations" % (
            sum(v for k, v in COUNTS.items() if not k.endswith("/skipped")),
            len([k for k in COUNTS if not k.endswith("/skipped")]), len(VIOLATIONS)))
