"""AST interpreter over mixed concrete / symbolic values.

* The real source files of $REPO/nptdms are parsed on every run; nothing is
  imported from the repository.
* Statement execution is written as Python generators so that generator
  functions of the repository are executed lazily with their real semantics.
* Path exploration: a path is one complete re-execution that follows a trace
  of branch decisions; new decisions are checked for feasibility with z3 and the
  alternative is queued (explore()).
* Program-level exceptions are ProgExc(cls); the message text of raised
  exceptions is dropped (not evaluated).
* Dropped by extraction: log.* calls, `if log.isEnabledFor(..)` blocks,
  `with Timer(..)` (body kept), docstrings.
"""
import ast
import functools
import sys
import os
import sys
import hashlib
import operator
import z3

from . import sym
from .sym import (SymInt, SymBool, SymReal, Unsupported, is_sym, sym_not)


# --------------------------------------------------------------------------- signals

class ProgExc(Exception):
    """An exception of the interpreted program."""

    def __init__(self, cls, origin=""):
        Exception.__init__(self, getattr(cls, "__name__", str(cls)), origin)
        self.cls = cls
        self.origin = origin


class _Return(Exception):
    def __init__(self, value):
        self.value = value


class _Break(Exception):
    pass


class _Continue(Exception):
    pass


class PathEnd(Exception):
    """The current path stops here (cut at a loop invariant, infeasible, assumption false)."""


class Drift(Exception):
    """A contract no longer binds to the code (renamed/removed function, loop, variable)."""


class Poison(object):
    """value of a variable that a loop body assigns but the loop contract does not mention: a temporary of one
    iteration.  Reading it (before the body has assigned it again) means it is loop-carried state the invariant
    says nothing about: the contract has drifted.  Never read -> the proof does not depend on it."""

    def __init__(self, name, loop):
        self.name, self.loop = name, loop


# --------------------------------------------------------------------------- state

class Obligation(object):
    __slots__ = ("name", "kind", "pc", "goal", "status", "time", "backend", "model", "where", "extra", "known",
                 "observe")

    def __init__(self, name, kind, pc, goal, where="", known=None):
        self.known = known or []      # [(finding id, z3 condition describing the known failing class)]
        self.observe = {}
        self.name = name
        self.kind = kind
        self.pc = pc
        self.goal = goal
        self.status = None
        self.time = 0.0
        self.backend = None
        self.model = None
        self.where = where
        self.extra = None


class State(object):
    def __init__(self, trace, worklist, feas_timeout_ms=1500):
        self.trace = list(trace)
        self.pos = 0
        self.taken = []
        self.worklist = worklist
        self.pc = []
        self.solver = z3.Solver()
        self.solver.set("timeout", feas_timeout_ms)
        self.obligations = []
        self.divmod_cache = {}
        self.divmods = []
        self.ghost = {}
        self.allocated = set()        # ids of Obj allocated on this path (after mark_frame)
        self.frame_on = False
        self.writes = []              # (obj, field) writes to pre-existing objects
        self.notes = []
        self.hints = []               # extra z3 facts to add to every obligation (already proved lemmas)
        self.decisions_checked = 0
        self.syms = {}                # name -> Sym leaf (for models / replay)
        self.nonzero_divs = []
        self.observables = {}         # name -> z3 term, evaluated in counter-models

    def observe(self, name, v):
        if isinstance(v, (SymInt, SymBool, SymReal)):
            self.observables[name] = v.e
        elif z3.is_expr(v):
            self.observables[name] = v

    # -- path condition
    def add_fact(self, e):
        e = z3.simplify(e) if not isinstance(e, bool) else z3.BoolVal(e)
        if z3.is_true(e):
            return
        self.pc.append(e)
        self.solver.add(e)

    def assume(self, v):
        """assume a (Sym)bool; end the path if it is plainly false"""
        if isinstance(v, SymBool):
            self.add_fact(v.e)
        elif z3.is_expr(v):
            self.add_fact(v)
        elif not v:
            raise PathEnd("assumption false")

    def forced_int(self, v):
        """the value of a symbolic int if the path condition forces a single one, else None (no path split)"""
        if not isinstance(v, SymInt):
            return v if isinstance(v, int) else None
        if self.solver.check() != z3.sat:
            return None
        k = self.solver.model().eval(v.e, model_completion=True)
        if not z3.is_int_value(k):
            return None
        if self.solver.check(v.e != k) == z3.unsat:
            return k.as_long()
        return None

    def prune(self):
        """end the path if its condition is unsatisfiable"""
        if self.pos >= len(self.trace) and self.solver.check() == z3.unsat:
            raise PathEnd("infeasible")

    def note_division(self, d):
        self.nonzero_divs.append(d)

    def _feasible(self, e):
        self.decisions_checked += 1
        r = self.solver.check(e)
        return r != z3.unsat

    def decide(self, e):
        e = z3.simplify(e)
        if z3.is_true(e):
            return True
        if z3.is_false(e):
            return False
        if self.pos < len(self.trace):
            d = self.trace[self.pos]
        else:
            t_ok = self._feasible(e)
            if not t_ok:
                d = False
            else:
                f_ok = self._feasible(z3.Not(e))
                if not f_ok:
                    d = True
                else:
                    d = True
                    self.worklist.append(self.taken + [False])
        self.pos += 1
        self.taken.append(d)
        self.add_fact(e if d else z3.Not(e))
        return d

    def choose(self, n, label=""):
        """non-deterministic choice among range(n) (all alternatives explored)"""
        if n <= 1:
            return 0
        if self.pos < len(self.trace):
            d = self.trace[self.pos]
        else:
            d = 0
            for k in range(n - 1, 0, -1):
                self.worklist.append(self.taken + [k])
        self.pos += 1
        self.taken.append(d)
        return d

    # -- obligations
    def check(self, name, goal, kind="ensures", where="", known=None):
        """record `pc => goal`; afterwards goal is assumed on the path"""
        if known:
            known = [(kid, (c.e if isinstance(c, SymBool) else (c if z3.is_expr(c) else z3.BoolVal(bool(c)))))
                     for (kid, c) in known]
        if isinstance(goal, SymBool):
            g = goal.e
        elif z3.is_expr(goal):
            g = goal
        else:
            g = z3.BoolVal(bool(goal))
        ob = Obligation(name, kind, list(self.pc), g, where, known)
        ob.observe = dict(self.observables)
        self.obligations.append(ob)
        if not z3.is_true(z3.simplify(g)):
            self.add_fact(g)
        return ob

    def cover(self, name, cond):
        """vacuity guard: `pc and cond` must be satisfiable (recorded as goal Not(cond), expected to be REFUTED)"""
        c = cond.e if isinstance(cond, SymBool) else (cond if z3.is_expr(cond) else z3.BoolVal(bool(cond)))
        ob = Obligation(name, "cover", list(self.pc), z3.Not(c), "", None)
        ob.observe = {}
        self.obligations.append(ob)
        return ob

    def fresh_int(self, prefix="v"):
        v = sym.mk_int(sym.fresh_name(prefix))
        return v

    def fresh_bool(self, prefix="b"):
        return sym.mk_bool(sym.fresh_name(prefix))

    def fresh_real(self, prefix="x"):
        return sym.mk_real(sym.fresh_name(prefix))

    def named_int(self, name):
        v = sym.mk_int(name)
        self.syms[name] = v
        return v

    def named_bool(self, name):
        v = sym.mk_bool(name)
        self.syms[name] = v
        return v

    def named_real(self, name):
        v = sym.mk_real(name)
        self.syms[name] = v
        return v


# --------------------------------------------------------------------------- program values

class Obj(object):
    """Instance of an interpreted class."""

    def __init__(self, cls):
        object.__setattr__(self, "_cls", cls)
        object.__setattr__(self, "_f", {})
        object.__setattr__(self, "_partial", False)

    def __repr__(self):
        return "<Obj %s %s>" % (self._cls.name, {k: v for k, v in self._f.items() if not k.startswith("_cached")})

    def __getattr__(self, name):          # convenience for contract lambdas: obj.field
        f = object.__getattribute__(self, "_f")
        if name in f:
            return f[name]
        interp = _current_interp[0]
        if interp is not None:
            return interp.getattr_value(self, name)
        raise AttributeError(name)

    def __setattr__(self, name, value):
        self._f[name] = value

    def __len__(self):
        interp = _current_interp[0]
        r = interp.call_method(self, "__len__", [], {})
        if isinstance(r, int):
            return r
        raise Unsupported("len() of object is symbolic; use interp.len_value")

    def __eq__(self, other):
        if self is other:
            return True
        interp = _current_interp[0]
        if interp is not None and interp.find_class_attr(self._cls, "__eq__") is not None:
            return interp.call_method(self, "__eq__", [other], {})
        return False

    def __ne__(self, other):
        r = self.__eq__(other)
        return sym_not(r)

    def __hash__(self):
        # Python-level identity hash; the program-level hash() goes through models.m_hash, and dict
        # operations with instances that define __eq__ are modelled by search (see Interp._objkey_find)
        return id(self)

    def __iter__(self):
        interp = _current_interp[0]
        return iter(interp.call_method(self, "__iter__", [], {}))

    def __getitem__(self, k):
        interp = _current_interp[0]
        return interp.call_method(self, "__getitem__", [k], {})


_current_interp = [None]


class ClassVal(object):
    def __init__(self, name, bases, ns, qualname, module):
        self.name = name
        self.__name__ = name
        self.bases = bases
        self.ns = ns
        self.qualname = qualname
        self.module = module
        self.mro = self._mro()

    def _mro(self):
        out = [self]
        for b in self.bases:
            if isinstance(b, ClassVal):
                for c in b.mro:
                    if c not in out:
                        out.append(c)
        return out

    def __repr__(self):
        return "<class %s>" % self.qualname

    def __call__(self, *args, **kwargs):
        return _current_interp[0].instantiate(self, list(args), kwargs)

    def __getattr__(self, name):
        if name.startswith("__") and name not in ("__slots__",):
            raise AttributeError(name)
        interp = _current_interp[0]
        if interp is None:
            raise AttributeError(name)
        return interp.getattr_value(self, name)

    def __hash__(self):
        return id(self)

    def __eq__(self, other):
        return self is other

    def __ne__(self, other):
        return self is not other


class FuncVal(object):
    # internals live in slots so that functools.wraps (which copies __dict__) cannot clone them
    __slots__ = ("node", "genv", "cenv", "qualname", "module", "defaults", "kwdefaults", "is_generator",
                 "__dict__")

    def __init__(self, node, genv, cenv, qualname, module, defaults, kwdefaults):
        self.node = node
        self.genv = genv
        self.cenv = cenv
        self.qualname = qualname
        self.module = module
        self.defaults = defaults
        self.kwdefaults = kwdefaults
        self.__name__ = getattr(node, "name", "<lambda>")
        self.__qualname__ = qualname
        self.__doc__ = None
        self.__module__ = module
        self.is_generator = _has_yield(node)

    def __repr__(self):
        return "<func %s>" % self.qualname

    def __call__(self, *args, **kwargs):
        return _current_interp[0].call_function(self, list(args), kwargs)

    def __get__(self, obj, objtype=None):
        return self


class BoundMethod(object):
    def __init__(self, func, selfv):
        self.func = func
        self.selfv = selfv

    def __call__(self, *args, **kwargs):
        return _current_interp[0].call_value(self.func, [self.selfv] + list(args), kwargs)

    def __repr__(self):
        return "<bound %r of %r>" % (self.func, type(self.selfv).__name__)


class PropertyVal(object):
    def __init__(self, fget):
        self.fget = fget


class StaticVal(object):
    def __init__(self, f):
        self.f = f


class ClassMethodVal(object):
    def __init__(self, f):
        self.f = f


class SuperVal(object):
    def __init__(self, cls, selfv):
        self.cls = cls
        self.selfv = selfv


class ModuleVal(object):
    def __init__(self, name, env):
        self._name = name
        self._env = env

    def __getattr__(self, k):
        env = object.__getattribute__(self, "_env")
        if k in env:
            return env[k]
        raise AttributeError(k)

    def __repr__(self):
        return "<module %s>" % self._name


class GenVal(object):
    """A generator object of an interpreted generator function (lazy)."""

    def __init__(self, pygen, qualname):
        self.pygen = pygen
        self.qualname = qualname

    def __iter__(self):
        return self

    def __next__(self):
        return next(self.pygen)


def _has_yield(fnode):
    if isinstance(fnode, ast.Lambda):
        return False
    for n in _walk_same_scope(fnode):
        if isinstance(n, (ast.Yield, ast.YieldFrom)):
            return True
    return False


def _walk_same_scope(fnode):
    todo = list(fnode.body)
    while todo:
        n = todo.pop()
        yield n
        for c in ast.iter_child_nodes(n):
            if isinstance(c, (ast.FunctionDef, ast.Lambda, ast.ClassDef, ast.AsyncFunctionDef)):
                continue
            todo.append(c)


class Env(object):
    __slots__ = ("vars", "parent", "genv", "is_class")

    def __init__(self, genv, parent=None):
        self.vars = {}
        self.parent = parent
        self.genv = genv
        self.is_class = False

    def lookup(self, name):
        e = self
        while e is not None:
            if name in e.vars:
                return e.vars[name]
            e = e.parent
        if name in self.genv:
            return self.genv[name]
        raise KeyError(name)


class _NoLog(object):
    def __getattr__(self, k):
        if k == "isEnabledFor":
            return lambda *a, **k: False
        return lambda *a, **k: None


class _NoLogManager(object):
    def get_logger(self, *a, **k):
        return _NoLog()


class _TimerStub(object):
    def __init__(self, *a, **k):
        pass

    def __enter__(self):
        return self

    def __exit__(self, *a):
        return False


_BINOPS = {
    ast.Add: operator.add, ast.Sub: operator.sub, ast.Mult: operator.mul,
    ast.FloorDiv: operator.floordiv, ast.Mod: operator.mod, ast.Div: operator.truediv,
    ast.Pow: operator.pow, ast.BitAnd: operator.and_, ast.BitOr: operator.or_,
    ast.BitXor: operator.xor, ast.LShift: operator.lshift, ast.RShift: operator.rshift,
    ast.MatMult: operator.matmul,
}
_IBINOPS = {ast.Add: operator.iadd, ast.Mult: operator.imul}
_CMPOPS = {
    ast.Eq: operator.eq, ast.NotEq: operator.ne, ast.Lt: operator.lt, ast.LtE: operator.le,
    ast.Gt: operator.gt, ast.GtE: operator.ge,
}

_NATIVE_EXC = (KeyError, IndexError, AttributeError, TypeError, ValueError, ZeroDivisionError,
               StopIteration, NotImplementedError, OverflowError, UnicodeError, RuntimeError,
               EOFError, OSError)


def _is_model_value(v, depth=0):
    """one of the verifier's model objects (not the scalar proxies, whose operators mirror int/bool/float)"""
    if isinstance(v, (SymInt, SymBool, SymReal)) or v is None or isinstance(v, (int, float, str, bytes)):
        return False
    if isinstance(v, (list, tuple)) and depth < 2:
        return any(_is_model_value(x, depth + 1) for x in v[:8])
    if isinstance(v, dict) and depth < 2:
        return any(_is_model_value(x, depth + 1) for x in list(v.values())[:8])
    mod = getattr(type(v), "__module__", "") or ""
    return mod.split(".")[0] in ("pyvc", "contracts", "spec")


_DATA_MODEL_MODULES = ("pyvc.models", "pyvc.npmodel", "pyvc.absarr", "pyvc.timemodel", "pyvc.zarr")


def _is_data_model(v):
    """a model of program *data* (symbolic string, array, file, interpreted object, generator), as opposed to the
    interpreter's own function / class / module values"""
    if isinstance(v, (Obj, GenVal)):
        return True
    if isinstance(v, (SymInt, SymBool, SymReal)) or v is None or isinstance(v, (int, float, str, bytes, type)):
        return False
    mod = getattr(type(v), "__module__", "") or ""
    return mod in _DATA_MODEL_MODULES or mod.split(".")[0] in ("contracts", "spec")


_KEYED_METHODS = {"dict": ("get", "pop", "setdefault", "__contains__"),
                  "set": ("add", "discard", "remove", "__contains__"), "frozenset": ("__contains__",),
                  "list": ("index", "count", "remove", "__contains__")}


def _symbolic_key(v):
    """a value whose equality is decided symbolically (proxy scalar or data model), so that Python's identity
    hashing / comparison of the proxy object would not be the modelled value's semantics"""
    if isinstance(v, (SymInt, SymBool, SymReal)):
        return True
    if isinstance(v, tuple):
        return any(_symbolic_key(x) for x in v)
    mod = getattr(type(v), "__module__", "") or ""
    return mod in ("pyvc.models", "pyvc.timemodel") or mod.split(".")[0] in ("contracts", "spec")


def _is_engine_callable(f):
    """a callable that belongs to the verifier (model function, method of a model object, contract lambda)"""
    mod = getattr(f, "__module__", None) or ""
    if mod.split(".")[0] in ("pyvc", "contracts", "spec", "__main__", "tools"):
        return True
    selfv = getattr(f, "__self__", None)
    if selfv is not None and not isinstance(selfv, type(sys)) and \
            (_is_model_value(selfv) or isinstance(selfv, (list, dict, set, tuple, str, bytes, bytearray))):
        # methods of model objects are models; methods of real containers (list.append, dict.get, ...) keep
        # reference semantics, which is also what Python does with the modelled objects
        return True
    if isinstance(f, functools.partial):
        return _is_engine_callable(f.func)
    return False


def _native_failure(e, operands, what):
    """A Python exception escaped from a native operation.  If a model object was involved, the exception may be
    the model's gap rather than the program's behaviour: undecided (Unsupported), never a verdict."""
    if any(_is_model_value(o) for o in operands):
        return Unsupported("%s on a model object raised %s (%s): not modelled" % (what, type(e).__name__, str(e)[:80]))
    return ProgExc(type(e), what)



class LoopSpec(object):
    """Inductive invariant for one loop (function qualname + ordinal in source order).

    invariant(env, k, st) -> list of (name, SymBool) ; k = number of completed iterations
    havoc: dict var -> kind ('int','bool', callable(st)->value) for variables modified in the body
    seq_len(env_iterable) optional
    """

    def __init__(self, invariant, havoc=None, ghost_init=None, on_iter=None, hints=None, name=""):
        self.invariant = invariant
        self.havoc = havoc or {}
        self.ghost_init = ghost_init
        self.on_iter = on_iter
        self.hints = hints
        self.name = name


class SymSeq(object):
    """A sequence of symbolic length; element k is produced by item(k) (k: SymInt or int)."""

    def __init__(self, length, item, name="seq"):
        self.length = length
        self.item = item
        self.name = name


class SymCompDict(object):
    """{key(e): value(e) for e in seq} over a sequence of symbolic length.  A lookup is decided by a free choice:
    found at a free position j (0 <= j < len, key(j) == the key looked up: assumed) or not found (KeyError).
    Over-approximation: the not-found branch does not assume that no position matches, so everything proved holds
    for the real dictionary; other uses (iteration, len, stores) are unsupported."""
    _absent = ()

    def __init__(self, interp, node, env, func, seq):
        self.interp, self.node, self.env, self.func, self.seq = interp, node, env, func, seq
        self.lookups = []            # (key looked up, hit, position or None, value or None)

    def _pair(self, j):
        g = self.node.generators[0]
        e2 = Env(self.env.genv, self.env)
        self.interp.assign(g.target, self.seq.item(j), e2, self.func)
        return (self.interp.eval(self.node.key, e2, self.func), self.interp.eval(self.node.value, e2, self.func))

    def __getitem__(self, x):
        st = sym.get_state()
        for (x0, hit, j, v) in self.lookups:
            if x0 is x:
                if hit:
                    return v
                raise ProgExc(KeyError, "key")
        if st.choose(2, "comprehension-lookup") == 0:
            j = st.fresh_int("comp_pos")
            st.assume(0 <= j)
            st.assume(j < self.seq.length)
            k, v = self._pair(j)
            st.assume(self.interp.compare(ast.Eq, k, x))
            self.lookups.append((x, True, j, v))
            return v
        self.lookups.append((x, False, None, None))
        raise ProgExc(KeyError, "key")

    def __contains__(self, x):
        try:
            self[x]
            return True
        except ProgExc:
            return False

    def get(self, x, default=None):
        try:
            return self[x]
        except ProgExc:
            return default


class Interp(object):
    def __init__(self, repo, package="nptdms"):
        self.repo = repo
        self.package = package
        self.modules = {}
        self.sources = {}
        self.trees = {}
        self.models = {}              # real callable / name -> model function
        self.contracts_at_calls = {}  # qualname -> callable(interp, func, args, kwargs) replacing the body
        self.loop_specs = {}          # (qualname, ordinal) -> LoopSpec
        self.stmt_hooks = {}          # (qualname, lineno-independent key) -> hook
        self.call_stack = []
        self.loop_ordinals = {}
        self.external = {}
        self.yield_hook = None        # callable(qualname, value) at every yield of interpreted generators
        self.unroll_limit = 40
        self.depth = 0
        from . import models
        models.install(self)
        _current_interp[0] = self

    # ------------------------------------------------------------------ modules
    def path_of(self, modname):
        rel = modname.replace(".", "/")
        p = os.path.join(self.repo, rel + ".py")
        if os.path.exists(p):
            return p
        p = os.path.join(self.repo, rel, "__init__.py")
        if os.path.exists(p):
            return p
        return None

    def source_of(self, modname):
        if modname not in self.sources:
            p = self.path_of(modname)
            if p is None:
                raise Drift("module %s not found in %s" % (modname, self.repo))
            with open(p, "r", encoding="utf-8") as f:
                self.sources[modname] = f.read()
            self.trees[modname] = ast.parse(self.sources[modname], filename=p)
        return self.sources[modname]

    def tree_of(self, modname):
        self.source_of(modname)
        return self.trees[modname]

    def load_module(self, modname):
        if modname in self.modules:
            return self.modules[modname]
        if modname in self.external:
            return self.external[modname]
        if modname == self.package:
            # the package itself: lazily resolve attributes to submodule members
            env = {}
            m = ModuleVal(modname, env)
            self.modules[modname] = m
            return m
        if not modname.startswith(self.package + "."):
            return self._real_module(modname)
        short = modname[len(self.package) + 1:]
        if short == "log":
            m = ModuleVal(modname, {"log_manager": _NoLogManager()})
            self.modules[modname] = m
            return m
        if short.startswith("export"):
            m = ModuleVal(modname, {"hdf_export": None, "pandas_export": None})
            self.modules[modname] = m
            return m
        tree = self.tree_of(modname)
        env = {"__name__": modname}
        m = ModuleVal(modname, env)
        self.modules[modname] = m
        old = sym.get_state()
        self._run_module(tree, env, modname)
        sym.set_state(old)
        if short == "utils":
            env["Timer"] = _TimerStub
        return m

    def _real_module(self, modname):
        if modname in self.external:
            return self.external[modname]
        import importlib
        return importlib.import_module(modname)

    def _run_module(self, tree, env, modname):
        e = Env(env)
        e.vars = env
        for _ in self.exec_block(tree.body, e, modname, None):
            raise Unsupported("yield at module level")

    def get(self, dotted):
        """'tdms_segment.TdmsSegment._calculate_chunks' -> value"""
        parts = dotted.split(".")
        m = self.load_module(self.package + "." + parts[0])
        v = m
        for p in parts[1:]:
            try:
                if isinstance(v, ModuleVal):
                    v = v._env[p]
                elif isinstance(v, ClassVal):
                    v = self._class_raw(v, p)
                else:
                    v = getattr(v, p)
            except (KeyError, AttributeError):
                raise Drift("%s does not resolve at %r" % (dotted, p))
        return v

    def _class_raw(self, cls, name):
        for c in cls.mro:
            if name in c.ns:
                return c.ns[name]
        raise KeyError(name)

    def func_node(self, dotted):
        v = self.get(dotted)
        while isinstance(v, (StaticVal, ClassMethodVal)):
            v = v.f
        if isinstance(v, PropertyVal):
            v = v.fget
        if not isinstance(v, FuncVal):
            raise Drift("%s is not a function" % dotted)
        return v

    def fingerprint(self, dotted):
        f = self.func_node(dotted)
        return hashlib.sha256(ast.dump(_strip(f.node)).encode()).hexdigest()[:16]

    # ------------------------------------------------------------------ attribute protocol
    def find_class_attr(self, cls, name):
        for c in cls.mro:
            if name in c.ns:
                return c.ns[name]
        return None

    def declared_fields(self, cls):
        """instance fields a class declares: __slots__ entries and self.<name> targets in __init__ (over the mro)"""
        cache = self.__dict__.setdefault("_declared_fields", {})
        if cls in cache:
            return cache[cls]
        out = set()
        for c in cls.mro:
            sl = c.ns.get("__slots__")
            if isinstance(sl, (list, tuple)):
                out.update(x for x in sl if isinstance(x, str))
            init = c.ns.get("__init__")
            node = getattr(init, "node", None)
            if node is not None:
                for n in ast.walk(node):
                    if isinstance(n, ast.Attribute) and isinstance(n.ctx, ast.Store) and \
                            isinstance(n.value, ast.Name) and n.value.id == "self":
                        out.add(n.attr)
        cache[cls] = out
        return out

    def has_class_attr(self, cls, name):
        for c in cls.mro:
            if name in c.ns:
                return True
        return False

    def getattr_value(self, v, name):
        if isinstance(v, Obj):
            f = v._f
            if name in f:
                return f[name]
            if name == "__class__":
                return v._cls
            a = self.find_class_attr(v._cls, name)
            if a is None and self.has_class_attr(v._cls, name):
                return None
            if a is None:
                for b in v._cls.mro:
                    for rb in b.bases:
                        if not isinstance(rb, ClassVal) and hasattr(rb, name) and name not in ("__init__",):
                            raise Unsupported("attribute %s inherited from native base" % name)
                if getattr(v, "_partial", False) and name in self.declared_fields(v._cls):
                    # harness-built object: a field the class declares (slot or assigned in __init__) but the
                    # contract does not model -> undecided, never a verdict
                    raise Unsupported("field %s.%s is not modelled by the contract" % (v._cls.name, name))
                raise ProgExc(AttributeError, "%s.%s" % (v._cls.name, name))
            return self._bind(a, v, v._cls)
        if isinstance(v, ClassVal):
            if name == "__name__":
                return v.name
            a = self.find_class_attr(v, name)
            if a is None and self.has_class_attr(v, name):
                return None
            if a is None:
                raise ProgExc(AttributeError, "%s.%s" % (v.name, name))
            if isinstance(a, StaticVal):
                return a.f
            if isinstance(a, ClassMethodVal):
                return BoundMethod(a.f, v)
            return a
        if isinstance(v, ModuleVal):
            if name in v._env:
                return v._env[name]
            if v._name == self.package:
                return self._package_attr(name)
            raise ProgExc(AttributeError, "%s.%s" % (v._name, name))
        if isinstance(v, SuperVal):
            mro = v.selfv._cls.mro if isinstance(v.selfv, Obj) else v.selfv.mro
            i = mro.index(v.cls)
            for c in mro[i + 1:]:
                if name in c.ns:
                    a = c.ns[name]
                    if isinstance(v.selfv, ClassVal):
                        if isinstance(a, ClassMethodVal):
                            return BoundMethod(a.f, v.selfv)
                        if isinstance(a, StaticVal):
                            return a.f
                        return a
                    return self._bind(a, v.selfv, c)
            if name == "__init__":
                return lambda *a, **k: None
            raise ProgExc(AttributeError, "super.%s" % name)
        m = self.models.get(("attr", type(v), name))
        if m is not None:
            return m(self, v)
        try:
            return getattr(v, name)
        except AttributeError:
            mod = getattr(type(v), "__module__", "") or ""
            if mod.split(".")[0] in ("pyvc", "contracts", "spec") and name not in getattr(v, "_absent", ()):
                # v is one of the verifier's model objects: an attribute the model does not implement is a limit
                # of the model (undecided), never evidence that the program raises AttributeError.  Model classes
                # list in `_absent` the attributes the modelled Python type genuinely lacks.
                raise Unsupported("model %s does not implement attribute %r" % (type(v).__name__, name))
            raise ProgExc(AttributeError, "%s.%s" % (type(v).__name__, name))

    def _package_attr(self, name):
        # names re-exported by nptdms/__init__.py
        tree = self.tree_of(self.package)
        for st in tree.body:
            if isinstance(st, ast.ImportFrom):
                for a in st.names:
                    if (a.asname or a.name) == name:
                        mod = self._resolve_from(st, self.package, True)
                        return self.getattr_value(self.load_module(mod), a.name)
        sub = self.package + "." + name
        if self.path_of(sub):
            return self.load_module(sub)
        raise ProgExc(AttributeError, "%s.%s" % (self.package, name))

    def _bind(self, a, inst, cls):
        if isinstance(a, FuncVal):
            return BoundMethod(a, inst)
        if isinstance(a, PropertyVal):
            return self.call_value(a.fget, [inst], {})
        if isinstance(a, StaticVal):
            return a.f
        if isinstance(a, ClassMethodVal):
            return BoundMethod(a.f, inst._cls)
        return a

    def setattr_value(self, v, name, value):
        if isinstance(v, Obj):
            st = sym.get_state()
            if st is not None and st.frame_on and id(v) not in st.allocated:
                st.writes.append((v, name))
            v._f[name] = value
            return
        if isinstance(v, ClassVal):
            v.ns[name] = value
            return
        if isinstance(v, ModuleVal):
            v._env[name] = value
            return
        m = self.models.get(("setattr", type(v), name))
        if m is not None:
            return m(self, v, value)
        try:
            setattr(v, name, value)
        except AttributeError:
            raise ProgExc(AttributeError, name)

    def call_method(self, obj, name, args, kwargs):
        return self.call_value(self.getattr_value(obj, name), args, kwargs)

    def instantiate(self, cls, args, kwargs):
        hook = self.models.get(("instantiate_cls", cls.qualname))
        if hook is not None:
            return hook(self, cls, args, kwargs)
        for c in cls.mro:
            for b in c.bases:
                if not isinstance(b, ClassVal) and b is not object:
                    m = self.models.get(("instantiate", b))
                    if m is not None:
                        return m(self, cls, args, kwargs)
                    raise Unsupported("instantiating subclass of native %r" % (b,))
        new = self.find_class_attr(cls, "__new__")
        if new is not None:
            raise Unsupported("__new__ in %s" % cls.name)
        o = Obj(cls)
        st = sym.get_state()
        if st is not None:
            st.allocated.add(id(o))
            st.notes.append(o)       # keep alive so ids are not reused
        init = self.find_class_attr(cls, "__init__")
        if init is not None:
            self.call_value(init, [o] + args, kwargs)
        return o

    def isinstance_value(self, v, c):
        if isinstance(c, tuple):
            r = False
            for x in c:
                r = r or self.isinstance_value(v, x)
            return r
        from .timemodel import _ClassLike
        if isinstance(c, _ClassLike):
            c = c.real                       # model object standing for a NumPy scalar class
        if isinstance(c, ClassVal):
            if isinstance(v, Obj):
                return c in v._cls.mro
            m = self.models.get(("isinstance_cls", c.qualname))
            if m is not None:
                return m(self, v)
            return False
        if isinstance(v, Obj):
            for k in v._cls.mro:
                for b in k.bases:
                    if not isinstance(b, ClassVal) and isinstance(b, type) and issubclass(b, c):
                        return True
            return c is object
        if isinstance(v, SymSlice):
            return c in (slice, object)
        from .models import SymStr as _SymStr, FloatBits as _FloatBits, WBytes as _WBytes, SBytes as _SBytes
        from . import models as _M2
        if isinstance(v, (_SymStr, _M2.CatStr)):
            return c in (str, object)
        if isinstance(v, _FloatBits):
            return c in (float, object)
        if isinstance(v, (_WBytes, _SBytes)):
            return c in (bytes, object)
        if isinstance(v, SymInt):
            import numpy as np
            return c in (int, object) or (v.__class__ is c)
        if isinstance(v, SymBool):
            return c in (bool, int, object)
        if isinstance(v, SymReal):
            return c in (float, object)
        m = self.models.get(("isinstance", type(v)))
        if m is not None:
            return m(self, v, c)
        return isinstance(v, c)

    # ------------------------------------------------------------------ calls
    def call_value(self, f, args, kwargs):
        if isinstance(f, BoundMethod):
            return self.call_value(f.func, [f.selfv] + list(args), kwargs)
        if isinstance(f, FuncVal):
            return self.call_function(f, args, kwargs)
        if isinstance(f, ClassVal):
            return self.instantiate(f, list(args), kwargs)
        if isinstance(f, StaticVal):
            return self.call_value(f.f, args, kwargs)
        try:
            m = self.models.get(f)
        except TypeError:
            m = None
        if m is not None:
            return m(self, *args, **kwargs)
        if f is property:
            return PropertyVal(args[0])
        if f is staticmethod:
            return StaticVal(args[0])
        if f is classmethod:
            return ClassMethodVal(args[0])
        if not callable(f):
            raise ProgExc(TypeError, "not callable")
        selfv = getattr(f, "__self__", None)
        if isinstance(selfv, (bytes, bytearray)) and getattr(f, "__name__", "") == "join":
            from . import models as _M
            return _M.m_bytes_join(self, selfv, args[0])
        if isinstance(selfv, str) and getattr(f, "__name__", "") == "join":
            from . import models as _M
            return _M.m_str_join(self, selfv, args[0])
        if isinstance(selfv, (dict, set, frozenset, list)) and args and \
                getattr(f, "__name__", "") in _KEYED_METHODS.get(type(selfv).__name__, ()):
            probe = args[0]
            keys = list(selfv.keys()) if isinstance(selfv, dict) else list(selfv)
            if _symbolic_key(probe) or any(_symbolic_key(k) for k in keys[:64]):
                return self._keyed_container_method(selfv, f.__name__, list(args), kwargs)
        if not _is_engine_callable(f):
            # a native function (builtin / library) without a model, applied to model objects: its Python-level
            # behaviour (hashing by identity, duck typing) is not the modelled type's semantics -> undecided
            for a in list(args) + list(kwargs.values()):
                if _is_data_model(a) or (isinstance(a, (list, tuple, set, frozenset)) and
                                         any(_is_data_model(x) for x in list(a)[:8])):
                    raise Unsupported("native %s applied to model objects is not modelled"
                                      % getattr(f, "__qualname__", getattr(f, "__name__", f)))
        try:
            return f(*args, **kwargs)
        except (Unsupported, PathEnd, ProgExc, Drift, _Return):
            raise
        except _NATIVE_EXC as e:
            raise _native_failure(e, list(args) + list(kwargs.values()) + [getattr(f, "__self__", None)],
                                  "native %s" % getattr(f, "__name__", f))

    def _keyed_container_method(self, c, name, args, kwargs):
        """dict.get / pop / setdefault / __contains__, set.add / discard / remove, list.index / count / remove with a
        key that is (or is compared against) a symbolic value: Python would hash / compare the proxy object by
        identity; the method is executed with equality decided symbolically (case split), in container order"""
        if kwargs:
            raise Unsupported("%s.%s with keyword arguments on symbolic keys" % (type(c).__name__, name))
        k = args[0]

        def eq(a, b):
            return self.truth(self.compare(ast.Eq, a, b))
        if isinstance(c, dict):
            hit = None
            for key in list(c.keys()):
                if eq(k, key):
                    hit = key
                    break
            if name == "get":
                return c[hit] if hit is not None or (hit is None and None in c and k is None) else (args[1] if len(args) > 1 else None)
            if name == "__contains__":
                return hit is not None
            if name == "setdefault":
                if hit is not None:
                    return c[hit]
                c[k] = args[1] if len(args) > 1 else None
                return c[k]
            if name == "pop":
                if hit is not None:
                    return c.pop(hit)
                if len(args) > 1:
                    return args[1]
                raise ProgExc(KeyError, "pop")
        elif isinstance(c, (set, frozenset)):
            hit = [x for x in list(c) if eq(k, x)]
            if name == "__contains__":
                return bool(hit)
            if name == "add":
                if not hit:
                    c.add(k)
                return None
            if name == "discard":
                for x in hit:
                    set.discard(c, x)
                return None
            if name == "remove":
                if not hit:
                    raise ProgExc(KeyError, "remove")
                for x in hit:
                    set.discard(c, x)
                return None
        elif isinstance(c, list):
            if name == "__contains__":
                return any(eq(k, x) for x in c)
            if name == "count":
                return sum(1 for x in c if eq(k, x))
            if name == "index":
                for i, x in enumerate(c):
                    if eq(k, x):
                        return i
                raise ProgExc(ValueError, "not in list")
            if name == "remove":
                for i, x in enumerate(c):
                    if eq(k, x):
                        del c[i]
                        return None
                raise ProgExc(ValueError, "not in list")
        raise Unsupported("%s.%s on symbolic keys" % (type(c).__name__, name))

    def call_function(self, f, args, kwargs):
        hook = self.contracts_at_calls.get(f.qualname)
        if hook is not None and f.qualname not in [q for q in self.call_stack if q == "__verifying__:" + f.qualname]:
            r = hook(self, f, args, kwargs)
            if r is not NotImplemented:
                return r
        env = Env(f.genv, f.cenv)
        self._bind_args(f, env, args, kwargs)
        if f.is_generator:
            return GenVal(self._run_generator(f, env), f.qualname)
        if isinstance(f.node, ast.Lambda):
            return self.eval(f.node.body, env, f)
        self.call_stack.append(f.qualname)
        self.depth += 1
        if self.depth > 60:
            self.depth -= 1
            self.call_stack.pop()
            raise Unsupported("recursion depth")
        try:
            for _ in self.exec_block(f.node.body, env, f.qualname, f):
                raise Unsupported("yield in non-generator")
        except _Return as r:
            return r.value
        finally:
            self.depth -= 1
            self.call_stack.pop()
        return None

    def _run_generator(self, f, env):
        try:
            for v in self.exec_block(f.node.body, env, f.qualname, f):
                if self.yield_hook is not None:
                    self.yield_hook(f.qualname, v, env)
                yield v
        except _Return:
            return

    def _bind_args(self, f, env, args, kwargs):
        a = f.node.args
        params = [p.arg for p in a.posonlyargs + a.args]
        args = list(args)
        kwargs = dict(kwargs)
        n = len(params)
        for i, p in enumerate(params):
            if i < len(args):
                env.vars[p] = args[i]
            elif p in kwargs:
                env.vars[p] = kwargs.pop(p)
            else:
                di = i - (n - len(f.defaults))
                if di < 0:
                    raise ProgExc(TypeError, "missing argument %s of %s" % (p, f.qualname))
                env.vars[p] = f.defaults[di]
        if a.vararg is not None:
            env.vars[a.vararg.arg] = tuple(args[n:])
        elif len(args) > n:
            raise ProgExc(TypeError, "too many arguments for %s" % f.qualname)
        for i, p in enumerate(a.kwonlyargs):
            if p.arg in kwargs:
                env.vars[p.arg] = kwargs.pop(p.arg)
            elif f.kwdefaults[i] is not _MISSING:
                env.vars[p.arg] = f.kwdefaults[i]
            else:
                raise ProgExc(TypeError, "missing kw argument")
        if a.kwarg is not None:
            env.vars[a.kwarg.arg] = kwargs
        elif kwargs:
            raise ProgExc(TypeError, "unexpected keyword %s for %s" % (list(kwargs), f.qualname))

    # ------------------------------------------------------------------ statements
    def exec_block(self, stmts, env, qual, func):
        for s in stmts:
            yield from self.exec_stmt(s, env, qual, func)

    def exec_stmt(self, s, env, qual, func):
        t = type(s)
        if t is ast.Expr:
            v = s.value
            if isinstance(v, ast.Constant):
                return                                   # docstring
            if isinstance(v, ast.Yield):
                yield (self.eval(v.value, env, func) if v.value is not None else None)
                return
            if isinstance(v, ast.YieldFrom):
                it = self.eval(v.value, env, func)
                for x in self.iterate(it):
                    yield x
                return
            if _is_log_call(v):
                return
            self.eval(v, env, func)
            return
        if t is ast.Assign:
            val = self.eval(s.value, env, func)
            for tg in s.targets:
                self.assign(tg, val, env, func)
            return
        if t is ast.AugAssign:
            cur = self.eval(_as_load(s.target), env, func)
            rhs = self.eval(s.value, env, func)
            new = self.binop(type(s.op), cur, rhs, inplace=True)
            self.assign(s.target, new, env, func)
            return
        if t is ast.AnnAssign:
            if s.value is not None:
                self.assign(s.target, self.eval(s.value, env, func), env, func)
            return
        if t is ast.Return:
            raise _Return(self.eval(s.value, env, func) if s.value is not None else None)
        if t is ast.If:
            if _is_log_guard(s.test):
                return
            if self.truth(self.eval(s.test, env, func)):
                yield from self.exec_block(s.body, env, qual, func)
            else:
                yield from self.exec_block(s.orelse, env, qual, func)
            return
        if t is ast.For:
            yield from self.exec_for(s, env, qual, func)
            return
        if t is ast.While:
            yield from self.exec_while(s, env, qual, func)
            return
        if t is ast.Pass:
            return
        if t is ast.Break:
            raise _Break()
        if t is ast.Continue:
            raise _Continue()
        if t is ast.Raise:
            self.exec_raise(s, env, func)
            return
        if t is ast.Try:
            yield from self.exec_try(s, env, qual, func)
            return
        if t is ast.With:
            yield from self.exec_with(s, env, qual, func)
            return
        if t is ast.FunctionDef:
            fv = self.make_function(s, env, qual)
            for d in reversed(s.decorator_list):
                dv = self.eval(d, env, func)
                fv = self.call_value(dv, [fv], {})
            env.vars[s.name] = fv
            return
        if t is ast.ClassDef:
            self.exec_classdef(s, env, qual, func)
            return
        if t is ast.Import:
            for a in s.names:
                mod = self.load_module(a.name)
                if a.asname:
                    env.vars[a.asname] = mod
                else:
                    top = a.name.split(".")[0]
                    env.vars[top] = self.load_module(top) if "." in a.name else mod
            return
        if t is ast.ImportFrom:
            modname = self._resolve_from(s, qual.split(":")[0] if qual else self.package, False)
            mod = self.load_module(modname)
            for a in s.names:
                if a.name == "*":
                    src = mod._env if isinstance(mod, ModuleVal) else vars(mod)
                    names = src.get("__all__") or [k for k in src if not k.startswith("_")]
                    for k in names:
                        env.vars[k] = src[k]
                    continue
                try:
                    val = self.getattr_value(mod, a.name)
                except ProgExc:
                    sub = modname + "." + a.name
                    val = self.load_module(sub)
                env.vars[a.asname or a.name] = val
            return
        if t is ast.Assert:
            v = self.eval(s.test, env, func)
            if not self.truth(v):
                raise ProgExc(AssertionError, "assert")
            return
        if t is ast.Delete:
            for tg in s.targets:
                if isinstance(tg, ast.Subscript):
                    o = self.eval(tg.value, env, func)
                    k = self.eval(tg.slice, env, func)
                    del o[k]
                elif isinstance(tg, ast.Name):
                    del env.vars[tg.id]
                else:
                    raise Unsupported("del target")
            return
        if t is ast.Global or t is ast.Nonlocal:
            raise Unsupported("global/nonlocal")
        raise Unsupported("statement %s" % t.__name__)

    def _resolve_from(self, s, cur_mod, is_pkg):
        if s.level == 0:
            return s.module
        base = cur_mod.split(".")
        if not is_pkg:
            base = base[:-1]
        base = base[:len(base) - (s.level - 1)]
        return ".".join(base + ([s.module] if s.module else []))

    def exec_raise(self, s, env, func):
        if s.exc is None:
            cur = getattr(env, "_cur_exc", None)
            e = env
            while cur is None and e is not None:
                cur = e.vars.get("__cur_exc__")
                e = e.parent
            if cur is None:
                raise Unsupported("bare raise outside handler")
            raise cur
        exc = s.exc
        if isinstance(exc, ast.Call):
            cls = self.eval(exc.func, env, func)     # message text dropped (not evaluated)
        else:
            cls = self.eval(exc, env, func)
        if isinstance(cls, ProgExc):
            raise cls
        if isinstance(cls, BaseException):
            cls = type(cls)
        raise ProgExc(cls, "raise@%d" % s.lineno)

    def exec_try(self, s, env, qual, func):
        try:
            try:
                yield from self.exec_block(s.body, env, qual, func)
            except ProgExc as e:
                handled = False
                for h in s.handlers:
                    if h.type is None:
                        match = True
                    else:
                        ht = self.eval(h.type, env, func)
                        match = _exc_matches(e.cls, ht)
                    if match:
                        handled = True
                        if h.name:
                            env.vars[h.name] = e
                        env.vars["__cur_exc__"] = e
                        yield from self.exec_block(h.body, env, qual, func)
                        break
                if not handled:
                    raise
            else:
                yield from self.exec_block(s.orelse, env, qual, func)
        finally:
            if s.finalbody:
                # note: runs for program exceptions, returns and path cuts alike; obligations
                # generated in a finally after PathEnd are harmless (the path is dead)
                ex = sys.exc_info()[1]
                if not isinstance(ex, (PathEnd, Unsupported, Drift)):
                    for _ in self.exec_block(s.finalbody, env, qual, func):
                        raise Unsupported("yield in finally")

    def exec_with(self, s, env, qual, func):
        cms = []
        for item in s.items:
            if _is_timer(item.context_expr):
                continue
            cm = self.eval(item.context_expr, env, func)
            val = self.call_method(cm, "__enter__", [], {})
            if item.optional_vars is not None:
                self.assign(item.optional_vars, val, env, func)
            cms.append(cm)
        try:
            yield from self.exec_block(s.body, env, qual, func)
        except ProgExc as e:
            swallowed = False
            for cm in reversed(cms):
                r = self.call_method(cm, "__exit__", [e.cls, e, None], {})
                if r is True:
                    swallowed = True
            if not swallowed:
                raise
        except (_Return, _Break, _Continue):
            for cm in reversed(cms):
                self.call_method(cm, "__exit__", [None, None, None], {})
            raise
        else:
            for cm in reversed(cms):
                self.call_method(cm, "__exit__", [None, None, None], {})

    def exec_classdef(self, s, env, qual, func):
        bases = [self.eval(b, env, func) for b in s.bases]
        ns = {}
        cenv = Env(env.genv, env)
        cenv.vars = ns
        cenv.is_class = True
        cq = (qual + "." if qual and ":" in qual else (qual + ":" if qual else "")) + s.name
        for _ in self.exec_block(s.body, cenv, cq, None):
            raise Unsupported("yield in class body")
        modname = qual.split(":")[0] if qual else ""
        cls = ClassVal(s.name, bases, ns, cq, modname)
        for d in reversed(s.decorator_list):
            dv = self.eval(d, env, func)
            cls = self.call_value(dv, [cls], {})
        env.vars[s.name] = cls

    def make_function(self, node, env, qual):
        a = node.args
        defaults = [self.eval(d, env, None) for d in a.defaults]
        kwdefaults = [(_MISSING if d is None else self.eval(d, env, None)) for d in a.kw_defaults]
        name = getattr(node, "name", "<lambda>")
        if qual and ":" in qual:
            q = qual + "." + name
        elif qual:
            q = qual + ":" + name
        else:
            q = name
        # closures see enclosing *function* scopes only: class bodies are skipped (Python scoping)
        cenv = env
        while cenv is not None and getattr(cenv, "is_class", False):
            cenv = cenv.parent
        if cenv is not None and cenv.vars is cenv.genv:
            cenv = None
        modname = qual.split(":")[0] if qual else ""
        return FuncVal(node, env.genv, cenv, q, modname, defaults, kwdefaults)

    # ------------------------------------------------------------------ loops
    def _loop_ordinal(self, func, node):
        if func is None:
            return None
        key = id(func.node)
        m = self.loop_ordinals.get(key)
        if m is None:
            loops = [n for n in ast.walk(func.node) if isinstance(n, (ast.For, ast.While))]
            loops.sort(key=lambda n: (n.lineno, n.col_offset))
            m = {id(n): i for i, n in enumerate(loops)}
            self.loop_ordinals[key] = m
        return m.get(id(node))

    def loop_spec_for(self, func, node):
        if func is None:
            return None
        o = self._loop_ordinal(func, node)
        return self.loop_specs.get((func.qualname, o))

    def exec_for(self, s, env, qual, func):
        it = self.eval(s.iter, env, func)
        if hasattr(it, "as_symseq") and not isinstance(it, Obj):
            it = it.as_symseq()              # contract-side sequence of symbolic length
        spec = self.loop_spec_for(func, s)
        if spec is not None:
            yield from self._for_with_invariant(s, it, spec, env, qual, func)
            return
        if isinstance(it, SymSeq):
            n = it.length
            k = 0
            while True:
                if not self.truth(k < n):
                    break
                if k >= self.unroll_limit:
                    raise Unsupported("unroll limit in %s" % qual)
                self.assign(s.target, it.item(k), env, func)
                try:
                    yield from self.exec_block(s.body, env, qual, func)
                except _Break:
                    return
                except _Continue:
                    pass
                k += 1
            yield from self.exec_block(s.orelse, env, qual, func)
            return
        broke = False
        for x in self.iterate(it):
            self.assign(s.target, x, env, func)
            try:
                yield from self.exec_block(s.body, env, qual, func)
            except _Break:
                broke = True
                break
            except _Continue:
                continue
        if not broke:
            yield from self.exec_block(s.orelse, env, qual, func)

    def iterate(self, it):
        if isinstance(it, SymSeq):
            n = it.length
            k = 0
            while self.truth(k < n):
                if k >= self.unroll_limit:
                    raise Unsupported("unroll limit")
                yield it.item(k)
                k += 1
            return
        m = self.models.get(("iter", type(it)))
        if m is not None:
            yield from m(self, it)
            return
        if isinstance(it, Obj):
            it = self.call_method(it, "__iter__", [], {})
        try:
            iterator = iter(it)
        except TypeError:
            if _is_model_value(it):
                # a contract-side stand-in that only supports what its contract models: never a verdict
                raise Unsupported("iteration over model object %s" % type(it).__name__)
            raise ProgExc(TypeError, "not iterable")
        while True:
            try:
                x = next(iterator)
            except StopIteration:
                return
            yield x

    def _havoc(self, spec, env, st):
        for var, kind in spec.havoc.items():
            if callable(kind):
                env.vars[var] = kind(st, env)
            elif kind == "int":
                env.vars[var] = st.fresh_int(var)
            elif kind == "bool":
                env.vars[var] = st.fresh_bool(var)
            else:
                raise Unsupported("havoc kind %r" % (kind,))

    def _assigned_names(self, body):
        names = set()
        for n in body:
            for x in ast.walk(n):
                if isinstance(x, ast.Name) and isinstance(x.ctx, ast.Store):
                    names.add(x.id)
        return names

    def _inv(self, spec, env, k, st, qual=""):
        try:
            return spec.invariant(env, k, st)
        except KeyError as e:
            raise Drift("the invariant of loop %s %s refers to variable %s, which the code no longer has"
                        % (spec.name, qual, e))
        except AttributeError as e:
            raise Drift("the invariant of loop %s %s no longer fits the loop's state (%s)" % (spec.name, qual, e))

    def _check_inv(self, spec, env, k, st, phase, qual):
        for (nm, v) in self._inv(spec, env, k, st, qual):
            st.check("%s/loop[%s]/%s/%s" % (qual, spec.name, phase, nm), v, kind="invariant-" + phase)

    def _assume_inv(self, spec, env, k, st):
        for (nm, v) in self._inv(spec, env, k, st):
            st.assume(v)

    def _for_with_invariant(self, s, it, spec, env, qual, func):
        st = sym.get_state()
        if isinstance(it, SymSeq):
            n, item = it.length, it.item
        elif isinstance(it, (list, tuple)):
            raise Unsupported("invariant on concrete sequence")
        else:
            raise Unsupported("invariant loop over %r" % type(it).__name__)
        if spec.ghost_init is not None:
            spec.ghost_init(env, st)
        # modified variables must all be declared (else the contract has drifted)
        assigned = self._assigned_names(s.body) | self._assigned_names([s.target])
        tnames = self._assigned_names([s.target])
        undeclared = [v for v in assigned - tnames if v not in spec.havoc and not v.startswith("_")]
        locals_in_body = spec.havoc.get("__locals__", ())
        undeclared = [v for v in undeclared if v not in locals_in_body]
        # names the for statement itself assigns each iteration (per loop: loops of one function share the env)
        env.vars["__loop_targets__:" + spec.name] = frozenset(tnames)
        self._check_inv(spec, env, 0, st, "init", qual)
        for v in list(undeclared) + list(locals_in_body):
            if v in assigned:
                env.vars[v] = Poison(v, "%s of %s" % (spec.name, qual))
        branch = st.choose(2, "loop")
        hv = {k: v for k, v in spec.havoc.items() if k != "__locals__"}
        hspec = LoopSpec(spec.invariant, hv)
        if branch == 0:
            # arbitrary iteration k
            self._havoc(hspec, env, st)
            k = st.fresh_int("k")
            st.assume(0 <= k)
            st.assume(k < n)
            self._assume_inv(spec, env, k, st)
            st.prune()
            env.vars["__k__"] = k
            self.assign(s.target, item(k), env, func)
            if spec.on_iter is not None:
                spec.on_iter(env, k, st)
            try:
                yield from self.exec_block(s.body, env, qual, func)
            except _Break:
                return
            except _Continue:
                pass
            self._check_inv(spec, env, k + 1, st, "preserve", qual)
            raise PathEnd("loop cut")
        else:
            self._havoc(hspec, env, st)
            self._assume_inv(spec, env, n, st)
            st.prune()
            yield from self.exec_block(s.orelse, env, qual, func)

    def exec_while(self, s, env, qual, func):
        spec = self.loop_spec_for(func, s)
        if spec is not None:
            yield from self._while_with_invariant(s, spec, env, qual, func)
            return
        count = 0
        while True:
            if not self.truth(self.eval(s.test, env, func)):
                yield from self.exec_block(s.orelse, env, qual, func)
                return
            count += 1
            if count > self.unroll_limit:
                raise Unsupported("while unroll limit in %s" % qual)
            try:
                yield from self.exec_block(s.body, env, qual, func)
            except _Break:
                return
            except _Continue:
                continue

    def _while_with_invariant(self, s, spec, env, qual, func):
        st = sym.get_state()
        if spec.ghost_init is not None:
            spec.ghost_init(env, st)
        assigned = self._assigned_names(s.body)
        locals_in_body = spec.havoc.get("__locals__", ())
        undeclared = [v for v in assigned if v not in spec.havoc and v not in locals_in_body]
        self._check_inv(spec, env, 0, st, "init", qual)
        for v in list(undeclared) + list(locals_in_body):
            if v in assigned:
                env.vars[v] = Poison(v, "%s of %s" % (spec.name, qual))
        hv = {k: v for k, v in spec.havoc.items() if k != "__locals__"}
        hspec = LoopSpec(spec.invariant, hv)
        self._havoc(hspec, env, st)
        k = st.fresh_int("k")
        st.assume(0 <= k)
        self._assume_inv(spec, env, k, st)
        env.vars["__k__"] = k
        if self.truth(self.eval(s.test, env, func)):
            if spec.on_iter is not None:
                spec.on_iter(env, k, st)
            try:
                yield from self.exec_block(s.body, env, qual, func)
            except _Break:
                return
            except _Continue:
                pass
            self._check_inv(spec, env, k + 1, st, "preserve", qual)
            raise PathEnd("loop cut")
        else:
            yield from self.exec_block(s.orelse, env, qual, func)

    # ------------------------------------------------------------------ assignment
    def assign(self, tg, val, env, func):
        t = type(tg)
        if t is ast.Name:
            env.vars[tg.id] = val
            return
        if t is ast.Attribute:
            o = self.eval(tg.value, env, func)
            self.setattr_value(o, tg.attr, val)
            return
        if t is ast.Subscript:
            o = self.eval(tg.value, env, func)
            k = self.eval_slice(tg.slice, env, func)
            self.setitem(o, k, val)
            return
        if t in (ast.Tuple, ast.List):
            vals = list(self.iterate(val))
            if len(vals) != len(tg.elts):
                raise ProgExc(ValueError, "unpack")
            for e, v in zip(tg.elts, vals):
                self.assign(e, v, env, func)
            return
        raise Unsupported("assign target %s" % t.__name__)

    def setitem(self, o, k, val):
        m = self.models.get(("setitem", type(o)))
        if m is not None:
            return m(self, o, k, val)
        st = sym.get_state()
        if st is not None and st.frame_on and isinstance(o, (list, dict)) and id(o) not in st.allocated:
            st.writes.append((o, "[]"))
        if isinstance(o, Obj):
            return self.call_method(o, "__setitem__", [k, val], {})
        if isinstance(o, dict) and isinstance(k, Obj) and self.find_class_attr(k._cls, "__eq__") is not None:
            key = self._objkey_find(o, k)
            o[k if key is None else key] = val
            return
        if isinstance(o, dict) and (_symbolic_key(k) or any(_symbolic_key(x) for x in list(o.keys())[:64])):
            # a key whose equality is symbolic: an existing equal key is overwritten (Python semantics), decided
            # by case split; the proxies' identity hashing must not create a second entry for an equal key
            for key in list(o.keys()):
                if key is k or self.truth(self.compare(ast.Eq, k, key)):
                    o[key] = val
                    return
            o[k] = val
            return
        if isinstance(o, list) and isinstance(k, SymInt):
            # store at a symbolic position: decided by case split over the concrete positions
            n = len(o)
            idx = k
            if self.truth(idx < 0):
                idx = idx + n
            for i in range(n):
                if self.truth(idx == i):
                    o[i] = val
                    return
            raise ProgExc(IndexError, "list assignment index out of range")
        try:
            o[k] = val
        except _NATIVE_EXC as e:
            raise _native_failure(e, [o] if not isinstance(o, (list, dict)) else [], "setitem")

    # ------------------------------------------------------------------ expressions
    def truth(self, v):
        if isinstance(v, (SymBool, SymInt, SymReal)):
            return bool(v)
        if isinstance(v, Obj):
            if self.find_class_attr(v._cls, "__bool__") is not None:
                return self.truth(self.call_method(v, "__bool__", [], {}))
            if self.find_class_attr(v._cls, "__len__") is not None:
                return self.truth(self.call_method(v, "__len__", [], {}) != 0)
            return True
        m = self.models.get(("truth", type(v)))
        if m is not None:
            return m(self, v)
        try:
            return bool(v)
        except _NATIVE_EXC as e:
            raise _native_failure(e, [v], "truth")

    def binop(self, opt, l, r, inplace=False):
        m = self.models.get(("binop", type(l))) or self.models.get(("binop", type(r)))
        if m is not None:
            res = m(self, opt, l, r, inplace)
            if res is not NotImplemented:
                return res
        f = _BINOPS[opt]
        if inplace and isinstance(l, list):
            # list += iterable extends in place (keeps aliasing), as in CPython
            st = sym.get_state()
            if st is not None and st.frame_on and id(l) not in st.allocated:
                st.writes.append((l, "+="))
            f = _IBINOPS.get(opt, f)
        try:
            return f(l, r)
        except _NATIVE_EXC as e:
            raise _native_failure(e, [l, r], "binop")

    def compare(self, opt, l, r):
        if opt is ast.Is:
            return self._is(l, r)
        if opt is ast.IsNot:
            return sym_not(self._is(l, r))
        if opt is ast.In:
            return self.contains(r, l)
        if opt is ast.NotIn:
            return sym_not(self.contains(r, l))
        m = self.models.get(("compare", type(l))) or self.models.get(("compare", type(r)))
        if m is not None:
            res = m(self, opt, l, r)
            if res is not NotImplemented:
                return res
        try:
            return _CMPOPS[opt](l, r)
        except _NATIVE_EXC as e:
            raise _native_failure(e, [l, r], "compare")

    def _is(self, l, r):
        if l is None or r is None:
            return l is r
        if is_sym(l) or is_sym(r):
            if l is True or l is False or r is True or r is False:
                return l == r
            other = r if is_sym(l) else l
            if other is Ellipsis or isinstance(other, (type, ClassVal, str, bytes, tuple)):
                return False
            raise Unsupported("`is` on symbolic values")
        return l is r

    def contains(self, container, x):
        m = self.models.get(("contains", type(container)))
        if m is not None:
            return m(self, container, x)
        if isinstance(container, Obj):
            return self.call_method(container, "__contains__", [x], {})
        if isinstance(container, (tuple, list)):
            r = False
            for y in container:
                r = sym.sym_or(r, self.compare(ast.Eq, x, y))
            return r
        if isinstance(container, (dict, set, frozenset)) or hasattr(container, "keys"):
            if is_sym(x):
                r = False
                for y in list(container):
                    r = sym.sym_or(r, self.compare(ast.Eq, x, y))
                return r
            m2 = self.models.get(("dictkey", type(x)))
            if m2 is not None:
                return m2(self, container, x)
        try:
            return x in container
        except _NATIVE_EXC as e:
            raise _native_failure(e, [container] if not isinstance(container, (list, dict, tuple, set)) else [], "in")

    def _objkey_find(self, d, k):
        """dict lookup with an instance key whose class defines __eq__: equal keys are found by search
        (relies on hash consistency, proved for ObjectListKey in harness object_list_key)"""
        if self.find_class_attr(k._cls, "__hash__") is not None:
            self.call_method(k, "__hash__", [], {})          # the real lookup evaluates it
        for key in list(d.keys()):
            if key is k:
                return key
            if isinstance(key, Obj) and self.truth(self.call_method(key, "__eq__", [k], {})):
                return key
        return None

    def getitem(self, o, k):
        m = self.models.get(("getitem", type(o)))
        if m is not None:
            return m(self, o, k)
        if isinstance(o, dict) and isinstance(k, Obj) and self.find_class_attr(k._cls, "__eq__") is not None:
            key = self._objkey_find(o, k)
            if key is None:
                raise ProgExc(KeyError, "key")
            return o[key]
        if isinstance(o, Obj):
            return self.call_method(o, "__getitem__", [k], {})
        if isinstance(o, (list, tuple)) and isinstance(k, SymInt):
            # select by case split over the concrete positions
            n = len(o)
            idx = k
            if self.truth(idx < 0):
                idx = idx + n
            for i in range(n):
                if self.truth(idx == i):
                    return o[i]
            raise ProgExc(IndexError, "index")
        if isinstance(o, dict):
            m2 = self.models.get(("dictkey_get", type(k)))
            if m2 is not None:
                return m2(self, o, k)
            if is_sym(k):
                for key in list(o.keys()):
                    if self.truth(self.compare(ast.Eq, k, key)):
                        return o[key]
                raise ProgExc(KeyError, "key")
        try:
            r = o[k]
        except _NATIVE_EXC as e:
            raise _native_failure(e, [o] if not isinstance(o, (list, dict, tuple, str, bytes)) else [], "getitem")
        if isinstance(o, list) and isinstance(k, slice):
            self._note_alloc(r)
        return r

    def eval_slice(self, node, env, func):
        if isinstance(node, ast.Slice):
            lo = self.eval(node.lower, env, func) if node.lower is not None else None
            hi = self.eval(node.upper, env, func) if node.upper is not None else None
            stp = self.eval(node.step, env, func) if node.step is not None else None
            if is_sym(lo) or is_sym(hi) or is_sym(stp):
                return SymSlice(lo, hi, stp)
            return slice(lo, hi, stp)
        if isinstance(node, ast.Tuple):
            return tuple(self.eval_slice(e, env, func) for e in node.elts)
        return self.eval(node, env, func)

    def eval(self, node, env, func):
        t = type(node)
        if t is ast.Constant:
            return node.value
        if t is ast.Name:
            try:
                v = env.lookup(node.id)
                if type(v) is Poison:
                    raise Drift("variable %r is carried around loop %s but its contract does not mention it"
                                % (v.name, v.loop))
                return v
            except KeyError:
                pass
            if node.id in self.builtin_overrides:
                return self.builtin_overrides[node.id]
            import builtins
            if hasattr(builtins, node.id):
                return getattr(builtins, node.id)
            raise ProgExc(NameError, node.id)
        if t is ast.Attribute:
            o = self.eval(node.value, env, func)
            return self.getattr_value(o, node.attr)
        if t is ast.Call:
            return self.eval_call(node, env, func)
        if t is ast.BinOp:
            l = self.eval(node.left, env, func)
            r = self.eval(node.right, env, func)
            try:
                return self.binop(type(node.op), l, r)
            except ProgExc as e:
                if e.origin == "binop":
                    e.origin = "binop@%s:%d (%s, %s)" % (func.qualname if func else "?", node.lineno,
                                                         type(l).__name__, type(r).__name__)
                raise
        if t is ast.UnaryOp:
            v = self.eval(node.operand, env, func)
            if isinstance(node.op, ast.Not):
                return sym_not(v) if isinstance(v, SymBool) else (not self.truth(v))
            if isinstance(node.op, ast.USub):
                return -v
            if isinstance(node.op, ast.UAdd):
                return +v
            if isinstance(node.op, ast.Invert):
                return ~v
        if t is ast.BoolOp:
            if isinstance(node.op, ast.And):
                v = True
                for e in node.values:
                    v = self.eval(e, env, func)
                    if not self.truth(v):
                        return v
                return v
            else:
                v = False
                for e in node.values:
                    v = self.eval(e, env, func)
                    if self.truth(v):
                        return v
                return v
        if t is ast.Compare:
            l = self.eval(node.left, env, func)
            res = True
            for op, rn in zip(node.ops, node.comparators):
                r = self.eval(rn, env, func)
                c = self.compare(type(op), l, r)
                if len(node.ops) == 1:
                    return c
                if not self.truth(c):
                    return False
                l = r
            return res
        if t is ast.IfExp:
            if self.truth(self.eval(node.test, env, func)):
                return self.eval(node.body, env, func)
            return self.eval(node.orelse, env, func)
        if t is ast.Subscript:
            o = self.eval(node.value, env, func)
            k = self.eval_slice(node.slice, env, func)
            return self.getitem(o, k)
        if t is ast.Tuple:
            return tuple(self._elts(node.elts, env, func))
        if t is ast.List:
            l = list(self._elts(node.elts, env, func))
            self._note_alloc(l)
            return l
        if t is ast.Set:
            return self.call_value(set, [list(self._elts(node.elts, env, func))], {})
        if t is ast.Dict:
            d = {}
            for k, v in zip(node.keys, node.values):
                if k is None:
                    d.update(self.eval(v, env, func))
                else:
                    d[self.eval(k, env, func)] = self.eval(v, env, func)
            self._note_alloc(d)
            return d
        if t is ast.ListComp:
            l = list(self._comp(node.generators, 0, env, func, lambda e: self.eval(node.elt, e, func)))
            self._note_alloc(l)
            return l
        if t is ast.SetComp:
            # same semantics as set(<generator>): the model decides equality of symbolic elements by case split
            elems = list(self._comp(node.generators, 0, env, func, lambda e: self.eval(node.elt, e, func)))
            return self.call_value(set, [elems], {})
        if t is ast.GeneratorExp:
            return self._comp(node.generators, 0, env, func, lambda e: self.eval(node.elt, e, func))
        if t is ast.DictComp:
            it0 = self.eval(node.generators[0].iter, env, func)
            if isinstance(it0, SymSeq) and len(node.generators) == 1 and not node.generators[0].ifs:
                return SymCompDict(self, node, env, func, it0)
            pairs = list(self._comp_iter(node.generators, 0, env, func,
                                         lambda e: (self.eval(node.key, e, func), self.eval(node.value, e, func)),
                                         it0))
            if any(_symbolic_key(k) for (k, _) in pairs):
                d = {}
                for (k, v) in pairs:                 # later equal keys overwrite earlier ones (decided symbolically)
                    hit = None
                    for key in list(d.keys()):
                        if self.truth(self.compare(ast.Eq, k, key)):
                            hit = key
                            break
                    d[hit if hit is not None else k] = v
            else:
                d = dict(pairs)
            self._note_alloc(d)
            return d
        if t is ast.Lambda:
            return self.make_function(node, env, (func.qualname if func else "") or "")
        if t is ast.JoinedStr:
            return "<fstring>"
        if t is ast.Starred:
            raise Unsupported("starred outside call")
        raise Unsupported("expression %s" % t.__name__)

    def _note_alloc(self, o):
        st = sym.get_state()
        if st is not None:
            st.allocated.add(id(o))
            st.notes.append(o)

    def _elts(self, elts, env, func):
        for e in elts:
            if isinstance(e, ast.Starred):
                yield from self.iterate(self.eval(e.value, env, func))
            else:
                yield self.eval(e, env, func)

    def _comp(self, gens, i, env, func, produce):
        g = gens[i]
        it = self.eval(g.iter, env, func) if i == 0 else None
        return self._comp_iter(gens, i, env, func, produce, it)

    def _comp_iter(self, gens, i, env, func, produce, it):
        g = gens[i]
        if it is None:
            it = self.eval(g.iter, env, func)
        for x in self.iterate(it):
            e2 = Env(env.genv, env)
            self.assign(g.target, x, e2, func)
            ok = True
            for c in g.ifs:
                if not self.truth(self.eval(c, e2, func)):
                    ok = False
                    break
            if not ok:
                continue
            if i + 1 < len(gens):
                yield from self._comp_iter(gens, i + 1, e2, func, produce, None)
            else:
                yield produce(e2)

    def eval_call(self, node, env, func):
        if _is_log_call(node):
            return None
        f = self.eval(node.func, env, func)
        args = []
        for a in node.args:
            if isinstance(a, ast.Starred):
                args.extend(self.iterate(self.eval(a.value, env, func)))
            else:
                args.append(self.eval(a, env, func))
        kwargs = {}
        for k in node.keywords:
            if k.arg is None:
                kwargs.update(self.eval(k.value, env, func))
            else:
                kwargs[k.arg] = self.eval(k.value, env, func)
        if f is super and not args:
            raise Unsupported("zero-argument super()")
        return self.call_value(f, args, kwargs)

    builtin_overrides = {}


class SymSlice(object):
    def __init__(self, start, stop, step):
        self.start = start
        self.stop = stop
        self.step = step


class _Missing(object):
    pass


_MISSING = _Missing()


def _as_load(node):
    import copy
    n = copy.copy(node)
    n.ctx = ast.Load()
    return n


def _exc_matches(cls, handler_type):
    if isinstance(handler_type, tuple):
        return any(_exc_matches(cls, h) for h in handler_type)
    if isinstance(cls, type) and isinstance(handler_type, type):
        return issubclass(cls, handler_type)
    return cls is handler_type


def _is_log_call(v):
    return (isinstance(v, ast.Call) and isinstance(v.func, ast.Attribute)
            and isinstance(v.func.value, ast.Name) and v.func.value.id == "log")


def _is_log_guard(test):
    return (isinstance(test, ast.Call) and isinstance(test.func, ast.Attribute)
            and test.func.attr == "isEnabledFor")


def _is_timer(expr):
    return isinstance(expr, ast.Call) and isinstance(expr.func, ast.Name) and expr.func.id == "Timer"


def _strip(fnode):
    """normalised AST for fingerprints: docstrings and log calls removed"""
    import copy
    n = copy.deepcopy(fnode)

    class T(ast.NodeTransformer):
        def visit_Expr(self, e):
            if isinstance(e.value, ast.Constant) or _is_log_call(e.value):
                return None
            return self.generic_visit(e)

    n = T().visit(n)
    return n


# --------------------------------------------------------------------------- exploration

class PathResult(object):
    def __init__(self, state, outcome, detail=None):
        self.state = state
        self.outcome = outcome      # 'ok' | 'cut' | 'unsupported' | 'drift' | 'exc'
        self.detail = detail


def explore(run, max_paths=4000):
    """run(state) executes one path.  Returns list of PathResult."""
    worklist = [[]]
    results = []
    while worklist:
        trace = worklist.pop()
        sym.reset_fresh()
        st = State(trace, worklist)
        sym.set_state(st)
        try:
            run(st)
            results.append(PathResult(st, "ok"))
        except PathEnd as e:
            results.append(PathResult(st, "cut", str(e)))
        except Unsupported as e:
            results.append(PathResult(st, "unsupported", str(e)))
        except Drift as e:
            results.append(PathResult(st, "drift", str(e)))
        except (ProgExc, KeyError, IndexError, AttributeError, TypeError, ValueError) as e:
            # an exception escaping from the harness itself: on an infeasible path (contradictory path condition)
            # the model objects are in no particular state and nothing is claimed there; otherwise it is a crash
            try:
                infeasible = st.solver.check() == z3.unsat
            except Exception:
                infeasible = False
            if not infeasible:
                raise
            results.append(PathResult(st, "cut", "infeasible path (ended by %s)" % type(e).__name__))
        finally:
            sym.set_state(None)
        if os.environ.get("PYVC_DEBUG"):
            r = results[-1]
            sys.stderr.write("path %d: %s %s decisions=%d checked=%d obligations=%d queue=%d\n" % (
                len(results), r.outcome, r.detail or "", len(st.taken), st.decisions_checked,
                len(st.obligations), len(worklist)))
        if len(results) > max_paths:
            results.append(PathResult(st, "unsupported", "path limit %d exceeded" % max_paths))
            break
    return results
