"""np.datetime64 / np.timedelta64 scalars with symbolic integer payload (assumed contract: NumPy datetimes
are int64 counts of their unit since 1970-01-01; arithmetic converts to the finer unit; float * timedelta64
truncates toward zero; timedelta / timedelta is true division).  A-INT: int64 overflow is not modelled."""
import numpy as np
import z3
from . import sym
from .sym import SymInt, SymReal, Unsupported, is_sym, _lift
from . import models as M

UNITS = {"s": 1, "ms": 10 ** 3, "us": 10 ** 6, "ns": 10 ** 9, "ps": 10 ** 12}


def _finer(u1, u2):
    return u1 if UNITS[u1] >= UNITS[u2] else u2


def _conv(value, frm, to):
    """exact conversion to a finer (or equal) unit"""
    if UNITS[to] < UNITS[frm]:
        raise Unsupported("conversion to a coarser unit")
    return value * (UNITS[to] // UNITS[frm])


class TD64(object):
    def __init__(self, value, unit):
        self.value = value
        self.unit = unit

    def _other(self, o):
        if isinstance(o, TD64):
            return o
        if isinstance(o, np.timedelta64):
            u = np.datetime_data(o.dtype)[0]
            return TD64(int(o.astype("int64")), u)
        return None

    def __add__(self, o):
        if isinstance(o, (DT64, np.datetime64)):
            return DT64._of(o).__add__(self)
        t = self._other(o)
        if t is None:
            return NotImplemented
        u = _finer(self.unit, t.unit)
        return TD64(_conv(self.value, self.unit, u) + _conv(t.value, t.unit, u), u)

    __radd__ = __add__

    def __sub__(self, o):
        t = self._other(o)
        if t is None:
            return NotImplemented
        u = _finer(self.unit, t.unit)
        return TD64(_conv(self.value, self.unit, u) - _conv(t.value, t.unit, u), u)

    def __rsub__(self, o):
        t = self._other(o)
        if t is None:
            return NotImplemented
        return t.__sub__(self)

    def __rmul__(self, o):
        return self.__mul__(o)

    def __mul__(self, o):
        M.trusted("numpy: number * timedelta64 scales the count; a float factor truncates toward zero")
        if isinstance(o, (int, SymInt)):
            return TD64(self.value * o, self.unit)
        if isinstance(o, (float, SymReal)):
            prod = o * self.value
            return TD64(M.m_int(None, prod) if isinstance(prod, SymReal) else int(prod), self.unit)
        return NotImplemented

    def __truediv__(self, o):
        t = self._other(o)
        if t is None:
            return NotImplemented
        raise Unsupported("timedelta / timedelta (floating point)")

    def astype(self, dt):
        dt = np.dtype(dt)
        if dt.kind == "m":
            u = np.datetime_data(dt)[0]
            if UNITS[u] < UNITS[self.unit]:
                M.trusted("numpy: timedelta64 astype to a coarser unit is floor division of the count")
                return TD64(self.value // (UNITS[self.unit] // UNITS[u]), u)
            return TD64(_conv(self.value, self.unit, u), u)
        if dt.kind == "i":
            return self.value
        raise Unsupported("timedelta astype %s" % dt)

    def _cmp(self, o, f):
        t = self._other(o)
        if t is None:
            return NotImplemented
        u = _finer(self.unit, t.unit)
        return f(_conv(self.value, self.unit, u), _conv(t.value, t.unit, u))

    def __lt__(self, o):
        return self._cmp(o, lambda a, b: a < b)

    def __eq__(self, o):
        r = self._cmp(o, lambda a, b: a == b)
        return False if r is NotImplemented else r

    def __hash__(self):
        return id(self)


class DT64(object):
    def __init__(self, value, unit):
        self.value = value      # count of `unit` since the Unix epoch
        self.unit = unit

    @staticmethod
    def _of(o):
        if isinstance(o, DT64):
            return o
        if isinstance(o, np.datetime64):
            u = np.datetime_data(o.dtype)[0]
            return DT64(int(o.astype("int64")), u)
        return None

    @property
    def dtype(self):
        return np.dtype("datetime64[%s]" % self.unit)

    def __add__(self, o):
        t = TD64(0, "s")._other(o)
        if t is None:
            return NotImplemented
        u = _finer(self.unit, t.unit)
        return DT64(_conv(self.value, self.unit, u) + _conv(t.value, t.unit, u), u)

    __radd__ = __add__

    def __sub__(self, o):
        d = DT64._of(o)
        if d is not None:
            u = _finer(self.unit, d.unit)
            return TD64(_conv(self.value, self.unit, u) - _conv(d.value, d.unit, u), u)
        t = TD64(0, "s")._other(o)
        if t is None:
            return NotImplemented
        u = _finer(self.unit, t.unit)
        return DT64(_conv(self.value, self.unit, u) - _conv(t.value, t.unit, u), u)

    def __eq__(self, o):
        d = DT64._of(o)
        if d is None:
            return False
        u = _finer(self.unit, d.unit)
        return _conv(self.value, self.unit, u) == _conv(d.value, d.unit, u)

    def __hash__(self):
        return id(self)


def m_timedelta64(interp, value=0, unit=None):
    if is_sym(value) or (sym.get_state() is not None and unit in UNITS and isinstance(value, int)):
        return TD64(value, unit)
    return np.timedelta64(value, unit) if unit is not None else np.timedelta64(value)


def m_datetime64(interp, value, unit=None):
    if isinstance(value, DT64):
        if unit is None or unit == value.unit:
            return value
        return DT64(_conv(value.value, value.unit, unit), unit)
    return np.datetime64(value, unit) if unit is not None else np.datetime64(value)


def _binop(interp, opt, l, r, inplace):
    import ast
    if isinstance(l, np.datetime64):
        l = DT64._of(l)
    if isinstance(r, np.datetime64):
        r = DT64._of(r)
    if isinstance(l, np.timedelta64):
        l = TD64(0, "s")._other(l)
    if isinstance(r, np.timedelta64):
        r = TD64(0, "s")._other(r)
    ops = {ast.Add: ("__add__", "__radd__"), ast.Sub: ("__sub__", "__rsub__"), ast.Mult: ("__mul__", "__rmul__"),
           ast.Div: ("__truediv__", "__rtruediv__")}
    if opt not in ops:
        return NotImplemented
    f, rf = ops[opt]
    if hasattr(l, f) and isinstance(l, (TD64, DT64)):
        res = getattr(l, f)(r)
        if res is not NotImplemented:
            return res
    if hasattr(r, rf) and isinstance(r, (TD64, DT64)):
        res = getattr(r, rf)(l)
        if res is not NotImplemented:
            return res
    return NotImplemented


def install(interp, table):
    interp.models[("binop", TD64)] = _binop
    interp.models[("binop", DT64)] = _binop
    table["timedelta64"] = _ClassLike(np.timedelta64, lambda *a, **k: m_timedelta64(interp, *a, **k))
    table["datetime64"] = _ClassLike(np.datetime64, lambda *a, **k: m_datetime64(interp, *a, **k))
    interp.models[("isinstance", DT64)] = lambda i, v, c: c in (np.datetime64, np.generic, object)
    interp.models[("isinstance", TD64)] = lambda i, v, c: c in (np.timedelta64, np.generic, object)


class _ClassLike(object):
    """callable standing for a NumPy scalar class that also works as isinstance target"""

    def __init__(self, real, fn):
        self.real = real
        self.fn = fn

    def __call__(self, *a, **k):
        return self.fn(*a, **k)
