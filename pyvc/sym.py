"""Symbolic value domain of pyvc.

Proxy values: SymInt / SymBool / SymReal wrap z3 terms and implement Python's
operator protocol with *Python* semantics (floor division and modulo, bool as
int, bit operations with constants).  Truthiness of a SymBool asks the current
execution state to decide (path split).  Everything concrete stays a normal
Python value and is executed by CPython itself.
"""
import z3

_state = None            # current State (set by interp while a path runs)
_fresh_counter = [0]


def set_state(s):
    global _state
    _state = s


def get_state():
    return _state


class Unsupported(Exception):
    """Construct outside the engine's subset -> function is 'undecided', never a violation."""


def fresh_name(prefix):
    _fresh_counter[0] += 1
    return "%s!%d" % (prefix, _fresh_counter[0])


def reset_fresh():
    _fresh_counter[0] = 0


def is_sym(v):
    return isinstance(v, (SymInt, SymBool, SymReal))


def z3int(v):
    """Python/Sym value -> z3 Int term."""
    if isinstance(v, SymInt):
        return v.e
    if isinstance(v, SymBool):
        return z3.If(v.e, z3.IntVal(1), z3.IntVal(0))
    if isinstance(v, bool):
        return z3.IntVal(1 if v else 0)
    if isinstance(v, int):
        return z3.IntVal(v)
    if isinstance(v, z3.ArithRef) and v.is_int():
        return v
    try:
        import numpy as np
        if isinstance(v, np.integer):
            return z3.IntVal(int(v))
    except ImportError:
        pass
    raise Unsupported("not an integer value: %r" % (v,))


def z3bool(v):
    if isinstance(v, SymBool):
        return v.e
    if isinstance(v, bool):
        return z3.BoolVal(v)
    if isinstance(v, SymInt):
        return v.e != 0
    if isinstance(v, int):
        return z3.BoolVal(v != 0)
    if v is None:
        return z3.BoolVal(False)
    if z3.is_bool(v):
        return v
    raise Unsupported("not a boolean value: %r" % (v,))


def z3real(v):
    from fractions import Fraction
    if isinstance(v, SymReal):
        return v.e
    if isinstance(v, SymInt):
        return z3.ToReal(v.e)
    if isinstance(v, bool):
        return z3.RealVal(1 if v else 0)
    if isinstance(v, int):
        return z3.RealVal(v)
    if isinstance(v, float):
        fr = Fraction(v)          # exact value of the double
        return z3.RealVal(fr.numerator) / z3.RealVal(fr.denominator)
    if isinstance(v, Fraction):
        return z3.RealVal(v.numerator) / z3.RealVal(v.denominator)
    try:
        import numpy as np
        if isinstance(v, np.floating):
            return z3real(float(v))
        if isinstance(v, np.integer):
            return z3.RealVal(int(v))
    except ImportError:
        pass
    raise Unsupported("not a real value: %r" % (v,))


def _lift(v):
    """simplify a z3 term and lower to a Python constant where possible"""
    v = z3.simplify(v)
    if z3.is_int_value(v):
        return v.as_long()
    if z3.is_true(v):
        return True
    if z3.is_false(v):
        return False
    if z3.is_bool(v):
        return SymBool(v)
    if z3.is_int(v):
        return SymInt(v)
    if z3.is_real(v):
        return SymReal(v)
    raise Unsupported("cannot lift %r" % (v,))


def _intlike(o):
    if isinstance(o, (SymInt, SymBool, int)):
        return True
    try:
        import numpy as np
        return isinstance(o, np.integer)
    except ImportError:
        return False


class SymBool(object):
    __slots__ = ("e",)

    def __init__(self, e):
        self.e = e

    def __bool__(self):
        st = get_state()
        if st is None:
            raise Unsupported("truth value of symbolic bool outside a state")
        return st.decide(self.e)

    def __repr__(self):
        return "SymBool(%s)" % self.e

    def __hash__(self):
        return hash(self.e)

    # bool-as-int arithmetic
    def _i(self):
        return SymInt(z3int(self))

    def __add__(self, o):
        return self._i() + o

    def __radd__(self, o):
        return o + self._i()

    def __sub__(self, o):
        return self._i() - o

    def __rsub__(self, o):
        return o - self._i()

    def __mul__(self, o):
        return self._i() * o

    def __rmul__(self, o):
        return o * self._i()

    def __eq__(self, o):
        if isinstance(o, (SymBool, bool)):
            return _lift(self.e == z3bool(o))
        if _intlike(o):
            return self._i() == o
        return False

    def __ne__(self, o):
        r = self.__eq__(o)
        return sym_not(r)

    def __and__(self, o):
        if isinstance(o, (SymBool, bool)):
            return _lift(z3.And(self.e, z3bool(o)))
        return self._i() & o

    __rand__ = __and__

    def __or__(self, o):
        if isinstance(o, (SymBool, bool)):
            return _lift(z3.Or(self.e, z3bool(o)))
        return NotImplemented

    __ror__ = __or__

    def __invert__(self):
        raise Unsupported("~ on symbolic bool")

    def __index__(self):
        raise Unsupported("symbolic bool used as a concrete index")


def sym_not(v):
    if isinstance(v, SymBool):
        return _lift(z3.Not(v.e))
    return not v


def sym_and(*vs):
    es = []
    for v in vs:
        if isinstance(v, SymBool):
            es.append(v.e)
        elif z3.is_bool(v) if not isinstance(v, (bool, int, type(None))) else False:
            es.append(v)
        elif not v:
            return False
    if not es:
        return True
    return _lift(z3.And(*es))


def sym_or(*vs):
    es = []
    for v in vs:
        if isinstance(v, SymBool):
            es.append(v.e)
        elif z3.is_bool(v) if not isinstance(v, (bool, int, type(None))) else False:
            es.append(v)
        elif v:
            return True
    if not es:
        return False
    return _lift(z3.Or(*es))


def sym_implies(a, b):
    return sym_or(sym_not(a), b)


def sym_ite(c, a, b):
    """value-level if-then-else (no path split) for int/bool/real values"""
    if not isinstance(c, SymBool):
        return a if c else b
    if isinstance(a, (SymBool, bool)) and isinstance(b, (SymBool, bool)):
        return _lift(z3.If(c.e, z3bool(a), z3bool(b)))
    if isinstance(a, (SymReal, float)) or isinstance(b, (SymReal, float)):
        return _lift(z3.If(c.e, z3real(a), z3real(b)))
    return _lift(z3.If(c.e, z3int(a), z3int(b)))


_divmod_cache = {}


def py_divmod(x, d):
    """Python floor division / modulo on z3 Int terms x, d.  Returns (q, r) terms.

    A constant positive divisor uses z3's div/mod directly (they coincide with
    Python's there).  Otherwise fresh q, r are introduced with their defining
    constraint added to the path condition as a *fact* (definitional extension:
    q, r are uniquely determined by x, d != 0, so nothing is assumed)."""
    st = get_state()
    d = z3.simplify(d)
    x = z3.simplify(x)
    if z3.is_int_value(d):
        c = d.as_long()
        if c > 0:
            return x / d, x % d
        if c < 0:
            # floor(x / c) = floor(-x / -c)
            q = (-x) / z3.IntVal(-c)
            return q, x - q * d
        raise ZeroDivisionError("integer division or modulo by zero")
    key = (x.get_id(), d.get_id())
    if st is not None and key in st.divmod_cache:
        return st.divmod_cache[key][:2]
    q = z3.Int(fresh_name("q"))
    r = z3.Int(fresh_name("r"))
    fact = z3.And(x == q * d + r,
                  z3.Implies(d > 0, z3.And(0 <= r, r < d)),
                  z3.Implies(d < 0, z3.And(d < r, r <= 0)))
    if st is not None:
        st.divmod_cache[key] = (q, r, x, d)
        st.add_fact(fact)
        st.divmods.append((x, d, q, r))
    return q, r


class SymInt(object):
    __slots__ = ("e",)

    def __init__(self, e):
        self.e = e

    def __repr__(self):
        return "SymInt(%s)" % self.e

    def __hash__(self):
        return hash(self.e)

    def __bool__(self):
        return bool(_lift(self.e != 0))

    def __index__(self):
        raise Unsupported("symbolic int used as a concrete index/size")

    def __int__(self):
        raise Unsupported("int() of symbolic int must go through the model")

    def _bin(self, o, f):
        if isinstance(o, (SymReal, float)):
            return NotImplemented
        if not _intlike(o):
            return NotImplemented
        return _lift(f(self.e, z3int(o)))

    def _rbin(self, o, f):
        if not _intlike(o):
            return NotImplemented
        return _lift(f(z3int(o), self.e))

    def __add__(self, o):
        return self._bin(o, lambda a, b: a + b)

    def __radd__(self, o):
        return self._rbin(o, lambda a, b: a + b)

    def __sub__(self, o):
        return self._bin(o, lambda a, b: a - b)

    def __rsub__(self, o):
        return self._rbin(o, lambda a, b: a - b)

    def __mul__(self, o):
        return self._bin(o, lambda a, b: a * b)

    def __rmul__(self, o):
        return self._rbin(o, lambda a, b: a * b)

    def __neg__(self):
        return _lift(-self.e)

    def __pos__(self):
        return self

    def __abs__(self):
        return _lift(z3.If(self.e >= 0, self.e, -self.e))

    def _zero_check(self, d):
        st = get_state()
        dz = _lift(d == 0)
        if dz is True or (st is not None and bool(dz)):
            raise ZeroDivisionError("integer division or modulo by zero")

    def __floordiv__(self, o):
        if not _intlike(o):
            return NotImplemented
        d = z3int(o)
        self._zero_check(d)
        return _lift(py_divmod(self.e, d)[0])

    def __rfloordiv__(self, o):
        if not _intlike(o):
            return NotImplemented
        self._zero_check(self.e)
        return _lift(py_divmod(z3int(o), self.e)[0])

    def __mod__(self, o):
        if not _intlike(o):
            return NotImplemented
        d = z3int(o)
        self._zero_check(d)
        return _lift(py_divmod(self.e, d)[1])

    def __rmod__(self, o):
        if not _intlike(o):
            return NotImplemented
        self._zero_check(self.e)
        return _lift(py_divmod(z3int(o), self.e)[1])

    def __divmod__(self, o):
        return (self // o, self % o)

    def __truediv__(self, o):
        st = get_state()
        if st is not None and getattr(st, "real_floats", False) and isinstance(o, (int, float, SymInt, SymReal)):
            return SymReal(z3.ToReal(self.e)) / o          # A-REAL: float arithmetic over the reals
        raise Unsupported("true division of symbolic ints (float result)")

    def __rtruediv__(self, o):
        st = get_state()
        if st is not None and getattr(st, "real_floats", False) and isinstance(o, (int, float)):
            return SymReal(z3real(o)) / SymReal(z3.ToReal(self.e))
        raise Unsupported("true division of symbolic ints (float result)")

    def __pow__(self, o):
        if isinstance(o, int) and 0 <= o <= 8:
            r = z3.IntVal(1)
            for _ in range(o):
                r = r * self.e
            return _lift(r)
        raise Unsupported("symbolic power")

    def __rpow__(self, o):
        raise Unsupported("symbolic exponent")

    def _cmp(self, o, f):
        if isinstance(o, (SymReal, float)):
            return _lift(f(z3.ToReal(self.e), z3real(o)))
        if not _intlike(o):
            return NotImplemented
        return _lift(f(self.e, z3int(o)))

    def __lt__(self, o):
        return self._cmp(o, lambda a, b: a < b)

    def __le__(self, o):
        return self._cmp(o, lambda a, b: a <= b)

    def __gt__(self, o):
        return self._cmp(o, lambda a, b: a > b)

    def __ge__(self, o):
        return self._cmp(o, lambda a, b: a >= b)

    def __eq__(self, o):
        if o is None:
            return False
        r = self._cmp(o, lambda a, b: a == b)
        return False if r is NotImplemented else r

    def __ne__(self, o):
        if o is None:
            return True
        r = self._cmp(o, lambda a, b: a != b)
        return True if r is NotImplemented else r

    # bit operations: only with a non-negative constant on one side
    def __and__(self, o):
        if isinstance(o, bool):
            o = int(o)
        if isinstance(o, int) and o >= 0:
            terms = []
            k = 0
            c = o
            while c:
                if c & 1:
                    p = 1 << k
                    terms.append(((self.e / z3.IntVal(p)) % 2) * p)
                c >>= 1
                k += 1
            if not terms:
                return 0
            return _lift(z3.Sum(terms) if len(terms) > 1 else terms[0])
        raise Unsupported("& with symbolic/negative operand")

    __rand__ = __and__

    def __or__(self, o):
        if isinstance(o, int) and o >= 0:
            a = self.__and__(o)
            return self + o - a
        raise Unsupported("| with symbolic/negative operand")

    __ror__ = __or__

    def __xor__(self, o):
        # only equality of results matters where the repository uses ^ (hash mixing): uninterpreted
        if not _intlike(o):
            return NotImplemented
        f = z3.Function("pyxor", z3.IntSort(), z3.IntSort(), z3.IntSort())
        return _lift(f(self.e, z3int(o)))

    def __rxor__(self, o):
        if not _intlike(o):
            return NotImplemented
        f = z3.Function("pyxor", z3.IntSort(), z3.IntSort(), z3.IntSort())
        return _lift(f(z3int(o), self.e))

    def __rshift__(self, o):
        if isinstance(o, int) and o >= 0:
            return _lift(self.e / z3.IntVal(1 << o))
        raise Unsupported(">> by symbolic amount")

    def __lshift__(self, o):
        if isinstance(o, int) and o >= 0:
            return _lift(self.e * z3.IntVal(1 << o))
        raise Unsupported("<< by symbolic amount")

    def __rlshift__(self, o):
        # shift by a symbolic amount: decided by case split over 0..63 (bit positions)
        if isinstance(o, int):
            st = get_state()
            if st is not None:
                for k in range(64):
                    if bool(_lift(self.e == k)):
                        return o << k
        raise Unsupported("<< by symbolic amount")


class SymReal(object):
    """A mathematical real (assumption A-REAL where floats are modelled by it)."""
    __slots__ = ("e",)

    def __init__(self, e):
        self.e = e

    def __repr__(self):
        return "SymReal(%s)" % self.e

    def __hash__(self):
        return hash(self.e)

    def __bool__(self):
        return bool(_lift(self.e != 0))

    def __float__(self):
        raise Unsupported("float() of symbolic real")

    def _ok(self, o):
        from fractions import Fraction
        if isinstance(o, (SymReal, SymInt, SymBool, int, float, Fraction)):
            return True
        try:
            import numpy as np
            return isinstance(o, (np.floating, np.integer))
        except ImportError:
            return False

    def _bin(self, o, f):
        if not self._ok(o):
            return NotImplemented
        return _lift(f(self.e, z3real(o)))

    def _rbin(self, o, f):
        if not self._ok(o):
            return NotImplemented
        return _lift(f(z3real(o), self.e))

    def __add__(self, o):
        return self._bin(o, lambda a, b: a + b)

    def __radd__(self, o):
        return self._rbin(o, lambda a, b: a + b)

    def __sub__(self, o):
        return self._bin(o, lambda a, b: a - b)

    def __rsub__(self, o):
        return self._rbin(o, lambda a, b: a - b)

    def __mul__(self, o):
        return self._bin(o, lambda a, b: a * b)

    def __rmul__(self, o):
        return self._rbin(o, lambda a, b: a * b)

    def __truediv__(self, o):
        if not self._ok(o):
            return NotImplemented
        d = z3real(o)
        st = get_state()
        if st is not None:
            st.note_division(d)
        return _lift(self.e / d)

    def __rtruediv__(self, o):
        if not self._ok(o):
            return NotImplemented
        st = get_state()
        if st is not None:
            st.note_division(self.e)
        return _lift(z3real(o) / self.e)

    def __neg__(self):
        return _lift(-self.e)

    def __pos__(self):
        return self

    def __pow__(self, o):
        if isinstance(o, int) and 0 <= o <= 16:
            r = z3.RealVal(1)
            for _ in range(o):
                r = r * self.e
            return _lift(r)
        if isinstance(o, float) and o == int(o) and 0 <= o <= 16:
            return self.__pow__(int(o))
        raise Unsupported("symbolic real power")

    def _cmp(self, o, f):
        if not self._ok(o):
            return NotImplemented
        return _lift(f(self.e, z3real(o)))

    def __lt__(self, o):
        return self._cmp(o, lambda a, b: a < b)

    def __le__(self, o):
        return self._cmp(o, lambda a, b: a <= b)

    def __gt__(self, o):
        return self._cmp(o, lambda a, b: a > b)

    def __ge__(self, o):
        return self._cmp(o, lambda a, b: a >= b)

    def __eq__(self, o):
        if o is None:
            return False
        r = self._cmp(o, lambda a, b: a == b)
        return False if r is NotImplemented else r

    def __ne__(self, o):
        if o is None:
            return True
        r = self._cmp(o, lambda a, b: a != b)
        return True if r is NotImplemented else r


def mk_int(name):
    return SymInt(z3.Int(name))


def mk_bool(name):
    return SymBool(z3.Bool(name))


def mk_real(name):
    return SymReal(z3.Real(name))
