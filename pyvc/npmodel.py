"""NumPy subset model: arrays are described by *where each element's bytes come from*.

FileArr(content, base, count, stride, itemsize, dtype): element j occupies
content[base + j*stride : base + j*stride + itemsize]; `as_bytes` marks a uint8 array of
count*itemsize bytes laid out row by row (result of 2-D column selection + ravel).
ByteBuf: a mutable zero-initialised uint8 buffer filled by readinto().
AbsArr: an array known only by length and an abstract description (values of a channel window...).
"""
import z3
import numpy as np

from . import sym
from .sym import SymInt, SymBool, Unsupported, is_sym, sym_ite, sym_and, sym_or, sym_not
from . import models as M


def _z(v):
    return sym.z3int(v)


class ByteBuf(object):
    """np.zeros(n, uint8) buffer; writes tracked as extents (start, length, content, src_off)."""

    def __init__(self, n):
        self.n = n
        self.extents = []

    def view(self, lo=0, hi=None):
        return BufView(self, lo, self.n if hi is None else hi)


class BufView(object):
    """uint8 view buf[lo:hi]"""

    def __init__(self, buf, lo, hi):
        self.buf = buf
        self.lo = lo
        self.hi = hi
        self.dtype_ = np.dtype('uint8')

    def nbytes_value(self):
        return self.hi - self.lo

    def sym_len(self):
        return self.hi - self.lo

    def write_from_file(self, content, src, k):
        if isinstance(k, int) and k == 0:
            return
        self.buf.extents.append((self.lo, k, content, src))

    def resolve(self, dtype):
        """typed array over this view; the view must be exactly one extent read from a file"""
        ex = [e for e in self.buf.extents if not (isinstance(e[1], int) and e[1] == 0)]
        dtype = np.dtype(dtype)
        total = self.hi - self.lo
        if not ex:
            # all zero
            if sym._lift(_z(total) == 0) is True:
                return FileArr(M.content_array("zero"), 0, 0, dtype.itemsize, dtype.itemsize, dtype)
            return FileArr(z3.K(z3.IntSort(), z3.IntVal(0)), 0, _exact_div(total, dtype.itemsize),
                           dtype.itemsize, dtype.itemsize, dtype)
        if len(ex) != 1:
            raise Unsupported("buffer filled by several reads")
        (start, k, content, src) = ex[0]
        st = sym.get_state()
        ok = sym._lift(_z(start) == _z(self.lo))
        if ok is not True and not bool(ok):
            raise Unsupported("typed view not starting at the filled extent")
        # note: if the view is longer than the filled extent (k < total) the tail holds zeros, not file
        # bytes; the array *length* is still total/itemsize, which is what postconditions constrain
        return FileArr(content, src, _exact_div(total, dtype.itemsize), dtype.itemsize, dtype.itemsize, dtype)


def _exact_div(total, size):
    if size == 1:
        return total
    if isinstance(total, int):
        if total % size:
            from .interp import ProgExc
            raise ProgExc(ValueError, "array size not a multiple of itemsize")
        return total // size
    q = total // size
    if not bool((total % size) == 0):
        from .interp import ProgExc
        raise ProgExc(ValueError, "array size not a multiple of itemsize")
    return q


class FileArr(object):
    def __init__(self, content, base, count, stride, itemsize, dtype, as_bytes=False, rows2d=None):
        self.content = content
        self.base = base
        self.count = count          # number of elements (rows if as_bytes)
        self.stride = stride
        self.itemsize = itemsize
        self.dtype_ = np.dtype(dtype) if dtype is not None else None
        self.as_bytes = as_bytes    # uint8 array of count*itemsize bytes
        self.rows2d = rows2d        # (rows, width) when 2-D uint8

    def sym_len(self):
        if self.rows2d is not None:
            return self.rows2d[0]
        if self.as_bytes:
            return self.count * self.itemsize
        return self.count

    def addr(self, j):
        return self.base + j * self.stride

    def __repr__(self):
        return "FileArr(base=%s,count=%s,stride=%s,itemsize=%s,dtype=%s%s)" % (
            self.base, self.count, self.stride, self.itemsize, self.dtype_, ",bytes" if self.as_bytes else "")

    @property
    def shape(self):
        if self.rows2d is not None:
            return self.rows2d
        return (self.sym_len(),)

    @property
    def dtype(self):
        return self.dtype_


def _filearr_getattr_dtype(interp, a):
    return a.dtype_


def _filearr_set_dtype(interp, a, dt):
    """buffer.dtype = dtype (in-place reinterpretation of a contiguous uint8 array)"""
    M.trusted("numpy: assigning .dtype / .view(dtype) reinterprets the same bytes in order; "
              "itemsize must divide the byte length")
    dt = np.dtype(dt)
    if isinstance(a, BufView):
        raise Unsupported("dtype assignment on raw buffer view (use fromfile contract)")
    if a.as_bytes:
        if dt.itemsize == a.itemsize:
            a.as_bytes = False
            a.dtype_ = dt
            return
        if a.stride == a.itemsize or a.itemsize == 1:
            total = a.count * a.itemsize
            a.count = _exact_div(total, dt.itemsize)
            a.itemsize = dt.itemsize
            a.stride = dt.itemsize
            a.as_bytes = False
            a.dtype_ = dt
            return
        raise Unsupported("reinterpretation across strided rows")
    if a.dtype_ is not None and a.dtype_.itemsize == dt.itemsize:
        a.dtype_ = dt
        return
    if a.stride == a.itemsize:
        total = a.count * a.itemsize
        a.count = _exact_div(total, dt.itemsize)
        a.itemsize = dt.itemsize
        a.stride = dt.itemsize
        a.dtype_ = dt
        return
    raise Unsupported("dtype reinterpretation")


def _filearr_getitem(interp, a, k):
    from .interp import SymSlice, ProgExc
    if isinstance(k, (slice, SymSlice)):
        if k.step not in (None, 1):
            raise Unsupported("strided slice of file array")
        n = a.sym_len()
        lo, hi = _norm_slice(interp, k.start, k.stop, n)
        cnt = hi - lo
        if a.rows2d is not None:
            raise Unsupported("row slice of 2d array")
        if a.as_bytes:
            if a.stride == a.itemsize or a.itemsize == 1:
                return FileArr(a.content, a.base + lo * (a.stride // a.itemsize if a.itemsize else 1), 1, 1, 1,
                               a.dtype_, as_bytes=True)._with_bytes(cnt)
            raise Unsupported("slice of strided byte array")
        return FileArr(a.content, a.base + lo * a.stride, cnt, a.stride, a.itemsize, a.dtype_)
    if isinstance(k, tuple) and len(k) == 2 and a.rows2d is not None:
        rsel, csel = k
        if not (isinstance(rsel, slice) and rsel == slice(None, None, None)):
            raise Unsupported("2d row selection")
        cols = list(csel)
        if any(is_sym(c) for c in cols):
            # symbolic but contiguous columns c0, c0+1, ...
            c0 = cols[0]
            for i, c in enumerate(cols):
                if sym._lift(_z(c) == _z(c0) + i) is not True:
                    raise Unsupported("non-contiguous symbolic byte columns")
            rows, width = a.rows2d
            if not interp.truth(sym_and(c0 >= 0, c0 + len(cols) <= width)):
                raise ProgExc(IndexError, "column out of bounds")
            return Sel2D(a, cols)
        if cols != list(range(cols[0], cols[0] + len(cols))) if cols else True:
            if cols:
                raise Unsupported("non-contiguous byte columns")
        rows, width = a.rows2d
        if cols and (cols[0] < 0 or cols[-1] >= width if isinstance(width, int) else
                     not bool(sym_and(cols[0] >= 0, cols[-1] < width))):
            raise ProgExc(IndexError, "column out of bounds")
        M.trusted("numpy: a[:, cols].ravel() on a (rows,width) uint8 array lists, row by row, the bytes at "
                  "the selected columns")
        return Sel2D(a, cols)
    raise Unsupported("file array index %r" % (k,))


def _with_bytes(self, nbytes):
    self.count = nbytes
    self.itemsize = 1
    self.stride = 1
    return self


FileArr._with_bytes = _with_bytes


class BitOf(object):
    """(x & (1 << bit)) >> bit of every element of arr"""

    def __init__(self, arr, bit):
        self.arr = arr
        self.bit = bit

    def sym_len(self):
        return self.arr.sym_len()


class Masked(object):
    def __init__(self, arr, mask):
        self.arr = arr
        self.mask = mask


def m_bitwise_and(interp, a, mask):
    if isinstance(a, FileArr):
        return Masked(a, mask)
    return np.bitwise_and(a, mask)


def m_right_shift(interp, a, n):
    if isinstance(a, Masked):
        M.trusted("numpy.bitwise_and / right_shift are elementwise; ((x & (1 << b)) >> b) == (x >> b) & 1 "
                  "(bit-vector lemma, harness bit_extraction_lemma)")
        m = a.mask
        if is_sym(n):
            for k in range(64):
                if interp.truth(n == k):
                    n = k
                    break
        if isinstance(m, int) and isinstance(n, int) and m == (1 << n):
            return BitOf(a.arr, n)
        raise Unsupported("mask/shift pair")
    return np.right_shift(a, n)


class Sel2D(object):
    """combined_data[:, byte_columns] before ravel()"""

    def __init__(self, arr, cols):
        self.arr = arr
        self.cols = cols

    def ravel(self):
        a = self.arr
        rows, width = a.rows2d
        size = len(self.cols)
        col0 = self.cols[0] if self.cols else 0
        return FileArr(a.content, a.base + col0, rows, width, size, np.dtype('uint8'), as_bytes=True)


def _norm_slice(interp, start, stop, n):
    """Python slice clamping for step 1 by case split; returns (lo, hi) with 0<=lo<=hi<=n"""
    lo = 0 if start is None else start
    hi = n if stop is None else stop
    if interp.truth(lo < 0):
        lo = lo + n
        if interp.truth(lo < 0):
            lo = 0
    if interp.truth(hi < 0):
        hi = hi + n
        if interp.truth(hi < 0):
            hi = 0
    if interp.truth(hi > n):
        hi = n
    if interp.truth(lo > n):
        lo = n
    if interp.truth(hi < lo):
        hi = lo
    return lo, hi


def _filearr_reshape(a, *shape):
    from .interp import ProgExc
    if len(shape) == 1 and isinstance(shape[0], tuple):
        shape = shape[0]
    if len(shape) == 2 and shape[0] == -1:
        w = shape[1]
        if not (a.as_bytes or (a.dtype_ == np.dtype('uint8') and a.stride == 1)):
            raise Unsupported("reshape of non-byte array")
        total = a.sym_len()
        M.trusted("numpy: reshape(-1, w) raises ValueError unless w divides the length; rows are consecutive")
        if isinstance(w, int) and w == 0:
            raise Unsupported("reshape to zero width")
        if a.as_bytes and a.stride != a.itemsize and a.itemsize != 1:
            # rows of `itemsize` bytes that are `stride` apart in the file (column selection + ravel)
            if isinstance(w, int) and w == a.itemsize:
                return FileArr(a.content, a.base, a.count, a.stride, w, np.dtype('uint8'), as_bytes=True,
                               rows2d=(a.count, w))
            raise Unsupported("reshape of strided byte rows to a different width")
        if not bool((total % w) == 0):
            raise ProgExc(ValueError, "reshape")
        rows = total // w
        return FileArr(a.content, a.base, rows, w, w, np.dtype('uint8'), as_bytes=True, rows2d=(rows, w))
    if len(shape) == 1 and shape[0] == -1:
        return a
    raise Unsupported("reshape%r" % (shape,))


FileArr.reshape = _filearr_reshape


def _filearr_view(a, *args):
    if not args:
        return FileArr(a.content, a.base, a.count, a.stride, a.itemsize, a.dtype_, a.as_bytes, a.rows2d)
    dt = args[0]
    b = FileArr(a.content, a.base, a.count, a.stride, a.itemsize, a.dtype_, a.as_bytes, a.rows2d)
    if b.rows2d is not None:
        rows, width = b.rows2d
        ndt = np.dtype(dt)
        if isinstance(width, int) and ndt.itemsize == width:
            M.trusted("numpy: (rows,w) uint8 .view(dtype of itemsize w) gives (rows,1) items over the same bytes")
            c = FileArr(a.content, a.base, rows, a.stride, width, ndt)
            c.pending_2d = True
            return c
        raise Unsupported("2d view")
    _filearr_set_dtype(None, b, dt)
    return b


FileArr.view = _filearr_view


class ListArr(object):
    """small 1-d array of concrete length whose elements may be symbolic (list-backed)"""

    def __init__(self, items, dtype=None):
        self.items = list(items)
        self.dtype_ = np.dtype(dtype) if dtype is not None else None

    def sym_len(self):
        return len(self.items)

    def __len__(self):
        return len(self.items)

    def __iter__(self):
        return iter(self.items)

    @property
    def dtype(self):
        return self.dtype_

    @property
    def shape(self):
        return (len(self.items),)

    def all(self):
        r = True
        for x in self.items:
            r = sym_and(r, x)
        return r

    def any(self):
        r = False
        for x in self.items:
            r = sym_or(r, x)
        return r

    def __eq__(self, o):
        if isinstance(o, ListArr):
            if len(o.items) != len(self.items):
                raise Unsupported("elementwise == of different lengths")
            return ListArr([a == b for a, b in zip(self.items, o.items)], bool)
        return ListArr([a == o for a in self.items], bool)

    def __hash__(self):
        return id(self)

    # ---- elementwise arithmetic (NumPy broadcasting of a scalar or an equally long array)
    alias = "fresh"          # 'input': may share memory with the caller's raw data (purity tracking, C13)

    def _res_dtype(self, o, truediv=False):
        """NumPy 2 (NEP 50) result dtype of self <op> o: Python scalars are weakly typed, NumPy scalars and arrays
        are not; true division of integers is double.  Assumed contract of NumPy's promotion, evaluated with
        np.result_type on the dtypes."""
        if self.dtype_ is None:
            return np.dtype("float64")
        a = self.dtype_
        if isinstance(o, ListArr):
            if o.dtype_ is None:
                return np.dtype("float64")
            r = np.result_type(a, o.dtype_)
        elif isinstance(o, np.generic):
            r = np.result_type(a, o.dtype)
        elif isinstance(o, (bool, SymBool)):
            r = a
        elif isinstance(o, (int, SymInt)):
            r = a if a.kind in "iufc" else np.dtype("int64")
        elif isinstance(o, complex):
            r = np.result_type(a, np.complex64) if a.kind in "fc" and a.itemsize <= 8 and a.kind != "c" else \
                np.result_type(a, np.complex128)
        else:                                       # Python float (SymReal, FloatBits, float)
            r = a if a.kind in "fc" else np.dtype("float64")
        if truediv and r.kind in "iub":
            r = np.dtype("float64")
        return r

    def _zip(self, o, f, dtype=None, truediv=False):
        if dtype is None:
            dtype = self._res_dtype(o, truediv)
        if isinstance(o, ListArr):
            if len(o.items) != len(self.items):
                raise Unsupported("elementwise op on different lengths")
            return ListArr([f(a, b) for a, b in zip(self.items, o.items)], dtype)
        return ListArr([f(a, o) for a in self.items], dtype)

    def __add__(self, o):
        return self._zip(o, lambda a, b: a + b)

    def __radd__(self, o):
        return self._zip(o, lambda a, b: b + a)

    def __sub__(self, o):
        return self._zip(o, lambda a, b: a - b)

    def __rsub__(self, o):
        return self._zip(o, lambda a, b: b - a)

    def __mul__(self, o):
        return self._zip(o, lambda a, b: a * b)

    def __rmul__(self, o):
        return self._zip(o, lambda a, b: b * a)

    def __truediv__(self, o):
        return self._zip(o, lambda a, b: a / b, truediv=True)

    def __rtruediv__(self, o):
        return self._zip(o, lambda a, b: b / a, truediv=True)

    def __neg__(self):
        return ListArr([-a for a in self.items], self.dtype_)

    # ---- elementwise boolean algebra of masks
    def __and__(self, o):
        return self._zip(o, lambda a, b: sym_and(a, b), bool)

    def __rand__(self, o):
        return self._zip(o, lambda a, b: sym_and(b, a), bool)

    def __or__(self, o):
        return self._zip(o, lambda a, b: sym_or(a, b), bool)

    def __ror__(self, o):
        return self._zip(o, lambda a, b: sym_or(b, a), bool)

    def __invert__(self):
        if self.dtype_ is None or self.dtype_.kind != "b":
            raise Unsupported("~ on a non-boolean array")
        return ListArr([sym_not(a) for a in self.items], bool)

    def __pow__(self, o):
        return self._zip(o, lambda a, b: a ** b)

    def __ge__(self, o):
        return self._zip(o, lambda a, b: a >= b, bool)

    def __gt__(self, o):
        return self._zip(o, lambda a, b: a > b, bool)

    def __le__(self, o):
        return self._zip(o, lambda a, b: a <= b, bool)

    def __lt__(self, o):
        return self._zip(o, lambda a, b: a < b, bool)

    def astype(self, dt, copy=True):
        r = ListArr(list(self.items), dt)
        same = self.dtype_ is not None and np.dtype(dt) == self.dtype_
        r.alias = self.alias if (not copy and same) else "fresh"
        if not copy and not same and self.alias == "input":
            r.alias = "fresh"
        r.origin = self
        return r

    def copy(self):
        return ListArr(list(self.items), self.dtype_)

    def tolist(self):
        return list(self.items)

    def inplace(self, new_items):
        st = sym.get_state()
        if self.alias == "input" and st is not None:
            st.ghost.setdefault("purity_violations", []).append("in-place update of the input array")
        self.items = list(new_items)
        return self

    def __repr__(self):
        return "ListArr(%r)" % (self.items,)


def _listarr_binop(interp, opt, l, r, inplace):
    import ast
    if not inplace or not isinstance(l, ListArr):
        return NotImplemented
    ops = {ast.Add: lambda a, b: a + b, ast.Sub: lambda a, b: a - b, ast.Mult: lambda a, b: a * b,
           ast.Div: lambda a, b: a / b}
    if opt not in ops:
        return NotImplemented
    return l.inplace(l._zip(r, ops[opt]).items)


def m_reciprocal(interp, x, out=None):
    if isinstance(x, ListArr):
        res = [1.0 / e for e in x.items]
        if out is not None:
            return out.inplace(res)
        return ListArr(res, "float64")
    return 1.0 / x


def m_sqrt(interp, x, where=True, out=None):
    """numpy.sqrt on reals: s >= 0 with s*s == x (where x >= 0); positions excluded by `where` are left
    unspecified (fresh), as NumPy leaves them uninitialised"""
    from .sym import SymReal, z3real
    M.trusted("numpy.sqrt: the non-negative real root (elements masked out by where= are unspecified)")
    st = sym.get_state()

    def one(e, w):
        if not is_sym(e):
            import math
            return math.sqrt(e)
        s = st.fresh_real("sqrt")
        cond = z3.And(s.e >= 0, s.e * s.e == z3real(e))
        if isinstance(w, bool):
            if w:
                st.add_fact(z3.Implies(z3real(e) >= 0, cond))
        else:
            st.add_fact(z3.Implies(z3.And(sym.z3bool(w), z3real(e) >= 0), cond))
        return s
    if isinstance(x, ListArr):
        ws = where.items if isinstance(where, ListArr) else [where] * len(x.items)
        return ListArr([one(e, w) for e, w in zip(x.items, ws)], "float64")
    return one(x, where)


def m_np_all(interp, x):
    if isinstance(x, ListArr):
        return x.all()
    return interp.truth(x) if not isinstance(x, (SymBool,)) else x


def m_np_any(interp, x):
    if isinstance(x, ListArr):
        return x.any()
    return interp.truth(x) if not isinstance(x, (SymBool,)) else x


def m_logical_not(interp, x):
    if isinstance(x, ListArr):
        return ListArr([sym_not(e) for e in x.items], bool)
    return sym_not(x)


def m_where(interp, cond):
    """np.where(mask) -> (indices,) ; decided per element"""
    if isinstance(cond, ListArr):
        idx = [i for i, c in enumerate(cond.items) if interp.truth(c)]
        return (idx,)
    raise Unsupported("np.where")


def m_diff(interp, x):
    items = list(x.items) if isinstance(x, ListArr) else list(x)
    return ListArr([b - a for a, b in zip(items, items[1:])], "float64")


def m_flip(interp, x):
    items = list(x.items) if isinstance(x, ListArr) else list(x)
    return ListArr(items[::-1], getattr(x, "dtype_", None))


def m_np_array(interp, x, dtype=None):
    items = list(interp.iterate(x))
    if any(is_sym(i) for i in items):
        return ListArr(items, dtype or "float64")
    return np.array(items, dtype=dtype)


def m_interp(interp, x, xp, fp):
    """numpy.interp over the reals: clamped piecewise-linear interpolation through (xp[i], fp[i]), xp increasing"""
    M.trusted("numpy.interp(x, xp, fp): fp[0] left of xp[0], fp[-1] right of xp[-1], linear in between")
    from .sym import SymReal, z3real
    xs = list(xp.items) if isinstance(xp, ListArr) else list(xp)
    fs = list(fp.items) if isinstance(fp, ListArr) else list(fp)

    def one(v):
        v = z3real(v)
        res = z3real(fs[-1])
        for i in range(len(xs) - 2, -1, -1):
            x0, x1, f0, f1 = z3real(xs[i]), z3real(xs[i + 1]), z3real(fs[i]), z3real(fs[i + 1])
            seg = f0 + (v - x0) * (f1 - f0) / (x1 - x0)
            res = z3.If(v < x1, seg, res)
        res = z3.If(v <= z3real(xs[0]), z3real(fs[0]), res)
        return SymReal(res)
    if isinstance(x, ListArr):
        return ListArr([one(e) for e in x.items], "float64")
    return one(x)


def _listarr_getitem(interp, a, k):
    from .interp import ProgExc, SymSlice
    if isinstance(k, slice):
        return ListArr(a.items[k], a.dtype_)
    if isinstance(k, SymSlice):
        raise Unsupported("symbolic slice of small array")
    if isinstance(k, int) or (hasattr(k, "__index__") and not is_sym(k)):
        try:
            return a.items[k]
        except IndexError:
            raise ProgExc(IndexError, "index")
    if isinstance(k, SymInt):
        n = len(a.items)
        idx = k
        if interp.truth(idx < 0):
            idx = idx + n
        for i in range(n):
            if interp.truth(idx == i):
                return a.items[i]
        raise ProgExc(IndexError, "index")
    raise Unsupported("small array index %r" % (k,))


def _listarr_setitem(interp, a, k, v):
    from .interp import ProgExc
    if isinstance(k, int):
        try:
            a.items[k] = v
        except IndexError:
            raise ProgExc(IndexError, "index")
        return
    raise Unsupported("small array store at %r" % (k,))


def m_cumsum(interp, a):
    M.trusted("numpy.cumsum: running sums of the elements in order")
    if isinstance(a, ListArr):
        out = []
        t = 0
        for x in a.items:
            t = t + x
            out.append(t)
        return ListArr(out, a.dtype_)
    return np.cumsum(a)


def m_zeros(interp, n, dtype=float):
    dt = np.dtype(dtype)
    if not is_sym(n) and sym.get_state() is not None and isinstance(n, int) and 0 <= n <= 16 \
            and dt.kind in "iu" and dt != np.dtype('uint8'):
        return ListArr([0] * n, dt)
    if not is_sym(n):
        if isinstance(n, int) and n < 0:
            from .interp import ProgExc
            raise ProgExc(ValueError, "negative dimensions")
        if dt == np.dtype('uint8') and isinstance(n, int) and sym.get_state() is not None \
                and interp.call_stack and interp.call_stack[-1].endswith("fromfile"):
            return ByteBuf(n).view()
        return np.zeros(n, dtype)
    if interp.truth(n < 0):
        from .interp import ProgExc
        raise ProgExc(ValueError, "negative dimensions")
    if dt.kind in "iu" and dt != np.dtype('uint8'):
        # small index/width arrays: a length fixed by the path condition is made concrete
        k = sym.get_state().forced_int(n)
        if k is not None and 0 <= k <= 16:
            return ListArr([0] * k, dt)
    if dt == np.dtype('uint8') and interp.call_stack and interp.call_stack[-1].endswith("fromfile"):
        return ByteBuf(n).view()
    return AbsArr(n, dt, ("zeros",))


def m_empty(interp, shape, dtype=float):
    from .absarr import Empty
    if shape == (0,) or shape == 0:
        M.trusted("numpy: np.empty((0,), dtype=d) is an empty 1-d array of dtype d")
        return Empty(dtype)
    raise Unsupported("np.empty%r" % (shape,))


class AbsArr(object):
    """Array known by length, dtype and an abstract tag; slice stores are logged in `writes`
    as (lo, hi, source, field)."""

    def __init__(self, length, dtype, tag):
        self.length = length
        self.dtype_ = np.dtype(dtype) if dtype is not None else None
        self.tag = tag
        self.writes = []

    def sym_len(self):
        return self.length

    @property
    def dtype(self):
        return self.dtype_

    def view(self, dt):
        dt = np.dtype(dt)
        if self.dtype_ == np.dtype('uint8'):
            b = AbsArr(_exact_div(self.length, dt.itemsize), dt, self.tag)
            b.writes = self.writes
            return b
        raise Unsupported("view of abstract array")


class NdArr(object):
    """a 1-d numpy array handed to the writer: dtype (real numpy dtype), length (symbolic or concrete),
    either opaque contents (payload token) or a concrete list of symbolic items"""

    def __init__(self, dtype, length, payload=None, items=None, ndim=1):
        self.dtype_ = np.dtype(dtype)
        self.length = length if items is None else len(items)
        self.payload = payload
        self.items = items
        self.ndim = ndim

    @property
    def dtype(self):
        return self.dtype_

    def sym_len(self):
        return self.length

    def __iter__(self):
        if self.items is None:
            raise Unsupported("iterating an opaque array")
        return iter(self.items)

    def nbytes_part(self):
        M.trusted("ndarray.tofile / tobytes write exactly len(a) * a.dtype.itemsize bytes: the elements in order")
        return M.WBytes([('opaque', 'array-data', self.length * self.dtype_.itemsize, self)])

    def tofile(self, file):
        file.write(self.nbytes_part())

    def tobytes(self):
        return self.nbytes_part()


def _ndarr_getitem(interp, a, k):
    from .interp import ProgExc
    if a.items is not None:
        try:
            return a.items[k]
        except IndexError:
            raise ProgExc(IndexError, "index")
    if isinstance(k, int):
        if interp.truth(a.length > k if k >= 0 else a.length >= -k):
            return ("element", a, k)
        raise ProgExc(IndexError, "index")
    raise Unsupported("array index")


class ElemArr(object):
    """array defined elementwise: element i is fn(i) for 0 <= i < length (numeric, over the reals)"""

    def __init__(self, length, fn, dtype=None):
        self.length = length
        self.fn = fn
        self.dtype_ = dtype

    def sym_len(self):
        return self.length

    def _map(self, g):
        f = self.fn
        return ElemArr(self.length, lambda i: g(f(i)), self.dtype_)

    def __mul__(self, o):
        return self._map(lambda x: x * o)

    __rmul__ = __mul__

    def __add__(self, o):
        return self._map(lambda x: x + o)

    def __radd__(self, o):
        return self._map(lambda x: o + x)

    def astype(self, dt):
        M.trusted("ndarray.astype('timedelta64[u]') of floats truncates each element toward zero")
        if isinstance(dt, str) and dt.startswith("timedelta64["):
            from .timemodel import TD64
            u = dt[len("timedelta64["):-1]
            return self._map(lambda x: TD64(M.m_int(None, x) if is_sym(x) else int(x), u))
        raise Unsupported("astype %r" % (dt,))


def m_polyval(interp, x, coeffs, *a, **k):
    """numpy.polynomial.polynomial.polyval: sum(c[i] * x**i) (coefficients ascending), by Horner over the reals"""
    M.trusted("numpy.polynomial.polynomial.polyval(x, c) = sum c[i] x^i (ascending coefficients), elementwise")
    cs = list(interp.iterate(coeffs))
    if isinstance(x, ListArr):
        return ListArr([m_polyval(interp, e, cs) for e in x.items], "float64")
    if not is_sym(x) and not any(is_sym(c) for c in cs):
        return np.polynomial.polynomial.polyval(x, cs)
    from .sym import SymReal, z3real
    if not cs:
        return 0.0
    acc = SymReal(z3real(cs[-1])) if not isinstance(cs[-1], SymReal) else cs[-1]
    xr = x if isinstance(x, SymReal) else SymReal(z3real(x))
    for c in reversed(cs[:-1]):
        acc = acc * xr + c
    return acc


NAN = object()


def m_piecewise(interp, x, condlist, funclist):
    """numpy.piecewise, elementwise on one real: funclist[i](x) where condlist[i] holds (later entries
    override earlier ones); the optional extra entry is the default where no condition holds"""
    M.trusted("numpy.piecewise(x, conds, funcs): elementwise selection, later conditions override, optional "
              "default as the extra last entry")
    from .sym import SymReal, z3real, SymBool, z3bool
    conds = list(interp.iterate(condlist))
    funcs = list(interp.iterate(funclist))
    if isinstance(x, ListArr):
        M.trusted("numpy.piecewise on an array: element k of the result is funcs[i] applied to element k where "
                  "condition i selects it (the functions passed are evaluated per element)")
        out = []
        for k, xk in enumerate(x.items):
            ck = [(c.items[k] if isinstance(c, ListArr) else c) for c in conds]
            out.append(m_piecewise(interp, xk, ck, funcs))
        return ListArr(out, "float64")
    st = sym.get_state()
    default = None
    if len(funcs) == len(conds) + 1:
        default = funcs[-1]
        funcs = funcs[:-1]
    elif len(funcs) != len(conds):
        from .interp import ProgExc
        raise ProgExc(ValueError, "piecewise arity")
    covered = sym_or(*conds) if conds else False
    if default is not None and isinstance(default, float) and default != default:
        # NaN default: record whether it can be selected (totality obligation is stated by the contract)
        st.ghost.setdefault("piecewise_nan_possible", []).append(sym_not(covered))
        res = SymReal(z3.Real(sym.fresh_name("nan")))
    elif default is None:
        res = 0.0
    else:
        res = default if not callable(default) else interp.call_value(default, [x], {})
    for c, f in zip(conds, funcs):
        val = interp.call_value(f, [x], {}) if callable(f) or hasattr(f, "func") else f
        if isinstance(c, bool):
            if c:
                res = val
            continue
        res = SymReal(z3.If(c.e, z3real(val), z3real(res)))
    return res


def m_linspace(interp, start, stop, num=50):
    M.trusted("numpy.linspace(a, b, n): n points a + i*(b-a)/(n-1) (n >= 2), [a] for n == 1, empty for n == 0 "
              "(over the reals)")
    from .sym import SymReal
    if not (is_sym(start) or is_sym(stop) or is_sym(num)):
        return np.linspace(start, stop, num)
    st = sym.get_state()
    if interp.truth(num < 0):
        from .interp import ProgExc
        raise ProgExc(ValueError, "negative number of samples")

    def fn(i):
        if interp.truth(num == 1):
            return start
        # num >= 2 on this path (element access requires 0 <= i < num)
        d = stop - start
        return start + (i * d) / SymReal(z3.ToReal(_z(num - 1)))
    return ElemArr(num, fn, np.dtype("float64"))


class FieldView(object):
    """arr['field'] of a structured abstract array"""

    def __init__(self, arr, field):
        self.arr = arr
        self.field = field

    def sym_len(self):
        return self.arr.sym_len()


class TsArr(object):
    """TimestampArray over an array of 16-byte (seconds, second_fractions) records"""

    def __init__(self, arr, names):
        self.arr = arr
        self.names = names

    def sym_len(self):
        return self.arr.sym_len()

    def as_datetime64(self, resolution="us"):
        return Converted(self, resolution)


class Converted(object):
    """TimestampArray.as_datetime64(resolution) of a timestamp array (elementwise conversion, C12)"""

    def __init__(self, src, resolution):
        self.src = src
        self.resolution = resolution

    def sym_len(self):
        return self.src.sym_len()


def _tsarr_getitem(interp, t, k):
    if isinstance(k, str):
        if k not in t.names:
            from .interp import ProgExc
            raise ProgExc(ValueError, "no field")
        return FieldView(t, k)
    raise Unsupported("timestamp array index %r" % (k,))


def _store_slice(interp, target, k, src, field=None):
    from .interp import ProgExc, SymSlice
    arr = target
    if not isinstance(k, (slice, SymSlice)) or k.step not in (None, 1):
        raise Unsupported("array store at %r" % (k,))
    n = arr.sym_len()
    lo, hi = _norm_slice(interp, k.start, k.stop, n)
    ln = interp.models[len](interp, src) if not isinstance(src, (int, float)) else None
    M.trusted("numpy: a[lo:hi] = b copies b elementwise into positions lo..hi-1 (clamped to len(a)) and raises "
              "ValueError unless len(b) == hi-lo (or b broadcasts)")
    if ln is not None and not interp.truth(ln == hi - lo):
        raise ProgExc(ValueError, "could not broadcast")
    base = arr.arr if isinstance(arr, TsArr) else arr
    base.writes.append((lo, hi, src, field))


def _absarr_setitem(interp, a, k, v):
    _store_slice(interp, a, k, v)


def _fieldview_setitem(interp, fv, k, v):
    _store_slice(interp, fv.arr, k, v, field=fv.field)


def _tsarr_setitem(interp, t, k, v):
    """whole-record store into a structured array: NumPy assigns between structured dtypes field by POSITION
    (not by name) and converts the byte order of each field"""
    if not isinstance(v, TsArr):
        raise Unsupported("store of %s into a timestamp record array" % type(v).__name__)
    M.trusted("numpy: assignment between structured arrays copies fields by position, not by name")
    for dst_name, src_name in zip(t.names, v.names):
        _store_slice(interp, t, k, FieldView(v, src_name), field=dst_name)


def _instantiate_ndarray_subclass(interp, cls, args, kwargs):
    if cls.name == "TimestampArray":
        a = args[0]
        names = a.dtype_.names
        if names not in (("second_fractions", "seconds"), ("seconds", "second_fractions")):
            from .interp import ProgExc
            raise ProgExc(ValueError, "fields")
        return TsArr(a, names)
    raise Unsupported("ndarray subclass %s" % cls.name)


def _bufview_getitem(interp, v, k):
    from .interp import SymSlice
    if isinstance(k, (slice, SymSlice)) and k.step in (None, 1):
        n = v.hi - v.lo
        lo, hi = _norm_slice(interp, k.start, k.stop, n)
        return BufView(v.buf, v.lo + lo, v.lo + hi)
    raise Unsupported("buffer index")


def _unary_real(interp, name, x, real_fn):
    from .sym import SymReal, z3real
    if isinstance(x, ListArr):
        return ListArr([_unary_real(interp, name, e, real_fn) for e in x.items], "float64")
    if not is_sym(x):
        return real_fn(x)
    M.trusted("numpy.%s: a real function (uninterpreted; only congruence and stated lemmas are used)" % name.lower())
    f = z3.Function(name, z3.RealSort(), z3.RealSort())
    return SymReal(f(z3real(x)))


def m_frombuffer(interp, buf, dtype=float, count=-1, offset=0):
    """np.frombuffer on symbolic file bytes of a concrete, small length: element i is the integer the dtype's byte
    order makes of bytes [i*w, (i+1)*w)"""
    if isinstance(buf, (bytes, bytearray, memoryview)):
        return np.frombuffer(buf, dtype=dtype, count=count, offset=offset)
    if not isinstance(buf, M.SBytes) or count != -1 or offset != 0:
        raise Unsupported("np.frombuffer(%s)" % type(buf).__name__)
    dt = np.dtype(dtype)
    if dt.kind not in "iu" or not isinstance(buf.length, int) or buf.length > 256:
        raise Unsupported("np.frombuffer of dtype %s / symbolic length" % dt)
    M.trusted("numpy.frombuffer(b, dtype): consecutive items of the dtype's width, decoded in the dtype's byte order "
              "(native = little-endian on this platform)")
    w = dt.itemsize
    if buf.length % w:
        from .interp import ProgExc
        raise ProgExc(ValueError, "buffer size must be a multiple of element size")
    big = dt.byteorder == ">"
    items = []
    for i in range(buf.length // w):
        f = M.int_at if dt.kind == "i" else M.uint_at
        items.append(sym._lift(f(buf.content, buf.off + i * w, w, big)))
    return ListArr(items, dt)


def install(interp, m):
    table = {
        "frombuffer": lambda *a, **k: m_frombuffer(interp, *a, **k),
        "zeros": lambda *a, **k: m_zeros(interp, *a, **k),
        "empty": lambda *a, **k: m_empty(interp, *a, **k),
        "cumsum": lambda *a, **k: m_cumsum(interp, *a, **k),
        "linspace": lambda *a, **k: m_linspace(interp, *a, **k),
        "piecewise": lambda *a, **k: m_piecewise(interp, *a, **k),
        "exp": lambda x: _unary_real(interp, "EXP", x, np.exp),
        "log": lambda x: _unary_real(interp, "LN", x, np.log),
        "square": lambda x: x * x,
        "reciprocal": lambda *a, **k: m_reciprocal(interp, *a, **k),
        "bitwise_and": lambda *a, **k: m_bitwise_and(interp, *a, **k),
        "right_shift": lambda *a, **k: m_right_shift(interp, *a, **k),
        "sqrt": lambda *a, **k: m_sqrt(interp, *a, **k),
        "all": lambda x: m_np_all(interp, x),
        "any": lambda x: m_np_any(interp, x),
        "logical_not": lambda x: m_logical_not(interp, x),
        "where": lambda x: m_where(interp, x),
        "diff": lambda x: m_diff(interp, x),
        "flip": lambda x: m_flip(interp, x),
        "array": lambda *a, **k: m_np_array(interp, *a, **k),
        "interp": lambda *a, **k: m_interp(interp, *a, **k),
    }
    from . import timemodel
    timemodel.install(interp, table)
    interp.external["numpy"] = M.NpProxy(np, table)
    m[np.polynomial.polynomial.polyval] = m_polyval
    m[("getitem", FileArr)] = _filearr_getitem
    m[("getitem", ListArr)] = _listarr_getitem
    m[("getitem", TsArr)] = _tsarr_getitem
    m[("getitem", NdArr)] = _ndarr_getitem
    m[("isinstance", NdArr)] = lambda interp, v, c: c in (np.ndarray, object)
    m[("setitem", AbsArr)] = _absarr_setitem
    m[("setitem", FieldView)] = _fieldview_setitem
    m[("setitem", TsArr)] = _tsarr_setitem
    m[("instantiate", np.ndarray)] = _instantiate_ndarray_subclass
    m[("isinstance_cls", "nptdms.timestamp:TimestampArray")] = lambda interp, v: isinstance(v, TsArr)
    m[("setitem", ListArr)] = _listarr_setitem
    m[("binop", ListArr)] = _listarr_binop
    m[("getitem", BufView)] = _bufview_getitem
    m[("setattr", FileArr, "dtype")] = _filearr_set_dtype
    m[("setattr", BufView, "dtype")] = _bufview_setattr_dtype


def _bufview_setattr_dtype(interp, v, dt):
    """`buffer.dtype = dtype` on the uint8 buffer of fromfile: becomes a typed file array.
    The interpreter rebinds the *variable* because BufView is replaced by a FileArr."""
    v.typed = v.resolve(dt)


def as_filearr(v):
    if isinstance(v, BufView):
        t = getattr(v, "typed", None)
        if t is None:
            return v.resolve(np.dtype('uint8'))
        return t
    return v
