"""Abstract arrays for reasoning about *which values* of a channel an array holds.

Window(lo, hi, tag): the values full[lo:hi] of the sequence `tag` (0 <= lo <= hi).
Prog(first, bound, step, tag): full[first], full[first+step], ... while before `bound` (exclusive).
Empty(dtype): an empty array built with an explicit dtype.
"""
from . import sym
from .sym import Unsupported, is_sym, sym_and, sym_or, sym_not, sym_ite


class Window(object):
    def __init__(self, lo, hi, tag="values", dtype=None):
        self.lo = lo
        self.hi = hi
        self.tag = tag
        self.dtype = dtype

    def sym_len(self):
        return self.hi - self.lo

    def __repr__(self):
        return "Window(%s,%s,%s)" % (self.lo, self.hi, self.tag)


class Prog(object):
    def __init__(self, first, bound, step, tag="values", dtype=None):
        self.first = first
        self.bound = bound
        self.step = step
        self.tag = tag
        self.dtype = dtype

    def __repr__(self):
        return "Prog(%s,%s,%s)" % (self.first, self.bound, self.step)


class Empty(object):
    def __init__(self, dtype=None):
        self.dtype = dtype

    def sym_len(self):
        return 0

    def __repr__(self):
        return "Empty(%r)" % (self.dtype,)


class Elem(object):
    """the single value full[i]"""

    def __init__(self, i, tag="values"):
        self.i = i
        self.tag = tag

    def __repr__(self):
        return "Elem(%s)" % (self.i,)


def window_getitem(interp, w, k):
    from .interp import SymSlice, ProgExc
    from .npmodel import _norm_slice
    if isinstance(k, (slice, SymSlice)):
        st = k.step
        if st is None or (isinstance(st, int) and st == 1):
            n = w.hi - w.lo
            lo, hi = _norm_slice(interp, k.start, k.stop, n)
            return Window(w.lo + lo, w.lo + hi, w.tag, w.dtype)
        if k.start is None and k.stop is None:
            if interp.truth(st == 0):
                raise ProgExc(ValueError, "slice step cannot be zero")
            if interp.truth(st > 0):
                return Prog(w.lo, w.hi, st, w.tag, w.dtype)
            return Prog(w.hi - 1, w.lo - 1, st, w.tag, w.dtype)
        raise Unsupported("general strided slice of a window")
    if isinstance(k, (int, sym.SymInt)):
        n = w.hi - w.lo
        i = k
        if interp.truth(i < 0):
            i = i + n
        if interp.truth(sym_or(i < 0, i >= n)):
            raise ProgExc(IndexError, "index out of bounds")
        return Elem(w.lo + i, w.tag)
    raise Unsupported("window index %r" % (k,))


def install(interp):
    interp.models[("getitem", Window)] = window_getitem
