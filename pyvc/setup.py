"""MANIFEST.setup_cmd: byte-compile the engine, check the solvers are callable. Nothing is fetched."""
import compileall
import os
import shutil
import subprocess
import sys

HERE = os.path.dirname(os.path.dirname(os.path.abspath(__file__)))


def main():
    ok = compileall.compile_dir(os.path.join(HERE, "pyvc"), quiet=1)
    import z3
    print("z3", z3.get_version_string())
    for tool in ("/usr/bin/cvc5",):
        if not os.path.exists(tool):
            print("warning: %s missing (portfolio falls back to z3 only)" % tool)
    p = subprocess.run(["/venv/bin/python", "-c", "import numpy; print('rt numpy', numpy.__version__)"],
                       capture_output=True, text=True)
    print(p.stdout.strip() or p.stderr.strip())
    for d in ("evidence", "replays"):
        os.makedirs(os.path.join(HERE, d), exist_ok=True)
    return 0 if ok else 1


if __name__ == "__main__":
    sys.exit(main())
