"""Obligation discharge: z3 (default, then qfnia tactic) and cvc5 (CLI) portfolio."""
import os
import subprocess
import tempfile
import time
import z3

from . import sym


def _smt2(pc, goal, logic=None):
    s = z3.Solver()
    for e in pc:
        s.add(e)
    s.add(z3.Not(goal))
    txt = s.to_smt2()
    return txt


def run_cvc5(smt2, timeout_s, extra=()):
    with tempfile.NamedTemporaryFile("w", suffix=".smt2", delete=False) as f:
        # cvc5 needs a logic; ALL is safest
        f.write("(set-logic ALL)\n" + smt2)
        path = f.name
    try:
        cmd = ["/usr/bin/cvc5", "--tlimit=%d" % int(timeout_s * 1000), "--nl-ext-tplanes"] + list(extra) + [path]
        p = subprocess.run(cmd, capture_output=True, text=True, timeout=timeout_s + 5)
        out = p.stdout.strip().splitlines()
        return out[0] if out else "unknown"
    except subprocess.TimeoutExpired:
        return "unknown"
    finally:
        os.unlink(path)


def solve(pc, goal, timeout_ms=10000, use_cvc5=True, hints=()):
    """returns (status, backend, seconds, model_or_None) ; status in proved/refuted/unknown"""
    t0 = time.time()
    g = z3.simplify(goal)
    if z3.is_true(g):
        return "proved", "simplify", 0.0, None
    s = z3.Solver()
    s.set("timeout", int(timeout_ms))
    for e in pc:
        s.add(e)
    for h in hints:
        s.add(h)
    s.add(z3.Not(goal))
    r = s.check()
    if r == z3.unsat:
        return "proved", "z3", time.time() - t0, None
    if r == z3.sat:
        return "refuted", "z3", time.time() - t0, s.model()
    # second back end: qfnia tactic (no quantifiers in our VCs)
    try:
        t = z3.TryFor(z3.Then("simplify", "solve-eqs", "qfnia"), int(timeout_ms))
        gl = z3.Goal()
        for e in pc:
            gl.add(e)
        for h in hints:
            gl.add(h)
        gl.add(z3.Not(goal))
        s2 = t.solver()
        s2.add(gl)
        r2 = s2.check()
        if r2 == z3.unsat:
            return "proved", "z3-qfnia", time.time() - t0, None
        if r2 == z3.sat:
            return "refuted", "z3-qfnia", time.time() - t0, s2.model()
    except z3.Z3Exception:
        pass
    if use_cvc5:
        try:
            txt = _smt2(list(pc) + list(hints), goal)
            r3 = run_cvc5(txt, timeout_ms / 1000.0)
            if r3 == "unsat":
                return "proved", "cvc5", time.time() - t0, None
            if r3 == "sat":
                return "refuted", "cvc5", time.time() - t0, None
        except Exception:
            pass
    return "unknown", "portfolio", time.time() - t0, None


def minimise(pc, goal, leaves, bounds=(4, 64, 4096, 1 << 20), timeout_ms=10000):
    """look for a small counter-model: bound |leaf| progressively"""
    for b in bounds:
        s = z3.Solver()
        s.set("timeout", timeout_ms)
        for e in pc:
            s.add(e)
        s.add(z3.Not(goal))
        for lf in leaves:
            if z3.is_int(lf):
                s.add(lf >= -b, lf <= b)
        if s.check() == z3.sat:
            return s.model()
    return None


def model_to_dict(model, syms):
    out = {}
    if model is None:
        return out
    for name, v in syms.items():
        try:
            val = model.eval(v.e, model_completion=True)
            if z3.is_int_value(val):
                out[name] = val.as_long()
            elif z3.is_true(val):
                out[name] = True
            elif z3.is_false(val):
                out[name] = False
            elif z3.is_rational_value(val):
                out[name] = [val.numerator_as_long(), val.denominator_as_long()]
            else:
                out[name] = str(val)
        except z3.Z3Exception:
            pass
    return out


def eval_array(model, arr, lo, n):
    out = []
    for i in range(n):
        v = model.eval(z3.Select(arr, z3.IntVal(lo + i)), model_completion=True)
        out.append(v.as_long() % 256 if z3.is_int_value(v) else 0)
    return bytes(out)
