"""Harness registry and runner.

A *harness* verifies one function of the repository against its sidecar contract:
it builds symbolic inputs that satisfy `requires`, executes the real AST, and states
`ensures` / `raises` as obligations.  `variants` enumerate *shapes* (which optional
arguments are None, how many objects a list holds); values are always symbolic.
A harness whose variants enumerate a bounded family of shapes is `shape-bounded`
(reported as bounded, never as proof); a harness without shape enumeration, or whose
loops are cut by invariants, is `proof`.
"""
import json
import os
import subprocess
import sys
import time
import traceback
import z3

from . import sym, vc as VCM
from .interp import (Interp, explore, ProgExc, PathEnd, Drift, Obj, State, LoopSpec, SymSeq)
from .sym import Unsupported, SymInt, SymBool, is_sym

HARNESSES = {}
KNOWN_IDS = set()     # ids listed under "findings" in /verif/known_findings.json (set by propcheck)


class Harness(object):
    def __init__(self, name, funcs, props, body, variants=None, level="proof", bound="", replay=None,
                 note="", setup=None, split_variants=False, weight=1, timeout_ms=None, thorough_variants=None,
                 thorough_bound=""):
        self.thorough_variants = thorough_variants      # extra (deeper) variants explored only in the thorough tier
        self.thorough_bound = thorough_bound
        self.split_variants = split_variants
        self.weight = weight
        self.timeout_ms = timeout_ms
        self.name = name
        self.funcs = funcs if isinstance(funcs, (list, tuple)) else [funcs]
        self.props = props
        self.body = body
        self.variants = variants or [("", None)]
        self.level = level          # 'proof' | 'shape-bounded'
        self.bound = bound
        self.replay = replay
        self.note = note
        self.setup = setup

    def variants_for(self, tier):
        if tier == "thorough" and self.thorough_variants:
            return list(self.variants) + list(self.thorough_variants)
        return self.variants


def harness(name, funcs, props, variants=None, level="proof", bound="", replay=None, note="", setup=None,
            split_variants=False, weight=1, timeout_ms=None, thorough_variants=None, thorough_bound=""):
    def deco(body):
        HARNESSES[name] = Harness(name, funcs, props, body, variants, level, bound, replay, note, setup,
                                  split_variants, weight, timeout_ms, thorough_variants, thorough_bound)
        return body
    return deco


class Outcome(object):
    """result of executing the function under verification on one path"""

    def __init__(self, kind, value=None, exc=None):
        self.kind = kind      # 'ret' | 'exc'
        self.value = value
        self.exc = exc

    def raised(self, cls):
        return self.kind == "exc" and isinstance(self.exc, type) and issubclass(self.exc, cls)


class VC(object):
    def __init__(self, interp, st, hname, variant):
        self.interp = interp
        self.st = st
        self.hname = hname
        self.variant = variant

    # symbolic leaves (named => appear in counter-models)
    def int(self, name, lo=None, hi=None):
        v = self.st.named_int(name)
        if lo is not None:
            self.st.assume(v >= lo)
        if hi is not None:
            self.st.assume(v <= hi)
        return v

    def bool(self, name):
        return self.st.named_bool(name)

    def real(self, name):
        return self.st.named_real(name)

    def assume(self, *conds):
        for c in conds:
            self.st.assume(c)

    def ensure(self, name, cond, kind="ensures", known=None):
        self.st.check("%s/%s" % (self.hname, name), cond, kind=kind, known=known)

    def observe(self, name, v):
        self.st.observe(name, v)

    def unreachable(self, name):
        self.st.check("%s/%s" % (self.hname, name), False, kind="unreachable")

    def new(self, dotted_cls, **fields):
        cls = self.interp.get(dotted_cls)
        o = Obj(cls)
        o._f.update(fields)
        object.__setattr__(o, "_partial", True)     # fields not given are "not modelled", not "absent"
        self.st.notes.append(o)
        return o

    def call(self, target, *args, **kwargs):
        """execute the real function; returns Outcome"""
        f = self.interp.get(target) if isinstance(target, str) else target
        try:
            v = self.interp.call_value(f, list(args), kwargs)
            return Outcome("ret", value=v)
        except ProgExc as e:
            return Outcome("exc", exc=e.cls)

    def call_method(self, obj, name, *args, **kwargs):
        try:
            v = self.interp.call_method(obj, name, list(args), kwargs)
            return Outcome("ret", value=v)
        except ProgExc as e:
            return Outcome("exc", exc=e.cls)

    def cover(self, name, cond=True):
        self.st.cover("%s/cover/%s" % (self.hname, name), cond)

    def drain(self, gen):
        """run a generator to exhaustion; returns Outcome with list of yielded values"""
        out = []
        try:
            for x in self.interp.iterate(gen):
                out.append(x)
            return Outcome("ret", value=out)
        except ProgExc as e:
            o = Outcome("exc", exc=e.cls)
            o.value = out
            return o

    def frame_begin(self):
        self.st.frame_on = True
        self.st.allocated = set()
        self.st.writes = []

    def frame_writes(self):
        return list(self.st.writes)


_interp_cache = {}


def get_interp(repo):
    it = _interp_cache.get(repo)
    if it is None:
        it = Interp(repo)
        _interp_cache[repo] = it
    from . import interp as I
    I._current_interp[0] = it
    return it


_PENDING = []


def _discharge_one(i):
    """runs in a forked worker: solve obligation i of _PENDING, build the replay for a refutation"""
    (ob, st, vname, vparam, h, timeout_ms) = _PENDING[i]
    status, backend, secs, model = VCM.solve(ob.pc, ob.goal, timeout_ms, hints=st.hints)
    orec = {"name": ob.name, "kind": ob.kind, "status": status, "backend": backend,
            "time": round(secs, 4), "variant": vname}
    if ob.kind == "cover":
        # vacuity guard: the goal Not(cond) must be refuted (a model of pc and cond exists); 'proved' means the
        # preconditions are contradictory, which leaves the harness undecided, never a verdict on the code
        orec["status"] = {"refuted": "proved", "proved": "unknown"}.get(status, "unknown")
        orec["backend"] = "%s (cover: %s)" % (backend, "witness found" if status == "refuted" else
                                              "NO witness: preconditions unsatisfiable or solver gave up")
        return orec
    if status == "refuted" and ob.known:
        active = [(kid, c) for (kid, c) in ob.known if kid in KNOWN_IDS]
        if active:
            extra_pc = [z3.Not(c) for (_, c) in active]
            s2, b2, t2, m2 = VCM.solve(list(ob.pc) + extra_pc, ob.goal, timeout_ms, hints=st.hints)
            orec["time"] = round(secs + t2, 4)
            if s2 == "proved":
                orec["status"] = "known"
                orec["backend"] = b2
                orec["known_ids"] = [kid for kid, _ in active]
                return orec
            elif s2 == "refuted":
                model = m2
                ob.pc = list(ob.pc) + extra_pc
            else:
                orec["status"] = "unknown"
                return orec
    if orec["status"] == "refuted":
        leaves = [s.e for s in st.syms.values()]
        small = VCM.minimise(ob.pc, ob.goal, leaves)
        if small is not None:
            model = small
        md = VCM.model_to_dict(model, st.syms) if model is not None else {}
        if model is not None:
            for on, oe in ob.observe.items():
                try:
                    ov = model.eval(oe, model_completion=True)
                    md["obs:" + on] = ov.as_long() if z3.is_int_value(ov) else str(ov)
                except z3.Z3Exception:
                    pass
        orec["model"] = md
        orec["smt2"] = VCM._smt2(ob.pc, ob.goal)[:6000]
        extra = None
        if h.replay is not None and model is not None:
            try:
                extra = h.replay(md, vparam, model, st)
            except Exception as e:      # replay construction failed: keep the refutation
                extra = {"error": "replay construction failed: %r" % (e,)}
        orec["replay"] = extra
    elif orec["status"] == "proved" and backend != "simplify" and i % 97 == 0:
        orec["sample_smt2"] = VCM._smt2(ob.pc, ob.goal)[:3000]
    return orec


def run_harness(name, repo, tier="quick", seed=0, jobs=None, variant_index=None):
    """Runs every variant of the harness; returns a JSON-able record."""
    import multiprocessing as mp
    h = HARNESSES[name]
    t0 = time.time()
    rec = {"harness": name, "functions": [], "props": h.props, "level": h.level,
           "bound": (h.bound + (" | thorough tier: " + h.thorough_bound if tier == "thorough" and h.thorough_variants
                                else "")),
           "variants": [], "obligations": [], "undecided": [], "refuted": [], "known": [], "paths": 0,
           "note": h.note, "duplicates_merged": 0}
    timeout_ms = 10000 if tier == "quick" else 120000
    if h.timeout_ms is not None:
        timeout_ms = max(timeout_ms, h.timeout_ms)
    jobs = jobs or int(os.environ.get("VERIF_INNER_JOBS", "8"))
    try:
        interp = get_interp(repo)
        for fn in h.funcs:
            try:
                rec["functions"].append({"name": fn, "fingerprint": interp.fingerprint(fn)})
            except Drift as e:
                rec["undecided"].append({"reason": "drift", "detail": str(e)})
        if rec["undecided"]:
            rec["wall_s"] = time.time() - t0
            return rec
        # contracts used at call sites / loop specs are installed per harness
        interp.contracts_at_calls = {}
        interp.loop_specs = {}
        interp.yield_hook = None
        if h.setup is not None:
            h.setup(interp)
        del _PENDING[:]
        seen = set()
        allv = h.variants_for(tier)
        variants = allv if variant_index is None else [allv[variant_index]]
        for (vname, vparam) in variants:
            def run(st, vparam=vparam, vname=vname):
                v = VC(interp, st, name + ("[%s]" % vname if vname else ""), vparam)
                h.body(v)
            results = explore(run)
            rec["variants"].append(vname)
            rec["paths"] += len(results)
            for pr in results:
                if pr.outcome == "unsupported":
                    rec["undecided"].append({"reason": "unsupported", "detail": pr.detail, "variant": vname})
                elif pr.outcome == "drift":
                    rec["undecided"].append({"reason": "drift", "detail": pr.detail, "variant": vname})
                for ob in pr.state.obligations:
                    key = (ob.name, vname, tuple(e.get_id() for e in ob.pc), ob.goal.get_id())
                    if key in seen:
                        rec["duplicates_merged"] += 1
                        continue
                    seen.add(key)
                    _PENDING.append((ob, pr.state, vname, vparam, h, timeout_ms))
        rec["explore_s"] = round(time.time() - t0, 3)
        n = len(_PENDING)
        if n > 24 and jobs > 1:
            ctx = mp.get_context("fork")
            with ctx.Pool(min(jobs, n)) as pool:
                orecs = pool.map(_discharge_one, range(n), chunksize=max(1, n // (jobs * 8)))
        else:
            orecs = [_discharge_one(i) for i in range(n)]
        for orec in orecs:
            if orec["status"] == "refuted":
                rec["refuted"].append(orec)
            elif orec["status"] == "known":
                rec["known"].append(orec)
            elif orec["status"] == "unknown":
                rec["undecided"].append({"reason": "solver-unknown", "detail": orec["name"],
                                         "variant": orec["variant"]})
            if "sample_smt2" in orec:
                sm = orec.pop("sample_smt2")
                rec.setdefault("sample_smt2", sm)
            rec["obligations"].append(orec)
        del _PENDING[:]
    except Exception as e:                              # engine crash: never a violation
        rec["crash"] = traceback.format_exc()
    rec["wall_s"] = round(time.time() - t0, 3)
    return rec
