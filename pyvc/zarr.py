"""1-d integer arrays of symbolic length for loop-invariant proofs (unbounded in the number of elements).

A ZArr is a length `n` (int or SymInt) and a selector `sel(i)` giving the z3 Int term of element i; writes build a
new selector (functional update), slices are views with shifted selectors.  Facts about all elements are stated
with quantifiers over the selector (z3 instantiates them by E-matching / MBQI; cvc5 is the second back end).

Assumed contracts of NumPy used here (listed in trusted_base at use): np.zeros(n, int64) is n zeros; basic slicing
a[lo:hi] is the elements lo..hi-1 after Python's clamping; np.cumsum(a)[j] = a[0] + ... + a[j]; (a == b).all() for
equally long 1-d arrays is 'equal at every index'.  A-INT: int64 overflow of the sums is not modelled."""
import numpy as np
import z3

from . import sym
from . import models as M
from .sym import SymInt, SymBool, Unsupported, _lift, is_sym



def _fresh(prefix):
    return sym.fresh_name(prefix)          # reset per path execution: names are the same when a path is re-run


def zi(v):
    return sym.z3int(v)


class ZArr(object):
    _absent = ()

    def __init__(self, sel, n, dtype="int64", name="arr"):
        self.sel = sel
        self.n = n
        self.dtype_ = np.dtype(dtype)
        self.name = name

    @staticmethod
    def fresh(n, dtype="int64", name="arr"):
        f = z3.Function(_fresh(name), z3.IntSort(), z3.IntSort())
        return ZArr(lambda i: f(zi(i)), n, dtype, name)

    @staticmethod
    def zeros(n, dtype="int64"):
        return ZArr(lambda i: z3.IntVal(0), n, dtype, "zeros")

    def sym_len(self):
        return self.n

    def __len__(self):
        if is_sym(self.n):
            raise Unsupported("len() of symbolic-length array outside the interpreter")
        return self.n

    @property
    def dtype(self):
        return self.dtype_

    @property
    def shape(self):
        return (self.n,)

    def at(self, i):
        return _lift(self.sel(i))

    def forall(self, lo, hi, body, tag="j"):
        """ForAll j. lo <= j < hi -> body(j, self[j])   (body gets z3 terms, returns a z3 Bool)"""
        j = z3.Int(_fresh(tag))
        return z3.ForAll([j], z3.Implies(z3.And(zi(lo) <= j, j < zi(hi)), body(j, self.sel(j))))

    def __eq__(self, o):
        if isinstance(o, ZArr):
            return ZEq(self, o)
        return NotImplemented

    def __hash__(self):
        return id(self)


class ZEq(object):
    """elementwise a == b of two equally long arrays (only .all() is supported)"""

    def __init__(self, a, b):
        self.a, self.b = a, b

    def all(self):
        st = sym.get_state()
        a, b = self.a, self.b
        same = (a.n == b.n)
        if isinstance(same, SymBool):
            if st.solver.check(z3.Not(same.e)) != z3.unsat:
                raise Unsupported("elementwise == of arrays whose lengths are not provably equal")
        elif not same:
            raise Unsupported("elementwise == of arrays of different length")
        M.trusted("numpy: (a == b).all() for equally long 1-d arrays is equality at every index")
        t = z3.Bool(_fresh("alleq"))
        j = z3.Int(_fresh("j"))
        n = zi(a.n)
        st.add_fact(t == z3.ForAll([j], z3.Implies(z3.And(0 <= j, j < n), a.sel(j) == b.sel(j))))
        return SymBool(t)


def _norm_slice(interp, k, n):
    """Python's slice.indices for step 1 on length n (symbolic): returns (lo, count)"""
    from spec.base import Min, Max, Ite
    if k.step not in (None, 1):
        raise Unsupported("array slice with a step")
    def clampidx(v, default):
        if v is None:
            return default
        v = Ite(v < 0, v + n, v)
        return Min(Max(v, 0), n)
    lo = clampidx(k.start, 0)
    hi = clampidx(k.stop, n)
    cnt = Max(hi - lo, 0)
    return lo, cnt


def _getitem(interp, arr, k):
    from .interp import SymSlice, ProgExc
    st = sym.get_state()
    if isinstance(k, (slice, SymSlice)):
        M.trusted("numpy: basic slicing a[lo:hi] of a 1-d array is a view of elements lo..hi-1 after Python's clamping")
        lo, cnt = _norm_slice(interp, k, arr.n)
        base = arr.sel
        return ZArr(lambda i, base=base, lo=lo: base(zi(lo) + zi(i)), cnt, arr.dtype_, arr.name + "[:]")
    if isinstance(k, (int, SymInt)) and not isinstance(k, bool):
        n = arr.n
        inr = sym.sym_and(k >= -n, k < n) if is_sym(k) or is_sym(n) else (-n <= k < n)
        if not interp.truth(inr):
            raise ProgExc(IndexError, "index out of bounds")
        from spec.base import Ite
        kk = Ite(k < 0, k + n, k)
        return arr.at(kk)
    raise Unsupported("array index %r" % type(k).__name__)


def _setitem(interp, arr, k, v):
    from .interp import ProgExc
    if not isinstance(k, (int, SymInt)) or isinstance(k, bool):
        raise Unsupported("array store at %r" % type(k).__name__)
    if not isinstance(v, (int, SymInt)) or isinstance(v, bool):
        raise Unsupported("array store of %r" % type(v).__name__)
    n = arr.n
    inr = sym.sym_and(k >= -n, k < n) if is_sym(k) or is_sym(n) else (-n <= k < n)
    if not interp.truth(inr):
        raise ProgExc(IndexError, "index out of bounds")
    from spec.base import Ite
    kk = zi(Ite(k < 0, k + n, k))
    old = arr.sel
    vz = zi(v)
    arr.sel = lambda j, old=old, kk=kk, vz=vz: z3.If(zi(j) == kk, vz, old(j))


def m_cumsum(interp, a):
    M.trusted("numpy.cumsum: running sums of the elements in order")
    st = sym.get_state()
    r = ZArr.fresh(a.n, a.dtype_, "cumsum")
    j = z3.Int(_fresh("j"))
    st.add_fact(z3.ForAll([j], z3.Implies(z3.And(0 <= j, j < zi(a.n)),
                                          r.sel(j) == z3.If(j > 0, r.sel(j - 1), 0) + a.sel(j))))
    return r


def install(interp):
    interp.models[("getitem", ZArr)] = _getitem
    interp.models[("setitem", ZArr)] = _setitem
