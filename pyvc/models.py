"""Model library = the trusted base (assumed contracts on dependencies).

Every class/function here states what the engine *assumes* about Python builtins,
struct, the file protocol and the NumPy subset the repository uses.  They are
listed in the evidence under trusted_base.
"""
import ast
import struct as _struct
import z3

from . import sym
from .sym import SymInt, SymBool, SymReal, Unsupported, is_sym, sym_ite, sym_and, sym_or, sym_not

TRUSTED = []       # human-readable list of the assumed contracts (filled by @model)


def trusted(text):
    if text not in TRUSTED:
        TRUSTED.append(text)


# --------------------------------------------------------------------------- bytes / files

BYTE_ARRAYS = {}


def content_array(name):
    a = BYTE_ARRAYS.get(name)
    if a is None:
        a = z3.Array(name, z3.IntSort(), z3.IntSort())
        BYTE_ARRAYS[name] = a
    return a


def _z(v):
    return sym.z3int(v)


def byte_at(content, addr):
    """content[addr] with the background fact 0 <= byte <= 255"""
    st = sym.get_state()
    t = z3.Select(content, _z(addr))
    if st is not None:
        st.add_fact(z3.And(t >= 0, t <= 255))
    return t


def uint_at(content, addr, n, big=False):
    """unsigned integer of n bytes at addr (z3 term)"""
    terms = []
    for i in range(n):
        b = byte_at(content, _z(addr) + i)
        w = (n - 1 - i) if big else i
        terms.append(b * (256 ** w) if w else b)
    return z3.Sum(terms) if len(terms) > 1 else terms[0]


def int_at(content, addr, n, big=False):
    u = uint_at(content, addr, n, big)
    return z3.If(u >= 2 ** (8 * n - 1), u - 2 ** (8 * n), u)


class FloatBits(object):
    """A binary float known only by its bit pattern (bit-exact equality; no arithmetic)."""

    def __init__(self, bits, width):
        self.bits = bits       # SymInt / int, unsigned pattern
        self.width = width

    def __eq__(self, o):
        if isinstance(o, FloatBits) and o.width == self.width:
            return self.bits == o.bits
        return False

    def __ne__(self, o):
        return sym_not(self.__eq__(o))

    def __hash__(self):
        return id(self)

    def __repr__(self):
        return "FloatBits(%s,%d)" % (self.bits, self.width)


class SBytes(object):
    """bytes object viewing content[off : off+length]"""

    def __init__(self, content, off, length):
        self.content = content
        self.off = off
        self.length = length

    def __len__(self):
        if isinstance(self.length, int):
            return self.length
        raise Unsupported("symbolic bytes length as concrete")

    def byte(self, i):
        return sym._lift(byte_at(self.content, _z(self.off) + _z(i)))

    def __repr__(self):
        return "SBytes(off=%s,len=%s)" % (self.off, self.length)

    def eq_concrete(self, b):
        if isinstance(self.length, int):
            if self.length != len(b):
                return False
            r = True
            for i, c in enumerate(b):
                r = sym_and(r, self.byte(i) == c)
            return r
        ln = self.length == len(b)
        r = ln
        for i, c in enumerate(b):
            r = sym_and(r, self.byte(i) == c)
        return r

    def __eq__(self, o):
        if isinstance(o, (bytes, bytearray)):
            return self.eq_concrete(bytes(o))
        if isinstance(o, SBytes):
            if o.content is self.content and sym._lift(_z(o.off) == _z(self.off)) is True \
                    and sym._lift(_z(o.length) == _z(self.length)) is True:
                return True
            raise Unsupported("comparison of two symbolic byte strings")
        return False

    def __ne__(self, o):
        return sym_not(self.__eq__(o))

    def __hash__(self):
        return id(self)

    def decode(self, encoding="utf-8", errors="strict"):
        """bytes.decode: assumed total here (the repository retries with errors='replace') and a function
        of the bytes: the result is an atom identified by (content, offset, length)"""
        trusted("bytes.decode('utf-8'): the text is a function of the byte string (equal bytes <=> equal text "
                "for valid UTF-8); str.encode is its inverse")
        f = z3.Function("strid", z3.IntSort(), z3.IntSort(), z3.IntSort())
        s = SymStr(sym._lift(f(_z(self.off), _z(self.length))), "decoded")
        s.src = self
        return s


def _sbytes_getitem(interp, b, k):
    if isinstance(k, slice):
        if k.step not in (None, 1):
            raise Unsupported("bytes step slice")
        n = b.length
        lo = 0 if k.start is None else k.start
        hi = n if k.stop is None else k.stop
        if (isinstance(lo, int) and lo < 0) or (isinstance(hi, int) and hi < 0):
            raise Unsupported("negative bytes slice")
        # clamp by case split (keeps terms simple)
        if not interp.truth(hi <= n):
            hi = n
        if not interp.truth(lo <= hi):
            lo = hi
        return SBytes(b.content, b.off + lo, hi - lo)
    if isinstance(k, (int, SymInt)):
        if interp.truth(sym_or(k < 0, k >= b.length)):
            from .interp import ProgExc
            raise ProgExc(IndexError, "bytes index")
        return b.byte(k)
    raise Unsupported("bytes index type")


class SFile(object):
    """File protocol model.

    Assumed contract: content is an immutable byte map of `size` bytes; read(n) /
    readinto(buf) transfer min(n, size-pos) bytes (short reads only at EOF) and
    advance pos; seek/tell are exact; close() sets closed.  Ghost: reads (log of
    (pos, n)), owned (opened by the library).
    """

    def __init__(self, name, size=None, pos=0, owned=False):
        st = sym.get_state()
        self.name = name
        self.content = content_array("content_" + name)
        self.size = size if size is not None else st.named_int("size_" + name)
        self.pos = pos
        self.closed = False
        self.owned = owned
        self.reads = []
        self.written = []        # writer side: list of byte chunks (SBytes / bytes / WBytes)
        self.read_hook = None
        self.mode = "rb"

    def _check_open(self):
        if self.closed:
            from .interp import ProgExc
            raise ProgExc(ValueError, "I/O operation on closed file")

    def _avail(self, n):
        if getattr(self, "assume_present", False):
            # precondition "the bytes being parsed are present" (well-formed stream)
            sym.get_state().assume(self.pos + n <= self.size)
            return n
        interp_truth = lambda v: bool(v)
        avail = self.size - self.pos
        if interp_truth(self.pos + n <= self.size):
            return n
        if interp_truth(avail <= 0):
            return 0
        return avail

    def read(self, n=-1):
        self._check_open()
        if isinstance(n, int) and n < 0:
            raise Unsupported("read() of whole file")
        st = sym.get_state()
        k = self._avail(n)
        b = SBytes(self.content, self.pos, k)
        self.reads.append((self.pos, k))
        if self.read_hook is not None:
            self.read_hook(self, self.pos, k)
        self.pos = self.pos + k
        return b

    def readinto(self, view):
        self._check_open()
        n = view.nbytes_value()
        k = self._avail(n)
        view.write_from_file(self.content, self.pos, k)
        self.reads.append((self.pos, k))
        if self.read_hook is not None:
            self.read_hook(self, self.pos, k)
        self.pos = self.pos + k
        return k

    def seek(self, off, whence=0):
        self._check_open()
        if whence == 0:
            self.pos = off
        elif whence == 1:
            self.pos = self.pos + off
        elif whence == 2:
            self.pos = self.size + off
        else:
            raise Unsupported("seek whence")
        return self.pos

    def tell(self):
        self._check_open()
        return self.pos

    def close(self):
        self.closed = True

    def write(self, b):
        self._check_open()
        self.written.append(b)
        return blen(b)

    def __enter__(self):
        return self

    def __exit__(self, *a):
        self.close()
        return False


def blen(b):
    if isinstance(b, (bytes, bytearray)):
        return len(b)
    if isinstance(b, SBytes):
        return b.length
    if isinstance(b, WBytes):
        return b.length
    raise Unsupported("length of %r" % type(b).__name__)


class WBytes(object):
    """Bytes produced by the program (struct.pack / encode / join): a list of typed parts.

    parts: list of ('u', nbytes, value, big) | ('raw', bytes) | ('opaque', tag, length, payload)
    """

    def __init__(self, parts):
        self.parts = parts
        ln = 0
        for p in parts:
            if p[0] == 'u':
                ln = ln + p[1]
            elif p[0] == 'raw':
                ln = ln + len(p[1])
            else:
                ln = ln + p[2]
        self.length = ln

    def __len__(self):
        if isinstance(self.length, int):
            return self.length
        raise Unsupported("symbolic length of produced bytes as concrete")

    def __add__(self, o):
        return WBytes(self.parts + as_wbytes(o).parts)

    def __radd__(self, o):
        return WBytes(as_wbytes(o).parts + self.parts)

    def __repr__(self):
        return "WBytes(%r)" % (self.parts,)

    def __eq__(self, o):
        if isinstance(o, WBytes):
            return wbytes_equal(self, o)
        if isinstance(o, (bytes, bytearray)):
            return wbytes_equal(self, as_wbytes(o))
        return False

    def __ne__(self, o):
        return sym_not(self.__eq__(o))

    def __hash__(self):
        return id(self)


def as_wbytes(b):
    if isinstance(b, WBytes):
        return b
    if isinstance(b, (bytes, bytearray)):
        return WBytes([('raw', bytes(b))] if len(b) else [])
    raise Unsupported("cannot treat %r as produced bytes" % type(b).__name__)


def _norm_parts(parts):
    """flatten to a list of single-byte-ish comparable units where possible"""
    out = []
    for p in parts:
        if p[0] == 'raw':
            for c in p[1]:
                out.append(('u', 1, c, False))
        else:
            out.append(p)
    return out


def wbytes_equal(a, b):
    """structural equality (sound but incomplete: equal structure => equal bytes)"""
    pa, pb = _norm_parts(a.parts), _norm_parts(b.parts)
    # expand multi-byte concrete ints
    def expand(ps):
        out = []
        for p in ps:
            if p[0] == 'u' and isinstance(p[2], int) and p[1] > 1:
                bs = (p[2] % (1 << (8 * p[1]))).to_bytes(p[1], 'big' if p[3] else 'little')
                out.extend(('u', 1, c, False) for c in bs)
            else:
                out.append(p)
        return out
    pa, pb = expand(pa), expand(pb)
    if len(pa) != len(pb):
        raise Unsupported("byte strings of different structure")
    r = True
    for x, y in zip(pa, pb):
        if x[0] != y[0]:
            raise Unsupported("byte strings of different structure")
        if x[0] == 'u':
            if x[1] != y[1] or x[3] != y[3]:
                raise Unsupported("byte strings of different structure")
            m = 1 << (8 * x[1])
            r = sym_and(r, (x[2] % m) == (y[2] % m))
        else:
            if x[1] != y[1]:
                raise Unsupported("opaque parts differ in tag")
            r = sym_and(r, x[2] == y[2], x[3] == y[3] if not (x[3] is y[3]) else True)
    return r


_FMT_SIZES = {'b': 1, 'B': 1, 'h': 2, 'H': 2, 'l': 4, 'L': 4, 'i': 4, 'I': 4, 'q': 8, 'Q': 8, 'f': 4, 'd': 8}
_STRUCT_ERROR = _struct.error


def _parse_fmt(fmt):
    if not isinstance(fmt, str):
        raise Unsupported("symbolic struct format")
    order = '@'
    if fmt and fmt[0] in '<>=!@':
        order, fmt = fmt[0], fmt[1:]
    if order in '@=':
        order = '<'
    if order == '!':
        order = '>'
    fields = []
    for c in fmt:
        if c not in _FMT_SIZES:
            raise Unsupported("struct format char %r" % c)
        fields.append(c)
    return order, fields


def m_unpack(interp, fmt, data):
    """struct.unpack: assumed to decode fixed-width two's-complement integers / IEEE floats
    at consecutive offsets in the given byte order; raises struct.error on a size mismatch."""
    trusted("struct.unpack/pack: fixed-width two's-complement and IEEE-754 codecs, mutually inverse, "
            "byte order as in the format string")
    from .interp import ProgExc
    if isinstance(data, (bytes, bytearray)):
        return _struct.unpack(fmt, data)
    if not isinstance(data, SBytes):
        raise Unsupported("unpack of %r" % type(data).__name__)
    order, fields = _parse_fmt(fmt)
    size = sum(_FMT_SIZES[c] for c in fields)
    if not interp.truth(data.length == size):
        raise ProgExc(_STRUCT_ERROR, "unpack size")
    big = order == '>'
    out = []
    off = data.off
    for c in fields:
        n = _FMT_SIZES[c]
        if c in 'fd':
            out.append(FloatBits(sym._lift(uint_at(data.content, off, n, big)), n))
        elif c.isupper():
            out.append(sym._lift(uint_at(data.content, off, n, big)))
        else:
            out.append(sym._lift(int_at(data.content, off, n, big)))
        off = off + n
    return tuple(out)


def m_pack(interp, fmt, *vals):
    from .interp import ProgExc
    if not any(is_sym(v) or isinstance(v, FloatBits) for v in vals):
        try:
            return _struct.pack(fmt, *vals)
        except _STRUCT_ERROR:
            raise ProgExc(_STRUCT_ERROR, "pack")
        except TypeError:
            raise ProgExc(_STRUCT_ERROR, "pack type")
    order, fields = _parse_fmt(fmt)
    if len(fields) != len(vals):
        raise ProgExc(_STRUCT_ERROR, "pack arity")
    big = order == '>'
    parts = []
    for c, v in zip(fields, vals):
        n = _FMT_SIZES[c]
        if c in 'fd':
            if isinstance(v, FloatBits) and v.width == n:
                parts.append(('u', n, v.bits, big))
            else:
                raise Unsupported("packing symbolic float")
        else:
            if isinstance(v, SymBool):
                v = sym._lift(sym.z3int(v))
            if isinstance(v, FloatBits) or isinstance(v, SymReal):
                raise ProgExc(_STRUCT_ERROR, "pack int from float")
            lo, hi = (0, 1 << (8 * n)) if c.isupper() else (-(1 << (8 * n - 1)), 1 << (8 * n - 1))
            if not interp.truth(sym_and(v >= lo, v < hi)):
                raise ProgExc(_STRUCT_ERROR, "pack range")
            parts.append(('u', n, v, big))
    return WBytes(parts)


def m_str_join(interp, sep, it):
    hook = getattr(interp, "_join_hook", None)
    if hook is not None:
        r = hook(interp, sep, it)
        if r is not None:
            return r
    pieces = []
    first = True
    for x in interp.iterate(it):
        if not first:
            pieces.append(sep)
        pieces.append(x)
        first = False
    if all(isinstance(p, str) for p in pieces):
        return "".join(pieces)
    return CatStr(pieces)


def m_bytes_join(interp, sep, it):
    trusted("bytes.join: concatenation in order; len(b''.join(xs)) = sum(len(x))")
    parts = []
    first = True
    for x in interp.iterate(it):
        if not first and len(sep):
            parts.extend(as_wbytes(sep).parts)
        parts.extend(as_wbytes(x).parts)
        first = False
    return WBytes(parts)


# --------------------------------------------------------------------------- builtins

def m_len(interp, x):
    from .interp import Obj, SymSeq
    if isinstance(x, Obj):
        return interp.call_method(x, "__len__", [], {})
    if isinstance(x, (SBytes, WBytes)):
        return x.length
    if isinstance(x, SymSeq):
        return x.length
    if hasattr(x, "sym_len"):
        return x.sym_len()
    from .interp import ProgExc, _is_model_value
    try:
        return len(x)
    except TypeError:
        if _is_model_value(x):
            raise Unsupported("len() of model %s" % type(x).__name__)
        raise ProgExc(TypeError, "len")


def m_int(interp, x=0, *a):
    if isinstance(x, SymInt):
        return x
    if isinstance(x, SymBool):
        return sym._lift(sym.z3int(x))
    if isinstance(x, SymReal):
        # truncation toward zero
        e = x.e
        fl = z3.ToInt(e)
        return sym._lift(z3.If(e >= 0, fl, -z3.ToInt(-e)))
    if hasattr(x, "sym_int"):
        return x.sym_int()
    return int(x, *a)


def m_bool(interp, x=False):
    if isinstance(x, SymBool):
        return x
    if isinstance(x, SymInt):
        return x != 0
    return interp.truth(x)


def m_isinstance(interp, v, c):
    return interp.isinstance_value(v, c)


def m_hasattr(interp, o, name):
    from .interp import ProgExc
    try:
        interp.getattr_value(o, name)
        return True
    except ProgExc as e:
        if e.cls is AttributeError:
            return False
        raise


def m_getattr(interp, o, name, *default):
    from .interp import ProgExc
    try:
        return interp.getattr_value(o, name)
    except ProgExc as e:
        if e.cls is AttributeError and default:
            return default[0]
        raise


def m_setattr(interp, o, name, v):
    interp.setattr_value(o, name, v)


def m_min(interp, *args, **kw):
    if len(args) == 1:
        args = list(interp.iterate(args[0]))
        if not args:
            from .interp import ProgExc
            raise ProgExc(ValueError, "min of empty")
    if kw:
        raise Unsupported("min with key")
    r = args[0]
    for a in args[1:]:
        if is_sym(a) or is_sym(r):
            r = sym_ite(a < r, a, r)
        else:
            r = a if a < r else r
    return r


def m_max(interp, *args, **kw):
    if len(args) == 1:
        args = list(interp.iterate(args[0]))
        if not args:
            from .interp import ProgExc
            raise ProgExc(ValueError, "max of empty")
    if kw:
        raise Unsupported("max with key")
    r = args[0]
    for a in args[1:]:
        if is_sym(a) or is_sym(r):
            r = sym_ite(a > r, a, r)
        else:
            r = a if a > r else r
    return r


def m_sum(interp, it, start=0):
    r = start
    for x in interp.iterate(it):
        r = r + x
    return r


def m_any(interp, it):
    for x in interp.iterate(it):
        if interp.truth(x):
            return True
    return False


def m_all(interp, it):
    for x in interp.iterate(it):
        if not interp.truth(x):
            return False
    return True


def m_range(interp, *args):
    from .interp import SymSeq
    if not any(is_sym(a) for a in args):
        return range(*args)
    if len(args) == 1:
        lo, hi, stp = 0, args[0], 1
    elif len(args) == 2:
        lo, hi = args
        stp = 1
    else:
        lo, hi, stp = args
    if isinstance(stp, int) and not isinstance(stp, bool) and stp > 1:
        # range(lo, hi, step) with a concrete positive step: ceil((hi - lo) / step) elements lo + k*step
        n = m_max(interp, (hi - lo + (stp - 1)) // stp, 0)
        return SymSeq(n, lambda k: lo + k * stp, "range")
    if stp != 1:
        raise Unsupported("symbolic range with step")
    n = m_max(interp, hi - lo, 0)
    return SymSeq(n, lambda k: lo + k, "range")


def m_enumerate(interp, it, start=0):
    from .interp import SymSeq
    if hasattr(it, "as_symseq"):
        it = it.as_symseq()
    if isinstance(it, SymSeq):
        return SymSeq(it.length, lambda k: (k + start, it.item(k)), "enumerate")
    return enumerate(interp.iterate(it), start)


def m_zip(interp, *its):
    return zip(*[interp.iterate(i) for i in its])


def m_list(interp, it=()):
    from .interp import SymSeq
    if isinstance(it, SymSeq):
        raise Unsupported("list() of symbolic-length sequence")
    l = list(interp.iterate(it))
    interp._note_alloc(l)
    return l


def m_tuple(interp, it=()):
    return tuple(interp.iterate(it))


class DistinctList(object):
    """a set of possibly symbolic values: elements pairwise distinct on the current path (decided by split)"""

    def __init__(self, items):
        self.items = items

    def __len__(self):
        return len(self.items)

    def __iter__(self):
        return iter(self.items)

    def __contains__(self, x):
        return any(bool(x == y) for y in self.items)

    def __sub__(self, o):
        return DistinctList([x for x in self.items if x not in o])

    def __eq__(self, o):
        """set equality: elements are pairwise distinct within each operand, so the sets are equal iff they have
        the same number of elements and every element of one is in the other (membership decided by case split)"""
        if isinstance(o, (set, frozenset)):
            o = DistinctList(list(o))
        if not isinstance(o, DistinctList):
            return False
        if len(self.items) != len(o.items):
            return False
        return all(x in o for x in self.items)

    def __ne__(self, o):
        return not self.__eq__(o)

    def __hash__(self):
        return id(self)

    def hashv(self):
        """order-independent hash of a frozen set of atoms: an uninterpreted commutative fold is not needed by the
        contracts (keys are found by equality); a constant is a valid hash"""
        return 0


class SymSet(DistinctList):
    """mutable set of atoms (membership by decided equality)"""

    def update(self, *others):
        for other in others:
            for x in other:
                if x not in self:
                    self.items.append(x)

    def add(self, x):
        if x not in self:
            self.items.append(x)


def _dl_rsub(self, o):
    return DistinctList([x for x in o if x not in self])


DistinctList.__rsub__ = _dl_rsub


def m_set(interp, it=()):
    xs = list(interp.iterate(it))
    if not any(is_sym(x) or isinstance(x, (SymStr, CatStr)) for x in xs):
        return set(xs)
    out = []
    for x in xs:
        dup = False
        for y in out:
            if interp.truth(x == y):
                dup = True
                break
        if not dup:
            out.append(x)
    return DistinctList(out)


def m_dict(interp, *a, **kw):
    d = {}
    if a:
        src = a[0]
        if isinstance(src, dict):
            d.update(src)
        else:
            for kv in interp.iterate(src):
                k, v = tuple(interp.iterate(kv))
                interp.setitem(d, k, v)          # equal symbolic keys overwrite (decided by case split)
    d.update(kw)
    interp._note_alloc(d)
    return d


def m_sorted(interp, it, key=None, reverse=False):
    xs = list(interp.iterate(it))
    if key is None:
        if xs and all(isinstance(x, SymStr) for x in xs):
            trusted("sorted(xs) is a permutation of xs (the order among symbolic names is left unspecified)")
            return list(xs)
        if any(is_sym(x) for x in xs):
            raise Unsupported("sorting symbolic values")
        return sorted(xs, reverse=reverse)
    ks = [interp.call_value(key, [x], {}) for x in xs]
    if any(is_sym(k) for k in ks):
        raise Unsupported("sorting by symbolic keys")
    order = sorted(range(len(xs)), key=lambda i: ks[i], reverse=reverse)
    return [xs[i] for i in order]


def m_next(interp, it, *default):
    from .interp import ProgExc, Obj, SymSeq
    if isinstance(it, SymSeq):
        k = getattr(it, "_cursor", 0)
        if interp.truth(k < it.length):
            it._cursor = k + 1
            return it.item(k)
        if default:
            return default[0]
        raise ProgExc(StopIteration, "next")
    if isinstance(it, Obj):
        return interp.call_method(it, "__next__", [], {})
    try:
        return next(it)
    except StopIteration:
        if default:
            return default[0]
        raise ProgExc(StopIteration, "next")


def m_iter(interp, it):
    return iter(list(interp.iterate(it))) if not hasattr(it, "__next__") else it


def m_super(interp, *args):
    from .interp import SuperVal
    if len(args) != 2:
        raise Unsupported("super() form")
    return SuperVal(args[0], args[1])


def m_copy(interp, o):
    from .interp import Obj
    if isinstance(o, Obj):
        trusted("copy.copy: shallow field copy of an instance")
        n = Obj(o._cls)
        n._f.update(o._f)
        st = sym.get_state()
        if st is not None:
            st.allocated.add(id(n))
            st.notes.append(n)
        return n
    import copy
    return copy.copy(o)


def m_abs(interp, x):
    return abs(x)


def m_str(interp, *a):
    if a and isinstance(a[0], (SymStr, CatStr)):
        return a[0]
    from .interp import Obj
    if a and isinstance(a[0], Obj):
        return interp.call_method(a[0], "__str__", [], {})
    return str(*a)


def m_type(interp, x):
    from .interp import Obj
    if isinstance(x, Obj):
        return x._cls
    return type(x)


def m_hash(interp, x):
    if isinstance(x, (SymStr, DistinctList)):
        return x.hashv()
    from .interp import Obj
    if isinstance(x, Obj):
        return interp.call_method(x, "__hash__", [], {})
    return hash(x)


# --------------------------------------------------------------------------- strings as atoms

class SymStr(object):
    """A string known only up to equality (an atom): ident is a z3 Int; equal idents <=> equal strings.
    Concrete strings are mapped to idents through State.ghost['str_ids'] (distinct concrete strings get
    distinct negative idents)."""

    def __init__(self, ident, label="s"):
        self.ident = ident
        self.label = label

    def __repr__(self):
        return "SymStr(%s)" % self.ident

    def __hash__(self):
        return id(self)

    def _other(self, o):
        if isinstance(o, SymStr):
            return _z(o.ident)
        if isinstance(o, str):
            return z3.IntVal(concrete_str_id(o))
        return None

    def __eq__(self, o):
        t = self._other(o)
        if t is None:
            return False
        return sym._lift(_z(self.ident) == t)

    def __ne__(self, o):
        return sym_not(self.__eq__(o))

    def hashv(self):
        return sym._lift(z3.Function("strhash", z3.IntSort(), z3.IntSort())(_z(self.ident)))

    def sym_len(self):
        """len(s): the number of code points, a function of the text with charlen <= utf8len <= 4*charlen"""
        trusted("str: len(s) counts code points; 0 <= len(s) <= len(s.encode('utf-8')) <= 4*len(s)")
        x = _z(self.ident)
        cl = z3.Function("charlen", z3.IntSort(), z3.IntSort())(x)
        ul = z3.Function("utf8len", z3.IntSort(), z3.IntSort())(x)
        st = sym.get_state()
        if st is not None:
            st.add_fact(z3.And(cl >= 0, cl <= ul, ul <= 4 * cl))
        return sym._lift(cl)

    def __add__(self, o):
        if isinstance(o, (str, SymStr, CatStr)):
            return CatStr([self, o])
        return NotImplemented

    def __radd__(self, o):
        if isinstance(o, (str, SymStr, CatStr)):
            return CatStr([o, self])
        return NotImplemented

    def replace(self, old, new):
        if old == "'" and new == "''":
            trusted("str.replace(\"'\", \"''\"): quote doubling esc(s), a function of s (characterised "
                    "pointwise in harness path_roundtrip)")
            f = z3.Function("esc", z3.IntSort(), z3.IntSort())
            st = sym.get_state()
            x = _z(self.ident)
            if st is not None:
                seen = st.ghost.setdefault("esc_args", [])
                for y in seen:
                    if not z3.eq(x, y):
                        st.add_fact(z3.Implies(f(x) == f(y), x == y))     # quote doubling is injective
                if not any(z3.eq(x, y) for y in seen):
                    seen.append(x)
            return SymStr(sym._lift(f(x)), "esc")
        raise Unsupported("str.replace%r on a symbolic string" % ((old, new),))

    def encode(self, encoding="utf-8", errors="strict"):
        """str.encode('utf-8'): an opaque byte string determined by the text; its length is utf8len(text)"""
        trusted("str.encode('utf-8'): bytes are a function of the text, length utf8len(text) >= 0; "
                "bytes.decode is its inverse")
        st = sym.get_state()
        ln = sym._lift(z3.Function("utf8len", z3.IntSort(), z3.IntSort())(_z(self.ident)))
        if st is not None:
            st.assume(ln >= 0)
        return WBytes([('opaque', 'utf8', ln, self.ident)])


class CatStr(object):
    """concatenation of concrete strings and atoms (object paths built by the writer):
    pieces = list of str | SymStr.  Equality is piecewise on equal shapes and False on different shapes
    (sound for the path encoder because enc is injective: property C16, harness path_roundtrip)."""

    def __init__(self, pieces):
        out = []
        for p in pieces:
            if isinstance(p, CatStr):
                out.extend(p.pieces)
            elif isinstance(p, str) and out and isinstance(out[-1], str):
                out[-1] = out[-1] + p
            elif isinstance(p, str) and p == "":
                continue
            else:
                out.append(p)
        self.pieces = out

    def __add__(self, o):
        if isinstance(o, (str, SymStr, CatStr)):
            return CatStr(self.pieces + [o])
        return NotImplemented

    def __radd__(self, o):
        if isinstance(o, (str, SymStr, CatStr)):
            return CatStr([o] + self.pieces)
        return NotImplemented

    def __hash__(self):
        return id(self)

    def sym_len(self):
        """len(): code points of the concrete pieces plus charlen of the atoms"""
        total = 0
        for p in self.pieces:
            total = total + (len(p) if isinstance(p, str) else p.sym_len())
        return total

    def shape(self):
        return tuple(p if isinstance(p, str) else None for p in self.pieces)

    def __eq__(self, o):
        if isinstance(o, str):
            o = CatStr([o])
        if not isinstance(o, CatStr):
            return False
        if self.shape() != o.shape():
            return False
        r = True
        for a, b in zip(self.pieces, o.pieces):
            if not isinstance(a, str):
                r = sym_and(r, a == b)
        return r

    def __ne__(self, o):
        return sym_not(self.__eq__(o))

    def encode(self, encoding="utf-8", errors="strict"):
        parts = []
        for p in self.pieces:
            if isinstance(p, str):
                b = p.encode("utf-8")
                if b:
                    parts.append(('raw', b))
            else:
                parts.extend(p.encode("utf-8").parts)
        # one opaque blob (a path is written as one string): keep pieces as payload
        ln = 0
        for q in parts:
            ln = ln + (len(q[1]) if q[0] == 'raw' else q[2])
        return WBytes([('opaque', 'utf8cat', ln, self)])

    def __repr__(self):
        return "CatStr(%r)" % (self.pieces,)

    def __str__(self):
        return self          # str(x) of a str is x (handled by m_str)


def _symstr_add(a, b):
    return CatStr([a, b])


_STR_IDS = {}


def concrete_str_id(s):
    """distinct concrete strings -> distinct negative idents (symbolic idents are assumed >= 0)"""
    if s not in _STR_IDS:
        _STR_IDS[s] = -(len(_STR_IDS) + 1)
    return _STR_IDS[s]


def fresh_str(st, label="s"):
    i = st.fresh_int(label)
    st.assume(i >= 0)
    return SymStr(i, label)


def _dict_contains_symstr(interp, d, k):
    r = False
    for key in list(d.keys()):
        r = sym_or(r, k == key)
    return r


def _dict_get_symstr(interp, d, k):
    from .interp import ProgExc
    for key in list(d.keys()):
        if interp.truth(k == key):
            return d[key]
    raise ProgExc(KeyError, "key")


class SymDict(object):
    """dict keyed by possibly-symbolic strings: association list with equality by case split"""

    def __init__(self, items=None):
        self.items_ = list(items or [])

    def _find(self, interp, k):
        for i, (key, v) in enumerate(self.items_):
            if interp.truth(_key_eq(key, k)):
                return i
        return None

    def get(self, k, default=None):
        i = self._find(_interp(), k)
        return default if i is None else self.items_[i][1]

    def __getitem__(self, k):
        from .interp import ProgExc
        i = self._find(_interp(), k)
        if i is None:
            raise ProgExc(KeyError, "key")
        return self.items_[i][1]

    def __setitem__(self, k, v):
        st = sym.get_state()
        if st is not None and st.frame_on and id(self) not in st.allocated:
            st.writes.append((self, "[]"))
        i = self._find(_interp(), k)
        if i is None:
            self.items_.append((k, v))
        else:
            self.items_[i] = (self.items_[i][0], v)

    def __contains__(self, k):
        return self._find(_interp(), k) is not None

    def __iter__(self):
        return iter([k for k, _ in self.items_])

    def keys(self):
        return [k for k, _ in self.items_]

    def values(self):
        return [v for _, v in self.items_]

    def items(self):
        return list(self.items_)

    def __len__(self):
        return len(self.items_)

    def copy(self):
        return SymDict(self.items_)

    def update(self, other):
        for k, v in (other.items() if hasattr(other, "items") else other):
            self[k] = v


def _key_eq(a, b):
    if isinstance(a, SymStr):
        return a == b
    if isinstance(b, SymStr):
        return b == a
    return a == b


def _interp():
    from . import interp as I
    return I._current_interp[0]


# --------------------------------------------------------------------------- numpy subset

class NpProxy(object):
    """`import numpy as np` inside the repository resolves to this proxy: modelled functions
    where arguments may be symbolic, the real NumPy otherwise (dtype objects are real)."""

    def __init__(self, real, table):
        self._real = real
        self._table = table

    def __getattr__(self, name):
        t = object.__getattribute__(self, "_table")
        if name in t:
            return t[name]
        return getattr(object.__getattribute__(self, "_real"), name)


def install(interp):
    import builtins
    import struct
    import copy
    import numpy as np
    m = interp.models
    m[len] = m_len
    m[int] = m_int
    m[bool] = m_bool
    m[isinstance] = m_isinstance
    m[hasattr] = m_hasattr
    m[getattr] = m_getattr
    m[setattr] = m_setattr
    m[min] = m_min
    m[max] = m_max
    m[sum] = m_sum
    m[any] = m_any
    m[all] = m_all
    m[range] = m_range
    m[enumerate] = m_enumerate
    m[zip] = m_zip
    m[list] = m_list
    m[tuple] = m_tuple
    m[set] = m_set
    m[frozenset] = m_set          # the model's sets are not mutated through a frozenset reference
    m[dict] = m_dict
    m[sorted] = m_sorted
    m[next] = m_next
    m[iter] = m_iter
    m[super] = m_super
    m[copy.copy] = m_copy
    m[abs] = m_abs
    m[str] = m_str
    m[type] = m_type
    m[hash] = m_hash
    m[struct.unpack] = m_unpack
    m[struct.pack] = m_pack
    m[("getitem", SBytes)] = _sbytes_getitem
    m[("dictkey", SymStr)] = _dict_contains_symstr
    m[("dictkey_get", SymStr)] = _dict_get_symstr
    import itertools as _it

    class _Itertools(object):
        def __getattr__(self, name):
            if name == "zip_longest":
                def zl(*a, **k):
                    h = getattr(interp, "_zip_longest_hook", None)
                    if h is not None:
                        r = h(interp, *a)
                        if r is not None:
                            return r
                    return _it.zip_longest(*a, **k)
                return zl
            return getattr(_it, name)
    interp.external["itertools"] = _Itertools()
    from . import npmodel, absarr
    npmodel.install(interp, m)
    absarr.install(interp)
