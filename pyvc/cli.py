"""./check <property-id> [--tier quick|thorough] [--replay file]

Exit codes: 0 property held on everything explored (known findings are printed as
KNOWN-FINDING lines); 1 at least one violation not listed in known_findings.json
(each printed as `VIOLATION property=<id> replay=<path>`).  Undecided obligations
(solver unknown, construct outside the subset, contract drift, engine crash in one
harness) are never violations: they are reported in the evidence, demote the level
to `other`, and the bounded stand-in for the property decides.
"""
import argparse
import importlib
import json
import multiprocessing as mp
import os
import pkgutil
import sys
import time

HERE = os.path.dirname(os.path.dirname(os.path.abspath(__file__)))
sys.path.insert(0, HERE)

from pyvc import harness as H          # noqa: E402


def load_contracts():
    import contracts
    for m in pkgutil.iter_modules(contracts.__path__):
        importlib.import_module("contracts." + m.name)


def _run(args):
    name, repo, tier, seed = args
    from pyvc import sym
    return H.run_harness(name, repo, tier, seed)


def load_known():
    p = os.path.join(HERE, "known_findings.json")
    if os.path.exists(p):
        with open(p) as f:
            return json.load(f)
    return {"findings": [], "fixed": []}


def main(argv=None):
    ap = argparse.ArgumentParser()
    ap.add_argument("prop")
    ap.add_argument("--tier", default=os.environ.get("VERIF_TIER", "quick"))
    ap.add_argument("--replay", default=None)
    ap.add_argument("--only", default=None, help="comma separated harness names (debugging)")
    ap.add_argument("--jobs", type=int, default=int(os.environ.get("VERIF_JOBS", "16")))
    a = ap.parse_args(argv)
    repo = os.environ.get("REPO", "/repo")
    seed = int(os.environ.get("VERIF_SEED", "0"))
    tier = a.tier if a.tier in ("quick", "thorough") else "quick"
    prop = a.prop
    t0 = time.time()
    load_contracts()
    from pyvc import propcheck
    if a.replay:
        return propcheck.replay_file(prop, a.replay, repo)
    return propcheck.run_property(prop, repo, tier, seed, a.jobs, only=a.only, t0=t0)


if __name__ == "__main__":
    sys.exit(main())
