"""Per-property driver: deductive harnesses + bounded stand-in + evidence + verdict."""
import json
import multiprocessing as mp
import os
import re
import subprocess
import sys
import time

from . import harness as H
from . import models
from . import props as P

HERE = os.path.dirname(os.path.dirname(os.path.abspath(__file__)))
PY_RT = os.environ.get("VERIF_RT_PYTHON", "/venv/bin/python")


def _slug(s):
    return re.sub(r"[^A-Za-z0-9_.-]+", "_", s)[:120]


def _run(args):
    name, repo, tier, seed, vi, inner = args
    return H.run_harness(name, repo, tier, seed, jobs=inner, variant_index=vi)


def load_known():
    p = os.path.join(HERE, "known_findings.json")
    if os.path.exists(p):
        with open(p) as f:
            return json.load(f)
    return {"findings": [], "fixed": []}


def run_rt_script(script, repo, timeout=120):
    """run a replay script on the real code; returns (exitcode, output)"""
    env = dict(os.environ)
    env["PYTHONPATH"] = repo + os.pathsep + HERE
    env["PYTHONDONTWRITEBYTECODE"] = "1"
    try:
        p = subprocess.run([PY_RT, "-c", script], capture_output=True, text=True, timeout=timeout, env=env,
                           cwd=HERE)
        return p.returncode, (p.stdout + p.stderr)[-4000:]
    except subprocess.TimeoutExpired:
        return 124, "timeout"


def run_bounded(prop, repo, tier, seed):
    """bounded stand-in: runtime contracts on the real code (module bounded/<prop>.py)"""
    path = os.path.join(HERE, "bounded", "run.py")
    if prop not in BOUNDED_PROPS:
        return None
    env = dict(os.environ)
    env["PYTHONPATH"] = repo + os.pathsep + HERE
    env["PYTHONDONTWRITEBYTECODE"] = "1"
    env["VERIF_TIER"] = tier
    env["VERIF_SEED"] = str(seed)
    t0 = time.time()
    try:
        p = subprocess.run([PY_RT, "-m", "bounded.run", prop], capture_output=True, text=True, env=env, cwd=HERE,
                           timeout=3600 if tier == "thorough" else 900)
    except subprocess.TimeoutExpired:
        return {"error": "bounded stand-in timed out", "wall_s": time.time() - t0}
    out = p.stdout.strip().splitlines()
    try:
        rec = json.loads(out[-1])
    except Exception:
        return {"error": "bounded stand-in crashed", "output": (p.stdout + p.stderr)[-3000:],
                "wall_s": time.time() - t0}
    rec["wall_s"] = round(time.time() - t0, 2)
    return rec


LEAN_LEMMAS = {"C05": [("lean/HistoryIndependence.lean", ["C05.history_independent", "C05.last_result_independent"],
                        "induction over the history: per-operation contracts (Inv preserved, result = fresh-file "
                        "result) imply that every result after any finite history is the fresh-file result")]}


def run_lean_lemmas(prop):
    """lemmas that need induction over an unbounded history are stated and proved in Lean 4 (kernel-checked on every
    run); each theorem counts as one proof-level obligation discharged by the back end 'lean4'"""
    out = []
    for (rel, theorems, note) in LEAN_LEMMAS.get(prop, []):
        t0 = time.time()
        rec = {"harness": "lean:" + os.path.basename(rel), "functions": [], "props": [prop], "level": "proof",
               "bound": "", "variants": [], "obligations": [], "undecided": [], "refuted": [], "known": [], "paths": 0,
               "note": note, "duplicates_merged": 0, "trusted": ["Lean 4 kernel and core library (axiom: propext)"]}
        try:
            p = subprocess.run(["lean", os.path.join(HERE, rel)], capture_output=True, text=True, timeout=600, cwd=HERE)
            text = p.stdout + p.stderr
            ok = p.returncode == 0 and "error" not in text.lower() and "sorry" not in text.lower()
        except Exception as e:
            ok, text = False, repr(e)
        for th in theorems:
            good = ok and ("'%s' depends on axioms" % th in text or "'%s' does not depend on any axioms" % th in text)
            rec["obligations"].append({"name": "lean/" + th, "kind": "lemma", "status": "proved" if good else "unknown",
                                       "backend": "lean4", "time": round(time.time() - t0, 3), "variant": ""})
            if not good:
                rec["undecided"].append({"reason": "lean-check-failed", "detail": text[-400:], "variant": ""})
        rec["wall_s"] = round(time.time() - t0, 3)
        out.append(rec)
    return out


RTC_PROPS = {"C01", "C02", "C04", "C06", "C07", "C08", "C09", "C12", "C13", "C14", "C16", "C17", "C20"}


def run_rtc(prop, repo, tier):
    """thorough tier: the repository's own test suite with the property's runtime contracts installed on the real
    functions (rtc/plugin.py).  Bounded stand-in; evaluations are counted per contract."""
    if tier != "thorough" or prop not in RTC_PROPS or not os.path.isdir(os.path.join(repo, "nptdms", "test")):
        return None
    import tempfile
    fd, out = tempfile.mkstemp(prefix="rtc_", suffix=".json")
    os.close(fd)
    env = dict(os.environ)
    env["PYTHONPATH"] = HERE + os.pathsep + repo
    env["PYTHONDONTWRITEBYTECODE"] = "1"
    env["RTC_OUT"] = out
    env["RTC_ONLY"] = prop
    scratch = tempfile.mkdtemp(prefix="rtc_tmp_")       # the suite leaves temporary directories behind
    env["TMPDIR"] = scratch
    t0 = time.time()
    try:
        p = subprocess.run([PY_RT, "-m", "pytest", "-q", "-p", "no:cacheprovider", "-p", "rtc.plugin", "--timeout=900",
                            "-x", "-W", "ignore", os.path.join(repo, "nptdms", "test")],
                           capture_output=True, text=True, env=env, cwd=repo, timeout=1800)
        with open(out) as f:
            rec = json.load(f)
        rec["pytest_tail"] = p.stdout.strip().splitlines()[-1:] if p.stdout.strip() else []
    except Exception as e:
        rec = {"error": "runtime-contract run failed: %r" % (e,)}
    finally:
        try:
            os.unlink(out)
        except OSError:
            pass
        import shutil
        shutil.rmtree(scratch, ignore_errors=True)
    rec["wall_s"] = round(time.time() - t0, 2)
    return rec


def match_known(known, prop, key):
    for f in known.get("findings", []):
        if f.get("property") == prop and re.search(f["match"], key):
            return f
    return None


def run_property(prop, repo, tier, seed, jobs, only=None, t0=None):
    t0 = t0 or time.time()
    names = [n for n, h in H.HARNESSES.items() if prop in h.props]
    if only:
        sel = set(only.split(","))
        names = [n for n in names if n in sel]
    known = load_known()
    H.KNOWN_IDS.clear()
    H.KNOWN_IDS.update(f["id"] for f in known.get("findings", []))
    recs = []
    if names:
        work = []
        for n in names:
            h = H.HARNESSES[n]
            nv = len(h.variants_for(tier))
            if nv > 1 and (h.split_variants or (tier == "thorough" and h.thorough_variants)):
                work.extend((n, repo, tier, seed, vi, 1) for vi in range(nv))
            else:
                work.append((n, repo, tier, seed, None, 1))
        inner = max(1, jobs // max(1, len(work)))
        work = [w[:5] + (max(inner, 2) if len(work) < jobs else 1,) for w in work]
        # heavy harnesses first
        work.sort(key=lambda w: -H.HARNESSES[w[0]].weight)
        if jobs > 1 and len(work) > 1:
            from concurrent.futures import ProcessPoolExecutor
            ctx = mp.get_context("fork")
            with ProcessPoolExecutor(max_workers=min(jobs, len(work)), mp_context=ctx) as ex:
                recs = list(ex.map(_run, work))
        else:
            recs = [_run(w) for w in work]
    recs.extend(run_lean_lemmas(prop))
    bounded = run_bounded(prop, repo, tier, seed)
    rtc = run_rtc(prop, repo, tier)
    if rtc is not None and bounded is not None and not rtc.get("error"):
        # runtime-contract firings are reported like bounded stand-in violations (observed on the real code)
        for v in rtc.get("violations", []):
            bounded.setdefault("violations", []).append(
                {"key": "rtc/" + v["contract"], "detail": v["detail"], "script": None})

    obligations = 0
    bounded_dis = 0
    n_known_obl = 0
    discharged = 0
    bounded_obl = 0
    undecided = []
    violations = []
    known_hits = []
    functions = []
    backends = {}
    solver_time = 0.0
    samples = []
    crashes = []
    for r in recs:
        if r.get("crash"):
            crashes.append({"harness": r["harness"], "trace": r["crash"][-1500:]})
            undecided.append({"harness": r["harness"], "reason": "engine-crash"})
        for f in r["functions"]:
            functions.append({"function": f["name"], "fingerprint": f["fingerprint"], "harness": r["harness"],
                              "level": r["level"], "bound": r["bound"]})
        for u in r["undecided"]:
            undecided.append(dict(u, harness=r["harness"]))
        for o in r["obligations"]:
            obligations += 1
            solver_time += o["time"]
            backends[o["backend"]] = backends.get(o["backend"], 0) + 1
            if r["level"] != "proof":
                bounded_obl += 1
                if o["status"] in ("proved", "known"):
                    bounded_dis += 1
            if o["status"] == "proved":
                discharged += 1
            elif o["status"] == "known":
                n_known_obl += 1
                for kid in o.get("known_ids", []):
                    kf = [f for f in known["findings"] if f["id"] == kid]
                    if kf:
                        known_hits.append((kf[0], {"obligation": o["name"]}))
            elif o["status"] == "refuted":
                key = "%s|%s" % (o["name"], json.dumps(o.get("model", {}), sort_keys=True))
                kf = match_known(known, prop, o["name"])
                entry = {"obligation": o["name"], "harness": r["harness"], "variant": o.get("variant"),
                         "model": o.get("model"), "smt2": o.get("smt2"), "replay": o.get("replay"),
                         "functions": r["functions"]}
                if kf is not None and _within_known(kf, o):
                    known_hits.append((kf, entry))
                else:
                    violations.append(entry)
        if "sample_smt2" in r and len(samples) < 2:
            samples.append({"harness": r["harness"], "smt2": r["sample_smt2"]})
    for r in recs:
        for o in r["obligations"][:2]:
            if len(samples) < 6:
                samples.append({"obligation": o["name"], "status": o["status"], "backend": o["backend"],
                                "time": o["time"]})

    # ---- replay refutations on the real code
    out_lines = []
    os.makedirs(os.path.join(HERE, "replays"), exist_ok=True)
    n_viol = 0
    seen_replay = set()
    for v in violations:
        slug = _slug("%s-%s" % (prop, v["obligation"]))
        if slug in seen_replay:
            continue
        seen_replay.add(slug)
        path = os.path.join(HERE, "replays", slug + ".json")
        confirmed = False
        observed = None
        rp = v.get("replay")
        if rp and rp.get("script"):
            code, outp = run_rt_script(rp["script"], repo)
            observed = {"exit": code, "output": outp}
            confirmed = (code == 1)
        doc = {"property": prop, "obligation": v["obligation"], "harness": v["harness"],
               "variant": v["variant"], "functions": v["functions"], "model": v["model"],
               "replay": rp, "observed_on_real_code": observed, "confirmed": confirmed,
               "solver_output": {"result": "sat", "smt2": v.get("smt2")}}
        with open(path, "w") as f:
            json.dump(doc, f, indent=1, default=str)
        n_viol += 1
        rel = os.path.relpath(path, HERE)
        if confirmed:
            out_lines.append("VIOLATION property=%s replay=%s" % (prop, rel))
        else:
            out_lines.append("VIOLATION property=%s replay=%s no-failing-input-found" % (prop, rel))

    # ---- bounded stand-in results
    bounded_viol = 0
    if bounded is not None:
        for bv in bounded.get("violations", []):
            kf = match_known(known, prop, bv.get("key", ""))
            if kf is not None:
                known_hits.append((kf, {"obligation": bv.get("key"), "bounded": True, "detail": bv.get("detail")}))
                continue
            slug = _slug("%s-bounded-%s" % (prop, bv.get("key", "x")))
            if slug in seen_replay:
                continue
            seen_replay.add(slug)
            path = os.path.join(HERE, "replays", slug + ".json")
            with open(path, "w") as f:
                json.dump({"property": prop, "obligation": bv.get("key"), "layer": "bounded runtime contract",
                           "detail": bv.get("detail"), "script": bv.get("script"), "confirmed": True}, f,
                          indent=1, default=str)
            bounded_viol += 1
            n_viol += 1
            out_lines.append("VIOLATION property=%s replay=%s" % (prop, os.path.relpath(path, HERE)))

    printed = set()
    for (kf, entry) in known_hits:
        if kf["id"] in printed or kf.get("property") != prop:
            continue
        printed.add(kf["id"])
        print("KNOWN-FINDING: property=%s %s" % (prop, kf["what"]))

    for ln in out_lines:
        print(ln)

    # ---- evidence
    level_claim = "proof"
    reasons = []
    if obligations == 0:
        level_claim = "other"
        reasons.append("no deductive obligations generated")
    if undecided:
        level_claim = "other"
        reasons.append("%d undecided items (see coverage.undecided)" % len(undecided))
    if discharged + n_known_obl != obligations:
        level_claim = "other"
    from .models import TRUSTED
    trusted = sorted(set(TRUSTED_STATIC + _collect_trusted(recs)))
    unb_obl = obligations - bounded_obl
    coverage = {
        # proof-level counts: obligations of harnesses that are unbounded (no shape enumeration); an obligation
        # that fails only inside a recorded known-finding class is discharged with that class excluded
        "obligations": unb_obl,
        "discharged": (discharged + n_known_obl) - bounded_dis,
        "discharged_only_outside_known_finding_class": n_known_obl,
        "shape_bounded_obligations": bounded_obl,
        "shape_bounded_discharged": bounded_dis,
        "all_obligations_generated": obligations,
        "checker_cmd": "python3-vt -m pyvc.cli %s --tier %s  (VC generation from %s/nptdms/*.py by pyvc; "
                       "z3 %s default + qfnia tactic, cvc5 CLI as third back end)" % (prop, tier, repo, _z3v()),
        "trusted_base": trusted,
        "functions_under_contract": functions,
        "backends": backends,
        "solver_time_s": round(solver_time, 3),
        "paths": sum(r["paths"] for r in recs),
        "undecided": undecided[:40],
        "samples": samples,
        "known_findings_hit": [kf["id"] for kf, _ in known_hits],
        "engine_crashes": crashes,
        "explanation": (P.get(prop, "claim", "") or "deductive obligations for the functions listed") +
                       (" | " + "; ".join(reasons) if reasons else ""),
    }
    if bounded is not None:
        coverage["bounded_standin"] = {k: bounded.get(k) for k in
                                       ("evaluations", "distinct_nontrivial", "rule", "bound", "samples",
                                        "wall_s", "error", "contracts_evaluated")}
        coverage["evaluations"] = max(1, int(bounded.get("evaluations") or 0))
        coverage["distinct_nontrivial"] = max(2, int(bounded.get("distinct_nontrivial") or 0)) \
            if bounded.get("distinct_nontrivial") else 0
        coverage["rule"] = bounded.get("rule", "")
    if rtc is not None:
        coverage["runtime_contracts_on_repo_test_suite"] = {
            "evaluations_per_contract": rtc.get("evaluations"), "violations": len(rtc.get("violations", []) or []),
            "pytest": rtc.get("pytest_tail"), "error": rtc.get("error"), "wall_s": rtc.get("wall_s"),
            "label": "bounded: contracts evaluated at run time on the calls the repository's tests make"}
    level = P.get(prop, "level", "other")
    if level == "proof" and level_claim != "proof":
        level = "other"
    ev = {
        "property_id": prop,
        "tier": tier,
        "seed": seed,
        "level": level,
        "coverage": coverage,
        "assumptions": P.get(prop, "assumptions", []) + GLOBAL_ASSUMPTIONS,
        "wall_s": round(time.time() - t0, 2),
        "violations": n_viol,
    }
    evdir = os.environ.get("VERIF_EVIDENCE_DIR") or os.path.join(HERE, "evidence")
    os.makedirs(evdir, exist_ok=True)
    with open(os.path.join(evdir, "%s.json" % prop), "w") as f:
        json.dump(ev, f, indent=1, default=str)
    print("%s: %d obligations, %d discharged (%d unbounded, %d shape-bounded), %d undecided, %d violations, "
          "%d known findings, %.1fs" % (prop, obligations, discharged, unb_obl, bounded_obl, len(undecided),
                                       n_viol, len(printed), time.time() - t0))
    if bounded is not None:
        print("%s bounded stand-in: %s evaluations, %s violations%s" % (
            prop, bounded.get("evaluations"), len(bounded.get("violations", [])),
            (" ERROR " + str(bounded.get("error"))) if bounded.get("error") else ""))
    if n_viol:
        return 1
    berr = bool(bounded is not None and bounded.get("error"))
    if undecided or crashes or berr:
        # not a violation (never map unknown / unsupported / traceback to one) and not "held" either
        print("UNDECIDED property=%s undecided_paths=%d engine_crashes=%d bounded_standin_error=%s (see evidence/%s.json)"
              % (prop, len(undecided), len(crashes), berr, prop))
        return 2
    return 0


def _within_known(kf, o):
    """a known finding may restrict the counter-model (python expression over model leaves)"""
    cond = kf.get("when")
    if not cond:
        return True
    try:
        return bool(eval(cond, {}, dict(o.get("model") or {})))
    except Exception:
        return False


def _collect_trusted(recs):
    out = []
    for r in recs:
        out.extend(r.get("trusted", []))
    return out


def _z3v():
    import z3
    return z3.get_version_string()


def replay_file(prop, path, repo):
    with open(path) as f:
        doc = json.load(f)
    script = None
    if doc.get("replay") and doc["replay"].get("script"):
        script = doc["replay"]["script"]
    elif doc.get("script"):
        script = doc["script"]
    if not script:
        print("replay file carries no executable input (obligation %s): solver output only" % doc.get("obligation"))
        return 0
    code, out = run_rt_script(script, repo)
    print(out)
    if code == 1:
        print("VIOLATION property=%s replay=%s" % (prop, path))
        return 1
    return 0


BOUNDED_PROPS = set("C%02d" % i for i in range(1, 21))

TRUSTED_STATIC = [
    "pyvc engine: AST interpreter + VC generation (own code, guarded by canaries and concrete cross-checks)",
    "z3 5.1 / cvc5 1.0.3 soundness",
    "A-INT: Python ints and NumPy integer scalars in index arithmetic are mathematical integers",
    "A-DYN: no monkey-patching / reflection; exceptions arise only at modelled sites",
]
GLOBAL_ASSUMPTIONS = [
    "single-threaded execution; file contents immutable while open",
    "termination is not proved",
    "dropped by extraction: log.* calls, `if log.isEnabledFor` blocks, Timer context managers, docstrings, "
    "exception message text",
]
PROP_EXPLANATION = {}
PROP_LEVEL = {}
PROP_ASSUMPTIONS = {}
