"""Per-property metadata: level claimed, what the check establishes, assumptions, technique."""

TECHNIQUE = ("contract-based deductive verification: VCs generated from the real /repo ASTs by pyvc "
             "(symbolic execution against sidecar contracts and loop invariants), discharged by z3/cvc5; "
             "counter-models replayed on the real code; bounded runtime-contract stand-in where labelled")

PROPS = {
    "C04": dict(
        level="proof",
        claim="For every number of segments and chunks (loops cut by inductive invariants, all integers "
              "unbounded) TdmsReader.read_raw_data_for_channel yields consecutive windows whose concatenation "
              "is values[offset:min(offset+length,n)]; _read_slice/_read_at_index agree with Python's slice "
              "and index semantics for all integers; the segment-level channel stream delivers chunk i of "
              "the request from the channel's slot of that chunk.",
        note="assumes the model library (numpy.searchsorted on a nondecreasing array, array slicing, "
             "struct, file protocol) and Reader.inv (index = prefix sums of per-segment value counts, "
             "established by _build_index); chunk readers are verified for <= 3 data objects per segment "
             "(shape-bounded, values unbounded) and reported separately",
        assumptions=["np.searchsorted / slicing semantics as stated in pyvc/models (trusted_base)",
                     "Reader.inv: _segment_channel_offsets[path] = cumulative sums of _number_of_segment_values"],
    ),
    "C19": dict(
        level="proof",
        claim="Ghost read-set obligations: every chunk requested from a segment by "
              "read_raw_data_for_channel overlaps [offset, end) (first and last requested chunk), the "
              "segment-level stream reads only inside the requested channel's slot of each requested chunk "
              "(contiguous layout), fromfile/read_values read only the bytes asked for, a cache hit in "
              "_read_at_index performs no reader call.",
        note="an empty request is read as the position `offset`; OS read-ahead is below contract level; "
             "one known finding (truncated final chunk holding 0 values of the channel)",
        assumptions=["file protocol model: read/readinto transfer exactly min(n, size-pos) bytes"],
    ),
}


def get(prop, key, default=None):
    return PROPS.get(prop, {}).get(key, default)
