"""Per-property metadata: level claimed, what the check establishes, assumptions, technique."""

TECHNIQUE = ("contract-based deductive verification: VCs generated from the real /repo ASTs by pyvc (symbolic "
             "execution of the functions against sidecar contracts, loop invariants and ghost state), discharged "
             "by z3 / cvc5; counter-models replayed on the real code; bounded runtime-contract stand-in where "
             "labelled")

_BOUNDED = ("; shape-bounded harnesses (bounded number of objects/segments/chunks, all values symbolic) and the "
            "bounded runtime-contract stand-in are reported separately and never counted as proved")

PROPS = {
    "C01": dict(level="other",
                claim="Contracts on every function between the bytes and the values: lead-in parse, raw data index (17 "
                      "types, type table checked against the layout table), property parse, typed value reads and "
                      "fromfile are proved for all inputs; chunk readers (contiguous, interleaved), metadata "
                      "accumulation and the hierarchy are proved for bounded shapes with symbolic values, the metadata "
                      "walk and the eager data read for any number of segments / chunks (loop invariants), the "
                      "contiguous channel reader for any number of data objects; a runtime contract compares TdmsFile.read with an independent "
                      "encoder's model on random small files.",
                note="composition of the per-function contracts into the end-to-end statement is argued in DESIGN.md, "
                     "not machine-checked; NumPy/struct/utf-8 are assumed contracts (trusted_base)",
                assumptions=["bit-exactness = 'bytes come from the right addresses, in the right byte order and dtype' "
                             "+ NumPy reinterpretation semantics"]),
    "C02": dict(level="other",
                claim="read_segment_objects and its helpers executed symbolically against spec.inherit.denote (the "
                      "explicit object list a segment's metadata means) for every ToC flag combination, header kind "
                      "and path equality pattern with <= 2 previous objects and <= 2 listed objects; the per-object "
                      "helpers (_update_existing_object, _reuse_previous_object, _new_segment_object, "
                      "_reuse_previous_segment_metadata) each against one step of the same specification for an object "
                      "list of any length and any position in it (no shape enumeration); the loop over the listed objects "
                      "for any number of listed objects, any number of carried-over objects and a reader memory of any "
                      "size (inductive invariant: iteration k performs exactly the specification's step for entry k); the "
                      "reader's per-path memory and the rejection of a data type change (_update_object_metadata) for "
                      "any number of objects per segment; "
                      "FRAME obligations: "
                      "earlier segments' lists and objects are never modified; forbidden encodings raise ValueError; "
                      "runtime contract: explicit / incremental / metadata-less encodings of random files read alike.",
                note="each iteration and each helper is proved as one step of the specification without a bound; that "
                     "the fold of the steps equals spec.inherit.denote of the whole entry list is machine-checked for "
                     "<= 3 listed / <= 3 previous objects (values, paths, flags symbolic) and argued by induction "
                     "beyond; the path index cache is shape-bounded; unique paths within an object list and within "
                     "one segment's entries are a precondition",
                assumptions=["copy.copy is a shallow field copy", "ObjectListKey hash consistency (eq => equal hash) by "
                             "construction of the xor fold",
                             "unbounded loop harnesses: a path is listed at most once in one segment's metadata "
                             "(precondition); the dictionary built from the carried-over list is over-approximated "
                             "(a lookup may miss although a position matches); contracts of read_raw_data_index, "
                             "_read_object_properties, _calculate_chunks used at their call sites (proved in their "
                             "own harnesses); the composition of the per-entry steps into spec.inherit.denote of the "
                             "whole list is machine-checked only up to the stated shape bound"]),
    "C03": dict(level="other",
                claim="Every access path of TdmsChannel has the postcondition 'the window W(request) of the same value "
                      "sequence': __getitem__ dispatch, read_data (eager and lazy, typed / typeless / DAQmx), data, "
                      "raw_data, raw_scaler_data, _read_channel_data, channel and file chunk streams with offsets = "
                      "running count, receivers; runtime contract over all access paths incl. memmap and raw timestamps.",
                note="functions shared by all paths (readers) are used through their contracts on both sides; np.memmap "
                     "backing store is below contract level",
                assumptions=["np.memmap arrays behave as arrays"]),
    "C04": dict(level="proof",
                claim="For every number of segments and chunks (loops cut by inductive invariants, all integers "
                      "unbounded) TdmsReader.read_raw_data_for_channel yields consecutive windows whose concatenation is "
                      "values[offset:min(offset+length,n)]; read_channel_chunk_for_index returns the chunk containing "
                      "the index; _read_slice / _read_at_index agree with Python's slice and index semantics for all "
                      "integers; the segment-level channel stream delivers chunk i from the channel's slot.",
                note="Reader.inv (index = prefix sums of per-segment value counts) is the proved postcondition of "
                     "_build_index for any number of segments (harnesses build_index_all_segments, reader_inv_link); "
                     "that channel length n equals the last index entry is assumed (both are sums of "
                     "_number_of_segment_values; that _update_object_metadata adds exactly this count per object is proved "
                     "for any number of objects by update_object_metadata_all_objects, the link of the two sums over "
                     "all segments is on paper); model library "
                     "(searchsorted, slicing, cumsum) assumed" + _BOUNDED,
                assumptions=["np.searchsorted on a nondecreasing array", "lemma cum monotone (proved by induction)"]),
    "C05": dict(level="other",
                claim="Operations are verified with the file cursor havocked at every yield and at entry: the channel "
                      "stream and (after the fix) the file-level stream re-establish their position (loop invariant "
                      "'cursor at start of chunk i'), _verify_segment_start seeks from any cursor, the one-chunk cache "
                      "invariant is re-established by _read_at_index, memo fields equal their recomputation; runtime "
                      "contract over random interleavings of reads and live generators.",
                note="independence over all histories follows by induction on the history from 'every operation "
                     "re-establishes the invariants and its result is a function of file and request'; that induction "
                     "is the Lean 4 theorem C05.history_independent (lean/HistoryIndependence.lean, kernel-checked on "
                     "every run); that the per-operation contracts proved by pyvc are instances of the theorem's "
                     "hypothesis (one Inv for all operations) is argued in DESIGN.md, and the segment-level streams "
                     "are shape-bounded in the number of data objects",
                assumptions=["single thread; file contents immutable while open"]),
    "C06": dict(level="other",
                claim="_read_lead_in: clamp of the segment end to the data file size, incomplete flag, EOFError for cut "
                      "lead-in / metadata (proved for all byte contents and sizes); _calculate_chunks (proved); final "
                      "chunk lengths = largest prefix-closed counts that fit (<= 3 objects); short reads in fromfile / "
                      "read_interleaved_segment_bytes (proved); length accounting; file_status; runtime contract: "
                      "every cut offset of random files, eager and lazy, explicit and unknown-length lead-in.",
                note="strings in truncated multi-chunk segments are excluded as in the statement",
                assumptions=["short reads happen only at EOF (file model)"]),
    "C07": dict(level="other",
                claim="to_int_property_value (all integers), _infer_dtype (lists of <= 3 integers of any magnitude), "
                      "value->type dispatch and serialisation of every property kind, segment serialisation parsed "
                      "back under the layout grammar, TimeStamp encoding (all datetimes, integer proof); composition "
                      "with the reader's contracts; runtime contract: random write_segment sequences over sessions "
                      "read back.",
                note="bytes-valued properties and object-dtype integer arrays are not documented as accepted input",
                assumptions=["struct / utf-8 codecs mutually inverse", "ndarray.tofile writes nbytes"]),
    "C08": dict(level="other",
                claim="The bytes produced by TdmsSegment.write are parsed by spec.layout's grammar: lead-in offsets equal "
                      "metadata length and raw data length, every length field equals the bytes that follow (raw index "
                      "20 / 28), counts, raw data = what types and counts imply; write_segment: root in the first "
                      "segment, groups before channels, stable channel order, index twin built from the same object "
                      "list; runtime contract: independent structural parser on random output.",
                note="7 object lists x index on/off x 2 versions, names / values / lengths symbolic",
                assumptions=["len(b''.join(xs)) = sum(len(x))", "writer_offsets_all_objects: object_data_size and write_data are one contract pair (same size for one "
                             "object; their agreement per data type is checked by writer_segment_write for the listed "
                             "types); the segment fits the 64-bit offset fields (precondition)"]),
    "C09": dict(level="other",
                claim="read_metadata walk: the stream cursor and segment position fed to every lead-in parse are the "
                      "data-file position and the index-stream position of segment k in the respective mode (any "
                      "number of segments by a while-loop invariant, offsets symbolic); _read_lead_in clamps with the data file's size in both modes "
                      "(proved); index discovery and index-only detection; index-only data reads raise; runtime "
                      "contract with index files from an independent encoder.",
                note="one known finding (index-only open with unknown-length marker)",
                assumptions=["os.path.isfile / open do not fail on existing files"]),
    "C10": dict(level="other",
                claim="defragment verified against contracts only: source opened with raw timestamps, one segment for "
                      "root, each group, each channel with read_data(scaled=False) data and the same properties; writer "
                      "serialisation of raw timestamps bit-exact; empty untyped channels written without index; "
                      "runtime contract on random fragmented files.",
                note="DAQmx sources excluded by the statement", assumptions=["C01, C07 contracts"]),
    "C11": dict(level="other",
                claim="DAQmx raw index parse in segment byte order, buffer dimensions and chunk size, truncated final "
                      "chunk, column extraction at buffer start + row*width + byte offset with the scaler's type and "
                      "byte order, digital-line bit (bit-vector lemma proved for 8/16/32/64 bits); runtime contract on "
                      "random DAQmx segments from an independent encoder.",
                note="<= 2 channels x <= 2 scalers x <= 2 buffers in the deductive harnesses",
                assumptions=["NumPy 2-D column selection + ravel"]),
    "C12": dict(level="proof",
                claim="TimeStamp encoding proved for all datetime64[us] values (integers): floor decomposition, "
                      "fractions within the written microsecond and nanosecond with a 2**-40 s guard; decoding proved "
                      "over the reals with the exact value of the double constant: within one step of the exact time, "
                      "monotone; scalar and array conversion are the same term; time_track characterised for an "
                      "arbitrary index; byte layouts per byte order; IEEE rounding decided exhaustively for all 10**6 "
                      "microsecond values by the bounded stand-in.",
                note="the one IEEE division of the decoder is outside the deductive part (A-REAL)",
                assumptions=["A-REAL for as_datetime64 and time_track", "A-INT: no int64 overflow in datetime64 counts"]),
    "C13": dict(level="other",
                claim="get_scaling lookup order (27 placements), construction of every scale type from properties "
                      "(symbolic coefficients, no swaps), dataflow evaluation against spec for 8 wirings with "
                      "uninterpreted scale formulas, Linear / Polynomial / Table formulas over the reals, Add / Subtract "
                      "convention, purity by alias tracking (no in-place update of the input), application points use "
                      "the same scaling; runtime contract on random graphs of depth <= 4.",
                note="real arithmetic; NumPy elementwise semantics assumed", assumptions=["A-REAL"]),
    "C14": dict(level="other",
                claim="declared dtype: _raw_data_dtype per type, dtype dispatch, _compute_scale_dtype follows the "
                      "evaluation graph; every empty-result site carries the declared dtype; runtime contract "
                      "exhaustive over raw type x scale kind for all read operations.",
                note="NumPy's promotion table is sampled by executing the real operators (bounded stand-in); two known "
                     "findings (raw-timestamp dtype, big-endian chunk dtype)", assumptions=["NumPy promotion rules"]),
    "C15": dict(level="other",
                claim="Every parse obligation is stated for the byte order derived from that segment's ToC mask: lead-in "
                      "(ToC mask itself little-endian), object count, raw index, properties of every type, typed reads "
                      "(dtype in segment order), timestamps (field order), strings, interleaved columns, DAQmx records; "
                      "runtime contract: little / big / mixed encodings of random files read alike.",
                note="values equal; the byte order of chunk arrays' dtype is a C14 matter", assumptions=[]),
    "C16": dict(level="proof",
                claim="_path_components executed on enc(names) for names of unbounded length over arbitrary code points: "
                      "two loop invariants (component cursor; character cursor k = base + L(j), component = name[:j]) "
                      "prove every yielded component equals the name given to the encoder, no ValueError, and "
                      "termination only after the last component; the encoder's structure; lemma L(j) >= j by "
                      "induction; exhaustive runtime check for all names of length <= 4 over {quote, slash, space, "
                      "letter}.",
                note="str.replace / join are characterised pointwise (assumed)",
                assumptions=["pointwise characterisation of quote doubling and concatenation"]),
    "C17": dict(level="proof",
                claim="Over the reals (nonlinear arithmetic): RtdScaling returns T for T >= 0 (quadratic branch) and T is "
                      "a root of the quartic the code builds for T < 0; ThermistorScaling inverts Steinhart-Hart for "
                      "current and voltage excitation with lead compensation; StrainScaling inverts the Wheatstone "
                      "bridge equation of all seven configurations (with NI's gain and lead corrections); polynomial "
                      "and table formulas; IEEE 1e-6 bound checked on grids by the bounded stand-in.",
                note="polyroots assumed to return the roots; uniqueness of the negative real root is a physical "
                     "precondition", assumptions=["A-REAL", "ln uninterpreted (congruence)"]),
    "C18": dict(level="proof",
                claim="Tables rebuilt from the source on every run: coefficients, boundaries and the type-K exponential "
                      "equal the frozen NIST data; partition and totality (NaN default never selected), continuity by "
                      "exact rationals, forward strictly increasing on each piece (nlsat), |inverse(forward(T)) - T| "
                      "within the NIST error range for all real T (two-variable nlsat), direction and microvolt "
                      "convention of ThermocoupleScaling.",
                note="type K above 0 C (exponential term): inverse error decided by the bounded stand-in only; IEEE "
                     "evaluation of polyval not decided", assumptions=["A-REAL", "NIST inverse error ranges transcribed, "
                                                                       "widened by 0.015 C"]),
    "C19": dict(level="proof",
                claim="Ghost read-set obligations: every chunk requested from a segment by read_raw_data_for_channel "
                      "overlaps [offset, end) (first and last requested chunk), the segment-level stream reads only "
                      "inside the requested channel's slot of each requested chunk, fromfile / read_values read only "
                      "the bytes asked for, _verify_segment_start reads exactly the 4 tag bytes, a cache hit in "
                      "_read_at_index performs no reader call.",
                note="an empty request is read as the position `offset`; the former finding (truncated final chunk "
                     "holding 0 values of the channel) is repaired in /repo 1b68fb6 and the obligations hold without "
                     "exclusion" + _BOUNDED,
                assumptions=["file protocol model: read/readinto transfer exactly min(n, size-pos) bytes"]),
    "C20": dict(level="proof",
                claim="Typestate contracts with ghost ownership: TdmsReader.__init__ records a path exactly for handles "
                      "it opened, close() closes those and only those, is idempotent, _ensure_open raises afterwards "
                      "and the three data entry points raise RuntimeError; read_metadata closes the owned index stream "
                      "on normal and exceptional exit (for any number of segments); TdmsFile.__init__ closes the reader on every exit unless "
                      "keep_open (failure injected at each callee); TdmsWriter with-block closes what it opened, never "
                      "caller streams; runtime contract on /proc/self/fd.",
                note="kernel descriptor table below contract level; outside the statement: TdmsFile.open raising, "
                     "failure of the second open() in TdmsReader.__init__", assumptions=["file.close() releases the "
                                                                                       "descriptor"]),
}


def get(prop, key, default=None):
    return PROPS.get(prop, {}).get(key, default)
