/-
C05 (reads from an open file are independent of earlier reads): the step from per-operation contracts to all
histories.

`pyvc` proves, for every read operation of the open file (index, slice, window read, `next` on a chunk stream), a
contract of the shape

    Inv s  →  Inv (step s r).1  ∧  (step s r).2 = spec r

where `s` is the hidden mutable state of the open file (OS file position, one-chunk cache, offset index, memo
fields), `Inv` is the representation invariant (cache bounds describe the cached chunk, index entries are prefix
sums, memo fields equal their recomputation; the file position is unconstrained because every operation seeks
before it reads), `r` the request and `spec r` the value a freshly opened file gives.  The lemma below is the
induction over the history that the verifier does not do: after ANY finite sequence of such operations, started in
any state satisfying `Inv`, every result is the fresh-file result of its own request, and `Inv` still holds.
Checked by the Lean 4 kernel (core library only, no Mathlib; the only axiom used is `propext`, via `simp`).
-/

namespace C05

variable {S Req Res : Type}

/-- run a history of requests from state `s`, collecting the results -/
def run (step : S → Req → S × Res) : S → List Req → S × List Res
  | s, [] => (s, [])
  | s, r :: rs =>
    let p := step s r
    let q := run step p.1 rs
    (q.1, p.2 :: q.2)

theorem history_independent
    (step : S → Req → S × Res) (Inv : S → Prop) (spec : Req → Res)
    (contract : ∀ s r, Inv s → Inv (step s r).1 ∧ (step s r).2 = spec r) :
    ∀ (rs : List Req) (s : S), Inv s →
      Inv (run step s rs).1 ∧ (run step s rs).2 = rs.map spec := by
  intro rs
  induction rs with
  | nil => intro s h; exact ⟨h, rfl⟩
  | cons r rs ih =>
    intro s h
    have hc := contract s r h
    have hr := ih (step s r).1 hc.1
    refine ⟨hr.1, ?_⟩
    simp [run, List.map, hc.2, hr.2]

/-- consequence: the result of the last operation does not depend on the history before it -/
theorem last_result_independent
    (step : S → Req → S × Res) (Inv : S → Prop) (spec : Req → Res)
    (contract : ∀ s r, Inv s → Inv (step s r).1 ∧ (step s r).2 = spec r)
    (h1 h2 : List Req) (s1 s2 : S) (i1 : Inv s1) (i2 : Inv s2) (r : Req) :
    (step (run step s1 h1).1 r).2 = (step (run step s2 h2).1 r).2 := by
  have a := (history_independent step Inv spec contract h1 s1 i1).1
  have b := (history_independent step Inv spec contract h2 s2 i2).1
  rw [(contract _ r a).2, (contract _ r b).2]

end C05

#print axioms C05.history_independent
#print axioms C05.last_result_independent
